package main

import (
	"bufio"
	"bytes"
	"context"
	"fmt"
	"io"
	"os"
	"os/exec"
	"sort"
	"strconv"
	"strings"
	"sync"
	"time"

	"github.com/go-kit/log"
	"github.com/thanos-io/objstore"

	thanoscache "github.com/thanos-io/thanos/pkg/cache"
	storecache "github.com/thanos-io/thanos/pkg/store/cache"
	"github.com/thanos-io/thanos/verifharness/hlib"
)

// C14 — caching bucket is transparent for immutable objects.
//
// grammar (see also lean/Thanos/Driver/Index.lean)
//   cb.hist <object hex> <S> <maxSub> <p> <op>(;<op>)*
//       one object in the wrapped in-memory bucket, a caching bucket with subrange size S and
//       MaxSubRequests maxSub in front of it, a history of reads; p = buffer size of the Read calls
//   op  := r<off>,<len>,<attrpat>,<subpat>     GetRange(off, len), read to EOF
//   pat := [012]+   how the lossy cache treats the i-th key of a Fetch call (cyclic):
//                   0 = return it if stored, 1 = miss this time, 2 = evict (miss and forget)
//   answer: one item per op, joined by ';':
//       <bytes hex | panic | err>/<A if the wrapped bucket's Attributes was called, else ->/
//       <GetRange calls on the wrapped bucket: start+len,…>/<stored subrange keys: start-end,…>
//   cb.mix <object hex> <S> <maxSub> <p> <maxGet> <op>(;<op>)*
//       the same with every verb; the bucket holds the object "obj" and "zdir/file", not "nope"
//       op := r… as above | g<mode>,<pat2> Get(obj)  mode := f (read to EOF) | x (read exactly size bytes) | h<n> (read n bytes, close)
//           | G<pat2> Get(nope) | e<pat1> Exists(obj) | E<pat1> Exists(nope) | a<pat1> Attributes(obj)
//           | A<pat1> Attributes(nope) | i<pat1> Iter("")
//       answer per op (other than r): <bytes hex | notfound | true | false | size:<n> | names:obj,zdir/>/<calls on the wrapped bucket joined by +, or ->

func init() {
	props = append(props, &hlib.Prop{ID: "C14", Gen: genC14, Exec: execC14})
}

const c14Obj = "obj"

// logBucket records the calls that reach the wrapped bucket.
type logBucket struct {
	*objstore.InMemBucket
	mu    sync.Mutex
	calls []string // "A", "R<start>+<len>"
}

func (b *logBucket) log(s string) {
	b.mu.Lock()
	b.calls = append(b.calls, s)
	b.mu.Unlock()
}

func (b *logBucket) GetRange(ctx context.Context, name string, off, length int64) (io.ReadCloser, error) {
	b.log(fmt.Sprintf("R%d+%d", off, length))
	return b.InMemBucket.GetRange(ctx, name, off, length)
}

func (b *logBucket) Attributes(ctx context.Context, name string) (objstore.ObjectAttributes, error) {
	b.log("A")
	return b.InMemBucket.Attributes(ctx, name)
}

func (b *logBucket) Get(ctx context.Context, name string) (io.ReadCloser, error) {
	b.log("Get")
	return b.InMemBucket.Get(ctx, name)
}

func (b *logBucket) Exists(ctx context.Context, name string) (bool, error) {
	b.log("Exists")
	return b.InMemBucket.Exists(ctx, name)
}

func (b *logBucket) Iter(ctx context.Context, dir string, f func(string) error, options ...objstore.IterOption) error {
	b.log("Iter")
	return b.InMemBucket.Iter(ctx, dir, f, options...)
}

// lossyCache keeps everything that is stored, but each Fetch call is told by a pattern which of
// the requested keys it may return (0), must miss (1) or must forget (2).
type lossyCache struct {
	mu     sync.Mutex
	data   map[string][]byte
	pats   []string // one pattern per upcoming Fetch call
	stores []string // keys stored since the last reset
}

func (c *lossyCache) Name() string { return "lossy" }

func (c *lossyCache) Store(data map[string][]byte, _ time.Duration) {
	c.mu.Lock()
	defer c.mu.Unlock()
	for k, v := range data {
		c.data[k] = append([]byte(nil), v...)
		c.stores = append(c.stores, k)
	}
}

func (c *lossyCache) Fetch(_ context.Context, keys []string) map[string][]byte {
	c.mu.Lock()
	defer c.mu.Unlock()
	pat := "0"
	if len(c.pats) > 0 {
		pat, c.pats = c.pats[0], c.pats[1:]
	}
	out := map[string][]byte{}
	for i, k := range keys {
		switch pat[i%len(pat)] {
		case '0':
			if v, ok := c.data[k]; ok {
				out[k] = append([]byte{}, v...) // an empty value is still a hit
			}
		case '2':
			delete(c.data, k)
		}
	}
	return out
}

type c14Op struct {
	kind        byte // r g G e E a A i
	off, length int64
	mode        string // g: f | x | h<n>
	pats        []string
}

func okPat(p string) bool { return p != "" && strings.Trim(p, "012") == "" }

func parseC14Op(s string) (c14Op, bool) {
	if s == "" {
		return c14Op{}, false
	}
	op := c14Op{kind: s[0]}
	rest := s[1:]
	switch op.kind {
	case 'r':
		p := strings.Split(rest, ",")
		if len(p) != 4 || !okPat(p[2]) || !okPat(p[3]) {
			return op, false
		}
		o, err1 := strconv.ParseInt(p[0], 10, 64)
		l, err2 := strconv.ParseInt(p[1], 10, 64)
		if err1 != nil || err2 != nil || o < 0 || l <= 0 {
			return op, false
		}
		op.off, op.length, op.pats = o, l, []string{p[2], p[3]}
		return op, true
	case 'g':
		p := strings.Split(rest, ",")
		if len(p) != 2 || !okPat(p[1]) {
			return op, false
		}
		if p[0] != "f" && p[0] != "x" {
			if !strings.HasPrefix(p[0], "h") {
				return op, false
			}
			if _, err := strconv.Atoi(p[0][1:]); err != nil {
				return op, false
			}
		}
		op.mode, op.pats = p[0], []string{p[1]}
		return op, true
	case 'G', 'e', 'E', 'a', 'A', 'i':
		if !okPat(rest) {
			return op, false
		}
		op.mode, op.pats = "f", []string{rest}
		return op, true
	}
	return op, false
}

// readAllP reads r to EOF with a buffer of p bytes.
func readAllP(r io.Reader, p int, limit int) ([]byte, error) {
	var out []byte
	buf := make([]byte, p)
	for i := 0; i < limit; i++ {
		n, err := r.Read(buf)
		out = append(out, buf[:n]...)
		if err == io.EOF {
			return out, nil
		}
		if err != nil {
			return out, err
		}
	}
	return out, fmt.Errorf("reader does not end")
}

// subrangeKey parses "subrange:<name>:<start>:<end>".
func subrangeKey(k string) (int64, int64, bool) {
	p := strings.Split(k, ":")
	if len(p) != 4 || p[0] != "subrange" || p[1] != c14Obj {
		return 0, 0, false
	}
	a, err1 := strconv.ParseInt(p[2], 10, 64)
	b, err2 := strconv.ParseInt(p[3], 10, 64)
	return a, b, err1 == nil && err2 == nil
}

// execC14 runs a history in this process, or — in isolate mode (see main.go) — in a worker
// process, so that a panic inside one of the caching bucket's own goroutines is attributed to the
// history that caused it (the worker is restarted after a crash).
func execC14(c *hlib.Ctx, tok []string) string {
	if os.Getenv("VERIF_INDEX_ISOLATE") == "" {
		return execC14InProc(c.Violation, tok)
	}
	if c14w == nil {
		w := &c14Worker{}
		w.cmd = exec.Command(os.Args[0], "c14child")
		w.cmd.Stderr = &w.stderr
		in, err1 := w.cmd.StdinPipe()
		out, err2 := w.cmd.StdoutPipe()
		if err1 != nil || err2 != nil || w.cmd.Start() != nil {
			return "err:worker"
		}
		w.in, w.out = in, bufio.NewReaderSize(out, 1<<20)
		c14w = w
	}
	w := c14w
	fmt.Fprintln(w.in, strings.Join(tok, " "))
	for {
		l, err := w.out.ReadString('\n')
		l = strings.TrimRight(l, "\n")
		switch {
		case strings.HasPrefix(l, "V\t"):
			if p := strings.SplitN(l, "\t", 3); len(p) == 3 {
				c.Violation(p[1], p[2])
			}
		case strings.HasPrefix(l, "A\t"):
			return strings.TrimPrefix(l, "A\t")
		}
		if err != nil {
			_ = w.cmd.Wait()
			first := strings.SplitN(strings.TrimSpace(w.stderr.String()), "\n", 2)[0]
			c14w = nil
			c.Violation("getrange-crash", "the process died while serving this history: "+short(first))
			return "crash"
		}
	}
}

type c14Worker struct {
	cmd    *exec.Cmd
	in     io.WriteCloser
	out    *bufio.Reader
	stderr bytes.Buffer
}

var c14w *c14Worker

// c14Child is the worker: it executes history lines from stdin and prints, for each, its
// violations and its answer.
func c14Child(_ []string) {
	sc := bufio.NewScanner(os.Stdin)
	sc.Buffer(make([]byte, 1<<20), 1<<28)
	w := bufio.NewWriter(os.Stdout)
	for sc.Scan() {
		ans := execC14InProc(func(class, what string) {
			fmt.Fprintf(w, "V\t%s\t%s\n", class, strings.ReplaceAll(what, "\n", " "))
		}, strings.Fields(sc.Text()))
		fmt.Fprintf(w, "A\t%s\n", ans)
		w.Flush()
	}
}

const c14Missing = "nope"

func execC14InProc(violation func(class, what string), tok []string) string {
	var maxGet int
	var opsTok string
	switch {
	case len(tok) == 6 && tok[0] == "cb.hist":
		opsTok = tok[5]
	case len(tok) == 7 && tok[0] == "cb.mix":
		var err error
		if maxGet, err = strconv.Atoi(tok[5]); err != nil || maxGet < 0 {
			return "bad-op"
		}
		opsTok = tok[6]
	default:
		return "bad-op"
	}
	obj, err := hlib.UnHex(tok[1])
	S, err1 := strconv.ParseInt(tok[2], 10, 64)
	maxSub, err2 := strconv.Atoi(tok[3])
	p, err3 := strconv.Atoi(tok[4])
	if err != nil || err1 != nil || err2 != nil || err3 != nil || S <= 0 || p <= 0 || maxSub < 0 {
		return "bad-op"
	}
	var ops []c14Op
	for _, s := range strings.Split(opsTok, ";") {
		op, ok := parseC14Op(s)
		if !ok {
			return "bad-op"
		}
		ops = append(ops, op)
	}
	ctx := context.Background()
	inmem := objstore.NewInMemBucket()
	if err := inmem.Upload(ctx, c14Obj, bytes.NewReader(obj)); err != nil {
		return "bad-op"
	}
	if err := inmem.Upload(ctx, "zdir/file", bytes.NewReader([]byte("x"))); err != nil {
		return "bad-op"
	}
	lb := &logBucket{InMemBucket: inmem}
	lc := &lossyCache{data: map[string][]byte{}}
	all := func(string) bool { return true }
	cfg := thanoscache.NewCachingBucketConfig()
	cfg.CacheGetRange("verif", lc, all, S, time.Hour, time.Hour, maxSub)
	cfg.CacheGet("verif", lc, all, maxGet, time.Hour, time.Hour, time.Hour)
	cfg.CacheExists("verif", lc, all, time.Hour, time.Hour)
	cfg.CacheAttributes("verif", lc, all, time.Hour)
	cfg.CacheIter("verif", lc, all, time.Hour, storecache.JSONIterCodec{}, "h")
	cb, err := storecache.NewCachingBucket(lb, cfg, log.NewNopLogger(), nil)
	if err != nil {
		return "bad-op"
	}
	size := int64(len(obj))
	var answers []string
	for _, op := range ops {
		lc.pats = append([]string(nil), op.pats...)
		lc.stores = nil
		lb.calls = nil
		if op.kind != 'r' {
			answers = append(answers, c14Verb(violation, ctx, cb, inmem, lb, op, obj, p))
			c14CheckCache(violation, lc, obj)
			continue
		}
		out, perr := func() (out string, perr any) {
			defer func() {
				if r := recover(); r != nil {
					out, perr = "panic", r
				}
			}()
			r, err := cb.GetRange(ctx, c14Obj, op.off, op.length)
			if err != nil {
				return "err", err
			}
			defer r.Close()
			b, err := readAllP(r, p, int(op.length)+10)
			if err != nil {
				return "err", err
			}
			return hlib.Hex(b), nil
		}()
		// the wrapped bucket's own answer
		want := "err"
		if r, err := inmem.GetRange(ctx, c14Obj, op.off, op.length); err == nil {
			b, _ := io.ReadAll(r)
			want = hlib.Hex(b)
		}
		if out != want {
			class := "getrange-not-transparent"
			switch {
			case out == "panic" && op.off > size:
				class = "getrange-panic-offset-beyond-object"
			case out == "panic":
				class = "getrange-panic"
			case out == "err":
				class = "getrange-error"
			}
			violation(class, fmt.Sprintf("GetRange(off=%d, len=%d) on a %d-byte object, subrange size %d: caching bucket %s (%v), wrapped bucket %s",
				op.off, op.length, size, S, short(out), perr, short(want)))
		}
		c14CheckCache(violation, lc, obj)
		attr, reads := "-", []string{}
		type pr struct{ a, b int64 }
		var rs []pr
		for _, cl := range lb.calls {
			if cl == "A" {
				attr = "A"
			} else {
				var a, b int64
				fmt.Sscanf(cl, "R%d+%d", &a, &b)
				rs = append(rs, pr{a, b})
			}
		}
		sort.Slice(rs, func(i, j int) bool { return rs[i].a < rs[j].a || (rs[i].a == rs[j].a && rs[i].b < rs[j].b) })
		for _, x := range rs {
			reads = append(reads, fmt.Sprintf("%d+%d", x.a, x.b))
		}
		var ss []pr
		for _, k := range lc.stores {
			if a, b, ok := subrangeKey(k); ok {
				ss = append(ss, pr{a, b})
			}
		}
		sort.Slice(ss, func(i, j int) bool { return ss[i].a < ss[j].a || (ss[i].a == ss[j].a && ss[i].b < ss[j].b) })
		stores := []string{}
		for _, x := range ss {
			stores = append(stores, fmt.Sprintf("%d-%d", x.a, x.b))
		}
		if out == "panic" || out == "err" {
			// what the goroutines did before the failure is scheduling dependent
			reads, stores = nil, nil
		}
		answers = append(answers, fmt.Sprintf("%s/%s/%s/%s", out, attr, hlib.Join(reads, ","), hlib.Join(stores, ",")))
	}
	return strings.Join(answers, ";")
}

// c14CheckCache: the cache holds only what the wrapped bucket says, under exact keys.
func c14CheckCache(violation func(class, what string), lc *lossyCache, obj []byte) {
	size := int64(len(obj))
	for k, v := range lc.data {
		switch {
		case strings.HasPrefix(k, "subrange:"):
			if a, b, ok := subrangeKey(k); ok {
				if a < 0 || b > size || a >= b || !bytes.Equal(v, obj[a:b]) {
					violation("cache-poisoned", fmt.Sprintf("key %s holds %d bytes that are not obj[%d:%d]", k, len(v), a, b))
				}
			}
		case k == "content:"+c14Obj:
			if !bytes.Equal(v, obj) {
				violation("cache-poisoned", fmt.Sprintf("key %s holds %d bytes, the object has %d", k, len(v), len(obj)))
			}
		case k == "exists:"+c14Obj && string(v) != "true", k == "exists:"+c14Missing && string(v) != "false", k == "content:"+c14Missing:
			violation("cache-poisoned", fmt.Sprintf("key %s = %q", k, v))
		}
	}
}

// c14Verb runs one non-range op on the caching bucket and on the wrapped bucket and compares.
func c14Verb(violation func(class, what string), ctx context.Context, cb *storecache.CachingBucket, inmem *objstore.InMemBucket, lb *logBucket, op c14Op, obj []byte, p int) string {
	name := c14Obj
	if op.kind == 'G' || op.kind == 'E' || op.kind == 'A' {
		name = c14Missing
	}
	consume := func(r io.ReadCloser) (string, error) {
		defer r.Close()
		switch {
		case op.mode == "f":
			b, err := readAllP(r, p, len(obj)+10)
			return hlib.Hex(b), err
		case op.mode == "x":
			b := make([]byte, len(obj))
			_, err := io.ReadFull(r, b)
			return hlib.Hex(b), err
		default:
			n, _ := strconv.Atoi(op.mode[1:])
			if n > len(obj) {
				n = len(obj)
			}
			b := make([]byte, n)
			_, err := io.ReadFull(r, b)
			return hlib.Hex(b), err
		}
	}
	run := func(b objstore.Bucket, isNotFound func(error) bool) (ans string) {
		defer func() {
			if r := recover(); r != nil {
				ans = "panic"
			}
		}()
		switch op.kind {
		case 'g', 'G':
			r, err := b.Get(ctx, name)
			if err != nil {
				if isNotFound(err) {
					return "notfound"
				}
				return "err"
			}
			s, err := consume(r)
			if err != nil {
				return "err"
			}
			return s
		case 'e', 'E':
			ok, err := b.Exists(ctx, name)
			if err != nil {
				return "err"
			}
			return strconv.FormatBool(ok)
		case 'a', 'A':
			at, err := b.Attributes(ctx, name)
			if err != nil {
				if isNotFound(err) {
					return "notfound"
				}
				return "err"
			}
			return fmt.Sprintf("size:%d@%d", at.Size, at.LastModified.UnixNano())
		default:
			var names []string
			if err := b.Iter(ctx, "", func(n string) error { names = append(names, n); return nil }); err != nil {
				return "err"
			}
			return "names:" + strings.Join(names, ",")
		}
	}
	got := run(cb, cb.IsObjNotFoundErr)
	calls := append([]string(nil), lb.calls...)
	want := run(inmem, inmem.IsObjNotFoundErr)
	if got != want {
		violation(map[byte]string{'g': "get", 'G': "get", 'e': "exists", 'E': "exists", 'a': "attributes", 'A': "attributes", 'i': "iter"}[op.kind]+"-not-transparent",
			fmt.Sprintf("%c on %q: caching bucket %s, wrapped bucket %s", op.kind, name, short(got), short(want)))
	}
	// canonical: the modification time is compared above, not printed
	if i := strings.Index(got, "@"); i > 0 && strings.HasPrefix(got, "size:") {
		got = got[:i]
	}
	for i, c := range calls {
		if c == "A" {
			calls[i] = "Attributes"
		}
	}
	return got + "/" + hlib.Join(calls, "+")
}

func short(s string) string {
	if len(s) > 40 {
		return s[:40] + "…"
	}
	return s
}

// ---------------------------------------------------------------- generator

func genPat(c *hlib.Ctx) string {
	r := c.R
	switch r.Intn(5) {
	case 0, 1:
		return "0" // cooperative cache
	case 2:
		return "1" // everything misses
	}
	n := r.Range(1, 6)
	b := make([]byte, n)
	for i := range b {
		b[i] = "0001112"[r.Intn(7)]
	}
	return string(b)
}

func genC14(c *hlib.Ctx) {
	r := c.R
	rounds := c.N(400, 12000)
	for round := 0; round < rounds; round++ {
		S := []int{1, 2, 3, 7, 16, 16, 4096}[r.Intn(7)]
		size := r.Intn(5*S + 4)
		if S == 4096 {
			size = []int{0, 1, 4095, 4096, 4097, 3 * 4096, 3*4096 + 17, r.Intn(5*4096 + 4)}[r.Intn(8)]
		}
		if r.Chance(1, 25) {
			size = 0
		}
		obj := r.Bytes(size)
		maxSub := []int{0, 0, 1, 2, 3}[r.Intn(5)]
		p := []int{1, 3, 7, 512, 100000}[r.Intn(5)]
		nops := r.Range(1, 30)
		if S == 4096 {
			nops = r.Range(1, 6)
		}
		c.Count(fmt.Sprintf("S:%d", S))
		c.Count(fmt.Sprintf("maxSub:%d", maxSub))
		var ops []string
		for i := 0; i < nops; i++ {
			var off, length int
			switch r.Intn(8) {
			case 0: // aligned
				off = S * r.Intn(size/S+2)
			case 1: // just before / after a boundary
				off = S*r.Intn(size/S+2) + []int{-1, 1}[r.Intn(2)]
			case 2:
				off = size - r.Intn(3)
			default:
				off = r.Intn(size + 1)
			}
			if off < 0 {
				off = 0
			}
			switch r.Intn(6) {
			case 0:
				length = 1
			case 1:
				length = size - off // to the end
			case 2:
				length = size + S + r.Intn(10) // beyond the end
			case 3:
				length = S * r.Range(1, 4)
			default:
				length = r.Range(1, size+1)
			}
			if length <= 0 {
				length = 1
			}
			// malformed stream: offsets beyond the object
			if r.Chance(1, 12) {
				off = size + r.Intn(3*S+2)
				c.Count("read:offset-at-or-beyond-size")
				if off > size {
					c.Count("read:offset-beyond-size")
				}
			}
			switch {
			case off+length > size:
				c.Count("read:beyond-end")
			case off+length == size:
				c.Count("read:to-end")
			default:
				c.Count("read:inside")
			}
			ap, sp := genPat(c), genPat(c)
			if sp == "0" {
				c.Count("cache:cooperative")
			} else {
				c.Count("cache:lossy")
			}
			ops = append(ops, fmt.Sprintf("r%d,%d,%s,%s", off, length, ap, sp))
		}
		c.Count(fmt.Sprintf("history-len:%s", bucket(nops)))
		c.Do(fmt.Sprintf("cb.hist %s %d %d %d %s", hlib.Hex(obj), S, maxSub, p, strings.Join(ops, ";")), true)
	}
	// every verb: Get (whole / partial / exact reads, size limit), Exists, Attributes, Iter, range
	// reads, on a present and on an absent object
	pat := func(n int) string {
		b := make([]byte, n)
		for i := range b {
			b[i] = "0000112"[r.Intn(7)]
		}
		return string(b)
	}
	for round := 0; round < c.N(300, 8000); round++ {
		S := []int{1, 3, 16}[r.Intn(3)]
		size := r.Intn(4*S + 3)
		if r.Chance(1, 10) {
			size = 0
		}
		obj := r.Bytes(size)
		maxGet := []int{0, size - 1, size, size + 1, 1000}[r.Intn(5)]
		if maxGet < 0 {
			maxGet = 0
		}
		switch {
		case maxGet < size:
			c.Count("mix:object-larger-than-MaxCacheableSize")
		default:
			c.Count("mix:object-cacheable")
		}
		p := []int{1, 3, 512}[r.Intn(3)]
		nops := r.Range(2, 25)
		var ops []string
		for i := 0; i < nops; i++ {
			var op string
			switch r.Intn(12) {
			case 0, 1:
				op = "gf," + pat(2)
				c.Count("mix:get-full")
			case 2:
				op = fmt.Sprintf("gh%d,%s", r.Intn(size+1), pat(2))
				c.Count("mix:get-partial")
			case 3:
				op = "gx," + pat(2)
				c.Count("mix:get-exact-no-eof")
			case 4:
				op = "G" + pat(2)
				c.Count("mix:get-absent")
			case 5:
				op = "e" + pat(1)
			case 6:
				op = "E" + pat(1)
				c.Count("mix:exists-absent")
			case 7:
				op = "a" + pat(1)
			case 8:
				op = "A" + pat(1)
			case 9:
				op = "i" + pat(1)
				c.Count("mix:iter")
			default:
				off := r.Intn(size + 2)
				op = fmt.Sprintf("r%d,%d,%s,%s", off, r.Range(1, size+2), pat(1), genPat(c))
				c.Count("mix:getrange")
			}
			ops = append(ops, op)
		}
		c.Do(fmt.Sprintf("cb.mix %s %d %d %d %d %s", hlib.Hex(obj), S, r.Intn(3), p, maxGet, strings.Join(ops, ";")), true)
	}
}
