package main

import (
	"bufio"
	"bytes"
	"context"
	"fmt"
	"io"
	"os"
	"os/exec"
	"sort"
	"strconv"
	"strings"
	"sync"
	"time"

	"github.com/go-kit/log"
	"github.com/thanos-io/objstore"

	thanoscache "github.com/thanos-io/thanos/pkg/cache"
	storecache "github.com/thanos-io/thanos/pkg/store/cache"
	"github.com/thanos-io/thanos/verifharness/hlib"
)

// C14 — caching bucket is transparent for immutable objects.
//
// grammar (see also lean/Thanos/Driver/Index.lean)
//   cb.hist <object hex> <S> <maxSub> <p> <op>(;<op>)*
//       one object in the wrapped in-memory bucket, a caching bucket with subrange size S and
//       MaxSubRequests maxSub in front of it, a history of reads; p = buffer size of the Read calls
//   op  := r<off>,<len>,<attrpat>,<subpat>     GetRange(off, len), read to EOF
//   pat := [012]+   how the lossy cache treats the i-th key of a Fetch call (cyclic):
//                   0 = return it if stored, 1 = miss this time, 2 = evict (miss and forget)
//   answer: one item per op, joined by ';':
//       <bytes hex | panic | err>/<A if the wrapped bucket's Attributes was called, else ->/
//       <GetRange calls on the wrapped bucket: start+len,…>/<stored subrange keys: start-end,…>

func init() {
	props = append(props, &hlib.Prop{ID: "C14", Gen: genC14, Exec: execC14})
}

const c14Obj = "obj"

// logBucket records the calls that reach the wrapped bucket.
type logBucket struct {
	*objstore.InMemBucket
	mu    sync.Mutex
	calls []string // "A", "R<start>+<len>"
}

func (b *logBucket) log(s string) {
	b.mu.Lock()
	b.calls = append(b.calls, s)
	b.mu.Unlock()
}

func (b *logBucket) GetRange(ctx context.Context, name string, off, length int64) (io.ReadCloser, error) {
	b.log(fmt.Sprintf("R%d+%d", off, length))
	return b.InMemBucket.GetRange(ctx, name, off, length)
}

func (b *logBucket) Attributes(ctx context.Context, name string) (objstore.ObjectAttributes, error) {
	b.log("A")
	return b.InMemBucket.Attributes(ctx, name)
}

// lossyCache keeps everything that is stored, but each Fetch call is told by a pattern which of
// the requested keys it may return (0), must miss (1) or must forget (2).
type lossyCache struct {
	mu     sync.Mutex
	data   map[string][]byte
	pats   []string // one pattern per upcoming Fetch call
	stores []string // keys stored since the last reset
}

func (c *lossyCache) Name() string { return "lossy" }

func (c *lossyCache) Store(data map[string][]byte, _ time.Duration) {
	c.mu.Lock()
	defer c.mu.Unlock()
	for k, v := range data {
		c.data[k] = append([]byte(nil), v...)
		c.stores = append(c.stores, k)
	}
}

func (c *lossyCache) Fetch(_ context.Context, keys []string) map[string][]byte {
	c.mu.Lock()
	defer c.mu.Unlock()
	pat := "0"
	if len(c.pats) > 0 {
		pat, c.pats = c.pats[0], c.pats[1:]
	}
	out := map[string][]byte{}
	for i, k := range keys {
		switch pat[i%len(pat)] {
		case '0':
			if v, ok := c.data[k]; ok {
				out[k] = append([]byte(nil), v...)
			}
		case '2':
			delete(c.data, k)
		}
	}
	return out
}

type c14Read struct {
	off, length     int64
	attrPat, subPat string
}

func parseC14Op(s string) (c14Read, bool) {
	if !strings.HasPrefix(s, "r") {
		return c14Read{}, false
	}
	p := strings.Split(s[1:], ",")
	if len(p) != 4 || p[2] == "" || p[3] == "" || strings.Trim(p[2], "012") != "" || strings.Trim(p[3], "012") != "" {
		return c14Read{}, false
	}
	o, err1 := strconv.ParseInt(p[0], 10, 64)
	l, err2 := strconv.ParseInt(p[1], 10, 64)
	if err1 != nil || err2 != nil || o < 0 || l <= 0 {
		return c14Read{}, false
	}
	return c14Read{o, l, p[2], p[3]}, true
}

// readAllP reads r to EOF with a buffer of p bytes.
func readAllP(r io.Reader, p int, limit int) ([]byte, error) {
	var out []byte
	buf := make([]byte, p)
	for i := 0; i < limit; i++ {
		n, err := r.Read(buf)
		out = append(out, buf[:n]...)
		if err == io.EOF {
			return out, nil
		}
		if err != nil {
			return out, err
		}
	}
	return out, fmt.Errorf("reader does not end")
}

// subrangeKey parses "subrange:<name>:<start>:<end>".
func subrangeKey(k string) (int64, int64, bool) {
	p := strings.Split(k, ":")
	if len(p) != 4 || p[0] != "subrange" || p[1] != c14Obj {
		return 0, 0, false
	}
	a, err1 := strconv.ParseInt(p[2], 10, 64)
	b, err2 := strconv.ParseInt(p[3], 10, 64)
	return a, b, err1 == nil && err2 == nil
}

// execC14 runs a history in this process, or — in isolate mode (see main.go) — in a worker
// process, so that a panic inside one of the caching bucket's own goroutines is attributed to the
// history that caused it (the worker is restarted after a crash).
func execC14(c *hlib.Ctx, tok []string) string {
	if os.Getenv("VERIF_INDEX_ISOLATE") == "" {
		return execC14InProc(c.Violation, tok)
	}
	if c14w == nil {
		w := &c14Worker{}
		w.cmd = exec.Command(os.Args[0], "c14child")
		w.cmd.Stderr = &w.stderr
		in, err1 := w.cmd.StdinPipe()
		out, err2 := w.cmd.StdoutPipe()
		if err1 != nil || err2 != nil || w.cmd.Start() != nil {
			return "err:worker"
		}
		w.in, w.out = in, bufio.NewReaderSize(out, 1<<20)
		c14w = w
	}
	w := c14w
	fmt.Fprintln(w.in, strings.Join(tok, " "))
	for {
		l, err := w.out.ReadString('\n')
		l = strings.TrimRight(l, "\n")
		switch {
		case strings.HasPrefix(l, "V\t"):
			if p := strings.SplitN(l, "\t", 3); len(p) == 3 {
				c.Violation(p[1], p[2])
			}
		case strings.HasPrefix(l, "A\t"):
			return strings.TrimPrefix(l, "A\t")
		}
		if err != nil {
			_ = w.cmd.Wait()
			first := strings.SplitN(strings.TrimSpace(w.stderr.String()), "\n", 2)[0]
			c14w = nil
			c.Violation("getrange-crash", "the process died while serving this history: "+short(first))
			return "crash"
		}
	}
}

type c14Worker struct {
	cmd    *exec.Cmd
	in     io.WriteCloser
	out    *bufio.Reader
	stderr bytes.Buffer
}

var c14w *c14Worker

// c14Child is the worker: it executes history lines from stdin and prints, for each, its
// violations and its answer.
func c14Child(_ []string) {
	sc := bufio.NewScanner(os.Stdin)
	sc.Buffer(make([]byte, 1<<20), 1<<28)
	w := bufio.NewWriter(os.Stdout)
	for sc.Scan() {
		ans := execC14InProc(func(class, what string) {
			fmt.Fprintf(w, "V\t%s\t%s\n", class, strings.ReplaceAll(what, "\n", " "))
		}, strings.Fields(sc.Text()))
		fmt.Fprintf(w, "A\t%s\n", ans)
		w.Flush()
	}
}

func execC14InProc(violation func(class, what string), tok []string) string {
	if len(tok) != 6 || tok[0] != "cb.hist" {
		return "bad-op"
	}
	obj, err := hlib.UnHex(tok[1])
	S, err1 := strconv.ParseInt(tok[2], 10, 64)
	maxSub, err2 := strconv.Atoi(tok[3])
	p, err3 := strconv.Atoi(tok[4])
	if err != nil || err1 != nil || err2 != nil || err3 != nil || S <= 0 || p <= 0 || maxSub < 0 {
		return "bad-op"
	}
	var ops []c14Read
	for _, s := range strings.Split(tok[5], ";") {
		op, ok := parseC14Op(s)
		if !ok {
			return "bad-op"
		}
		ops = append(ops, op)
	}
	ctx := context.Background()
	inmem := objstore.NewInMemBucket()
	if err := inmem.Upload(ctx, c14Obj, bytes.NewReader(obj)); err != nil {
		return "bad-op"
	}
	lb := &logBucket{InMemBucket: inmem}
	lc := &lossyCache{data: map[string][]byte{}}
	cfg := thanoscache.NewCachingBucketConfig()
	cfg.CacheGetRange("verif", lc, func(string) bool { return true }, S, time.Hour, time.Hour, maxSub)
	cb, err := storecache.NewCachingBucket(lb, cfg, log.NewNopLogger(), nil)
	if err != nil {
		return "bad-op"
	}
	size := int64(len(obj))
	var answers []string
	for _, op := range ops {
		lc.pats = []string{op.attrPat, op.subPat}
		lc.stores = nil
		lb.calls = nil
		out, perr := func() (out string, perr any) {
			defer func() {
				if r := recover(); r != nil {
					out, perr = "panic", r
				}
			}()
			r, err := cb.GetRange(ctx, c14Obj, op.off, op.length)
			if err != nil {
				return "err", err
			}
			defer r.Close()
			b, err := readAllP(r, p, int(op.length)+10)
			if err != nil {
				return "err", err
			}
			return hlib.Hex(b), nil
		}()
		// the wrapped bucket's own answer
		want := "err"
		if r, err := inmem.GetRange(ctx, c14Obj, op.off, op.length); err == nil {
			b, _ := io.ReadAll(r)
			want = hlib.Hex(b)
		}
		if out != want {
			class := "getrange-not-transparent"
			switch {
			case out == "panic" && op.off > size:
				class = "getrange-panic-offset-beyond-object"
			case out == "panic":
				class = "getrange-panic"
			case out == "err":
				class = "getrange-error"
			}
			violation(class, fmt.Sprintf("GetRange(off=%d, len=%d) on a %d-byte object, subrange size %d: caching bucket %s (%v), wrapped bucket %s",
				op.off, op.length, size, S, short(out), perr, short(want)))
		}
		// the cache holds only true slices of the object, under their exact keys
		for k, v := range lc.data {
			if a, b, ok := subrangeKey(k); ok {
				if a < 0 || b > size || a >= b || !bytes.Equal(v, obj[a:b]) {
					violation("cache-poisoned", fmt.Sprintf("key %s holds %d bytes that are not obj[%d:%d]", k, len(v), a, b))
				}
			}
		}
		attr, reads := "-", []string{}
		type pr struct{ a, b int64 }
		var rs []pr
		for _, cl := range lb.calls {
			if cl == "A" {
				attr = "A"
			} else {
				var a, b int64
				fmt.Sscanf(cl, "R%d+%d", &a, &b)
				rs = append(rs, pr{a, b})
			}
		}
		sort.Slice(rs, func(i, j int) bool { return rs[i].a < rs[j].a || (rs[i].a == rs[j].a && rs[i].b < rs[j].b) })
		for _, x := range rs {
			reads = append(reads, fmt.Sprintf("%d+%d", x.a, x.b))
		}
		var ss []pr
		for _, k := range lc.stores {
			if a, b, ok := subrangeKey(k); ok {
				ss = append(ss, pr{a, b})
			}
		}
		sort.Slice(ss, func(i, j int) bool { return ss[i].a < ss[j].a || (ss[i].a == ss[j].a && ss[i].b < ss[j].b) })
		stores := []string{}
		for _, x := range ss {
			stores = append(stores, fmt.Sprintf("%d-%d", x.a, x.b))
		}
		if out == "panic" || out == "err" {
			// what the goroutines did before the failure is scheduling dependent
			reads, stores = nil, nil
		}
		answers = append(answers, fmt.Sprintf("%s/%s/%s/%s", out, attr, hlib.Join(reads, ","), hlib.Join(stores, ",")))
	}
	return strings.Join(answers, ";")
}

func short(s string) string {
	if len(s) > 40 {
		return s[:40] + "…"
	}
	return s
}

// ---------------------------------------------------------------- generator

func genPat(c *hlib.Ctx) string {
	r := c.R
	switch r.Intn(5) {
	case 0, 1:
		return "0" // cooperative cache
	case 2:
		return "1" // everything misses
	}
	n := r.Range(1, 6)
	b := make([]byte, n)
	for i := range b {
		b[i] = "0001112"[r.Intn(7)]
	}
	return string(b)
}

func genC14(c *hlib.Ctx) {
	r := c.R
	rounds := c.N(400, 12000)
	for round := 0; round < rounds; round++ {
		S := []int{1, 2, 3, 7, 16, 16, 4096}[r.Intn(7)]
		size := r.Intn(5*S + 4)
		if S == 4096 {
			size = []int{0, 1, 4095, 4096, 4097, 3 * 4096, 3*4096 + 17, r.Intn(5*4096 + 4)}[r.Intn(8)]
		}
		if r.Chance(1, 25) {
			size = 0
		}
		obj := r.Bytes(size)
		maxSub := []int{0, 0, 1, 2, 3}[r.Intn(5)]
		p := []int{1, 3, 7, 512, 100000}[r.Intn(5)]
		nops := r.Range(1, 30)
		if S == 4096 {
			nops = r.Range(1, 6)
		}
		c.Count(fmt.Sprintf("S:%d", S))
		c.Count(fmt.Sprintf("maxSub:%d", maxSub))
		var ops []string
		for i := 0; i < nops; i++ {
			var off, length int
			switch r.Intn(8) {
			case 0: // aligned
				off = S * r.Intn(size/S+2)
			case 1: // just before / after a boundary
				off = S*r.Intn(size/S+2) + []int{-1, 1}[r.Intn(2)]
			case 2:
				off = size - r.Intn(3)
			default:
				off = r.Intn(size + 1)
			}
			if off < 0 {
				off = 0
			}
			switch r.Intn(6) {
			case 0:
				length = 1
			case 1:
				length = size - off // to the end
			case 2:
				length = size + S + r.Intn(10) // beyond the end
			case 3:
				length = S * r.Range(1, 4)
			default:
				length = r.Range(1, size+1)
			}
			if length <= 0 {
				length = 1
			}
			// malformed stream: offsets beyond the object
			if r.Chance(1, 12) {
				off = size + r.Intn(3*S+2)
				c.Count("read:offset-at-or-beyond-size")
				if off > size {
					c.Count("read:offset-beyond-size")
				}
			}
			switch {
			case off+length > size:
				c.Count("read:beyond-end")
			case off+length == size:
				c.Count("read:to-end")
			default:
				c.Count("read:inside")
			}
			ap, sp := genPat(c), genPat(c)
			if sp == "0" {
				c.Count("cache:cooperative")
			} else {
				c.Count("cache:lossy")
			}
			ops = append(ops, fmt.Sprintf("r%d,%d,%s,%s", off, length, ap, sp))
		}
		c.Count(fmt.Sprintf("history-len:%s", bucket(nops)))
		c.Do(fmt.Sprintf("cb.hist %s %d %d %d %s", hlib.Hex(obj), S, maxSub, p, strings.Join(ops, ";")), true)
	}
}
