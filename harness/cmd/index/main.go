// Family binary "index": C11 C12 C13 C14 C16.
package main

import "github.com/thanos-io/thanos/verifharness/hlib"

var props []*hlib.Prop

func main() { hlib.Main(props) }
