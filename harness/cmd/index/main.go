// Family binary "index": C11 C12 C13 C14 C16.
package main

import (
	"os"
	"os/exec"

	"github.com/thanos-io/thanos/verifharness/hlib"
)

var props []*hlib.Prop

// The real code runs goroutines of its own (errgroup in fetchMissingSubranges, the lazy reader
// stress): a panic or fault there kills the process and cannot be recovered per op.  So the
// harness supervises itself: `run`/`exec` are executed in a child process; if the child dies, they
// are executed once more in "isolate" mode, where every crash-prone op runs in a process of its
// own and a crash becomes an ordinary oracle violation with the op line as failing input.
func main() {
	if len(os.Args) > 1 {
		switch os.Args[1] {
		case "c16child":
			c16Child(os.Args[2:])
			return
		case "c14child":
			c14Child(os.Args[2:])
			return
		case "run", "exec":
			if os.Getenv("VERIF_INDEX_CHILD") == "" {
				os.Exit(supervise())
			}
		}
	}
	hlib.Main(props)
}

func supervise() int {
	runChild := func(extra ...string) int {
		cmd := exec.Command(os.Args[0], os.Args[1:]...)
		cmd.Env = append(append(os.Environ(), "VERIF_INDEX_CHILD=1"), extra...)
		cmd.Stdout, cmd.Stderr = os.Stdout, os.Stderr
		if err := cmd.Run(); err != nil {
			if ee, ok := err.(*exec.ExitError); ok && ee.ExitCode() > 0 {
				return ee.ExitCode()
			}
			return 1
		}
		return 0
	}
	rc := runChild()
	if rc == 0 {
		return rc
	}
	// (a Go panic exits with status 2, as hlib's usage errors do: a second attempt costs nothing)
	return runChild("VERIF_INDEX_ISOLATE=1")
}
