// Family binary "index": C11 C12 C13 C14 C16.
package main

import (
	"os"

	"github.com/thanos-io/thanos/verifharness/hlib"
)

var props []*hlib.Prop

func main() {
	// the C16 stress run executes in a child process of this binary (a use of an unmapped
	// index-header would kill the process)
	if len(os.Args) > 1 && os.Args[1] == "c16child" {
		c16Child(os.Args[2:])
		return
	}
	hlib.Main(props)
}
