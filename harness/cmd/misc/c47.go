package main

import (
	"bytes"
	"compress/gzip"
	"context"
	"fmt"
	"net"
	"net/http"
	"net/url"
	"os"
	"path/filepath"
	"sort"
	"strconv"
	"strings"
	"sync"
	"time"

	"github.com/thanos-io/thanos/pkg/reloader"
	"github.com/thanos-io/thanos/verifharness/hlib"
)

// C47 — the config reloader applies the latest configuration.
//
// ops (grammar also at the top of lean/Thanos/Driver/Misc.lean):
//   rl.expand <tol> <env> <hextext>                     -> ok <hex> | unset <hexname>      (Reloader.expandEnv via hook)
//   rl.run <conf> <step>{|<step>}                       -> <answer>{|<answer>}             (a history of Reloader.apply calls via hook)
//   o.rl.watch <edits> <seed>                           -> ok | <class>                    (the real Watch loop, oracle only)
//     conf   = hasCfg.hasOut.tolerate.watchZero.nDirs.hasWatched
//     step   = cfg~dirs~watched~env~script
//     cfg    = x (missing) | file          dirs = dir{/dir} | -      dir = file{,file} | e (empty dir)
//     watched = file{,file} | -            file = hexname:hexraw:plain
//     plain  = "=" (not gzipped) | ! (broken gzip stream) | hextext (what gunzip gives; re-checked here)
//              | @ (a dangling symlink, raw "-": os.Stat fails on it; config and watched directories only)
//     env    = hexname=hexvalue{,…} | -    script = a word of 1/0: the reload endpoint's answers, in order; the
//              context of the apply is cancelled when the last scripted answer is a failure
//     answer = res;outs      res = ok<requests> | err:missing | err:gzip | err:stat | err:env:<hexname>
//     outs   = path=hexcontent{,…} sorted by path | -     path = out | <dir index>/<hexname>
//
// Oracle (independent of the model; own bookkeeping of "content at the last successful reload"):
//   after an apply without error every output equals the input with variables substituted (own scanner),
//   output directories hold exactly the current inputs (class stale-output), the endpoint was called iff
//   the content differs from the last successful reload or the previous reload failed (classes
//   missed-reload / spurious-reload), and a failed reload is retried by the next apply.

func init() {
	props = append(props, &hlib.Prop{ID: "C47", Gen: genC47, Exec: execC47})
}

// ---------------------------------------------------------------- reload endpoint (one per process)

type c47Endpoint struct {
	mu       sync.Mutex
	script   []bool
	requests int
	cancel   context.CancelFunc
	url      *url.URL
}

var c47Srv *c47Endpoint

func c47Server() *c47Endpoint {
	if c47Srv != nil {
		return c47Srv
	}
	l, err := net.Listen("tcp", "127.0.0.1:0")
	if err != nil {
		panic(err)
	}
	e := &c47Endpoint{}
	e.url, _ = url.Parse("http://" + l.Addr().String() + "/-/reload")
	go func() {
		_ = http.Serve(l, http.HandlerFunc(func(w http.ResponseWriter, _ *http.Request) {
			e.mu.Lock()
			defer e.mu.Unlock()
			i := e.requests
			e.requests++
			ok := i < len(e.script) && e.script[i]
			if !ok && i >= len(e.script)-1 && e.cancel != nil {
				e.cancel() // the watch interval is over: no further retry
			}
			if ok {
				w.WriteHeader(http.StatusOK)
			} else {
				w.WriteHeader(http.StatusServiceUnavailable)
			}
		}))
	}()
	c47Srv = e
	return e
}

// ---------------------------------------------------------------- op parsing

type c47File struct {
	name     string
	raw      []byte
	plain    *string // nil: broken gzip
	dangling bool    // a symlink whose target does not exist
}

func gunzipAll(b []byte) (string, bool) {
	zr, err := gzip.NewReader(bytes.NewReader(b))
	if err != nil {
		return "", false
	}
	var out bytes.Buffer
	if _, err := out.ReadFrom(zr); err != nil {
		return "", false
	}
	return out.String(), true
}

func c47ParseFile(s string) (c47File, bool) {
	p := strings.Split(s, ":")
	if len(p) != 3 {
		return c47File{}, false
	}
	n, e1 := hlib.UnHex(p[0])
	raw, e2 := hlib.UnHex(p[1])
	if e1 != nil || e2 != nil || len(n) == 0 {
		return c47File{}, false
	}
	f := c47File{name: string(n), raw: raw}
	if p[2] == "@" {
		f.dangling = true
		return f, len(raw) == 0
	}
	isGz := len(raw) >= 3 && raw[0] == 0x1f && raw[1] == 0x8b && raw[2] == 0x08
	switch p[2] {
	case "=":
		if isGz {
			return f, false
		}
		t := string(raw)
		f.plain = &t
	case "!":
		if _, ok := gunzipAll(raw); !isGz || ok {
			return f, false
		}
	default:
		t, err := hlib.UnHex(p[2])
		got, ok := gunzipAll(raw)
		if err != nil || !isGz || !ok || got != string(t) {
			return f, false
		}
		ts := string(t)
		f.plain = &ts
	}
	return f, true
}

func c47ParseFiles(s, sep string) ([]c47File, bool) {
	var out []c47File
	for _, t := range hlib.Split(s, sep) {
		f, ok := c47ParseFile(t)
		if !ok {
			return nil, false
		}
		if len(out) > 0 && out[len(out)-1].name >= f.name {
			return nil, false // files are listed in directory (name) order
		}
		out = append(out, f)
	}
	return out, true
}

type c47Step struct {
	cfg     *c47File
	dirs    [][]c47File
	watched []c47File
	env     map[string]string
	script  []bool
}

var c47EnvPool = []string{"VERIF_A", "VERIF_B", "VERIF_HOST", "verif_1", "_V9"}

// c47Expand is the oracle's own reading of `$(NAME)` substitution (a hand scanner, no regexp).
func c47Expand(s string, env map[string]string, tolerate bool) (string, string, bool) {
	var out strings.Builder
	isVar := func(c byte) bool {
		return c == '_' || (c >= '0' && c <= '9') || (c >= 'a' && c <= 'z') || (c >= 'A' && c <= 'Z')
	}
	for i := 0; i < len(s); {
		if s[i] == '$' && i+1 < len(s) && s[i+1] == '(' {
			j := i + 2
			for j < len(s) && isVar(s[j]) {
				j++
			}
			if j > i+2 && j < len(s) && s[j] == ')' {
				name := s[i+2 : j]
				v, ok := env[name]
				if ok {
					out.WriteString(v)
				} else if tolerate {
					out.WriteString(s[i : j+1])
				} else {
					return "", name, false
				}
				i = j + 1
				continue
			}
		}
		out.WriteByte(s[i])
		i++
	}
	return out.String(), "", true
}

func execC47(c *hlib.Ctx, tok []string) string {
	if len(tok) == 0 {
		return "bad-op"
	}
	switch tok[0] {
	case "rl.expand":
		return c47ExecExpand(c, tok)
	case "rl.run":
		return c47ExecRun(c, tok)
	case "o.rl.watch":
		return c47ExecWatch(c, tok)
	}
	return "bad-op"
}

// c47ExecWatch drives the real Watch loop (oracle only): o.rl.watch <edits> <seed>.
// A config file (with output file) and a watched directory with a sub-directory.  Edits of the
// config file reach the loop through fsnotify; edits of w/sub/x are invisible to fsnotify (it does
// not watch recursively) but are hashed by apply, so only the watch-interval tick can pick them
// up.  After every edit a reload request (and, for the config file, the new output) must follow.
func c47ExecWatch(c *hlib.Ctx, tok []string) string {
	if len(tok) != 3 {
		return "bad-op"
	}
	edits, e1 := strconv.Atoi(tok[1])
	seed, e2 := strconv.Atoi(tok[2])
	if e1 != nil || e2 != nil || edits < 1 || edits > 50 {
		return "bad-op"
	}
	rnd := hlib.NewRand(uint64(seed) + 77)
	root, err := os.MkdirTemp("", "verif-c47w-")
	if err != nil {
		return "bad-op"
	}
	defer os.RemoveAll(root)
	defer c47SetEnv(nil)
	c47SetEnv(map[string]string{"VERIF_A": "va"})
	cfg, out := filepath.Join(root, "cfg"), filepath.Join(root, "cfg.out")
	wdir := filepath.Join(root, "w")
	sub := filepath.Join(wdir, "sub")
	if os.MkdirAll(sub, 0o755) != nil || os.WriteFile(cfg, []byte("v0 $(VERIF_A)"), 0o644) != nil ||
		os.WriteFile(filepath.Join(sub, "x"), []byte("x0"), 0o644) != nil {
		return "bad-op"
	}
	srv := c47Server()
	srv.mu.Lock()
	srv.script, srv.requests, srv.cancel = make([]bool, 100000), 0, nil
	for i := range srv.script {
		srv.script[i] = true
	}
	srv.mu.Unlock()
	requests := func() int { srv.mu.Lock(); defer srv.mu.Unlock(); return srv.requests }
	interval := 150 * time.Millisecond
	r := reloader.New(nil, nil, &reloader.Options{ReloadURL: srv.url, CfgFile: cfg, CfgOutputFile: out,
		WatchedDirs: []string{wdir}, WatchInterval: interval, RetryInterval: 5 * time.Millisecond, DelayInterval: time.Millisecond})
	ctx, cancel := context.WithCancel(context.Background())
	done := make(chan error, 1)
	go func() { done <- r.Watch(ctx) }()
	waitFor := func(cond func() bool) bool {
		deadline := time.Now().Add(8 * time.Second)
		for !cond() {
			if time.Now().After(deadline) {
				return false
			}
			time.Sleep(2 * time.Millisecond)
		}
		return true
	}
	res := "ok"
	fail := func(class, what string) {
		c.Violation(class, what)
		res = class
	}
	if !waitFor(func() bool { return requests() >= 1 }) {
		fail("watch-initial-apply-missing", "Watch did not apply and reload the initial configuration")
	}
	for k := 1; k <= edits && res == "ok"; k++ {
		before := requests()
		if rnd.Bool() {
			want := fmt.Sprintf("v%d va", k)
			if os.WriteFile(cfg, []byte(fmt.Sprintf("v%d $(VERIF_A)", k)), 0o644) != nil {
				return "bad-op"
			}
			c.Count("watch:edit-config(fsnotify)")
			if !waitFor(func() bool { b, _ := os.ReadFile(out); return requests() > before && string(b) == want }) {
				fail("change-not-applied", fmt.Sprintf("edit %d of the config file was not followed by the new output and a reload", k))
			}
		} else {
			if os.WriteFile(filepath.Join(sub, "x"), []byte(fmt.Sprintf("x%d", k)), 0o644) != nil {
				return "bad-op"
			}
			c.Count("watch:edit-unwatched-subdir(tick)")
			if !waitFor(func() bool { return requests() > before }) {
				fail("change-not-applied", fmt.Sprintf("edit %d below a watched directory (no file-system event) was not followed by a reload", k))
			}
		}
	}
	// a broken configuration (unset variable: apply fails) must not end the loop: the next good one is applied
	if res == "ok" {
		before := requests()
		if os.WriteFile(cfg, []byte("bad $(VERIF_UNSET_VARIABLE)"), 0o644) != nil {
			return "bad-op"
		}
		time.Sleep(2 * interval)
		if os.WriteFile(cfg, []byte("good $(VERIF_A)"), 0o644) != nil {
			return "bad-op"
		}
		c.Count("watch:apply-error-then-fix")
		if !waitFor(func() bool { b, _ := os.ReadFile(out); return requests() > before && string(b) == "good va" }) {
			fail("change-not-applied", "after an apply error (unset variable) the corrected configuration was not applied")
		}
	}
	// quiescence: without changes the loop keeps applying on every tick but asks for no reload
	if res == "ok" {
		time.Sleep(interval) // let an apply that was running when the last edit landed finish
		before := requests()
		time.Sleep(3 * interval)
		if requests() != before {
			fail("spurious-reload", "reload requested although nothing changed")
		}
	}
	cancel()
	select {
	case <-done:
	case <-time.After(8 * time.Second):
		fail("watch-does-not-stop", "Watch did not return after its context was cancelled")
	}
	return res
}

func c47ParseEnv(s string) (map[string]string, bool) {
	env := map[string]string{}
	for _, t := range hlib.Split(s, ",") {
		p := strings.Split(t, "=")
		if len(p) != 2 {
			return nil, false
		}
		n, e1 := hlib.UnHex(p[0])
		v, e2 := hlib.UnHex(p[1])
		ok := false
		for _, x := range c47EnvPool {
			ok = ok || x == string(n)
		}
		if e1 != nil || e2 != nil || !ok {
			return nil, false
		}
		if _, dup := env[string(n)]; dup {
			return nil, false
		}
		env[string(n)] = string(v)
	}
	return env, true
}

func c47SetEnv(env map[string]string) {
	for _, n := range c47EnvPool {
		os.Unsetenv(n)
	}
	for n, v := range env {
		os.Setenv(n, v)
	}
}

func c47ExecExpand(c *hlib.Ctx, tok []string) string {
	if len(tok) != 4 || (tok[1] != "0" && tok[1] != "1") {
		return "bad-op"
	}
	env, ok := c47ParseEnv(tok[2])
	text, err := hlib.UnHex(tok[3])
	if !ok || err != nil {
		return "bad-op"
	}
	c47SetEnv(env)
	defer c47SetEnv(nil)
	r := reloader.New(nil, nil, &reloader.Options{ReloadURL: c47Server().url, TolerateEnvVarExpansionErrors: tok[1] == "1"})
	got, gerr := reloader.VerifExpandEnv(r, text)
	want, wname, wok := c47Expand(string(text), env, tok[1] == "1")
	if gerr != nil {
		msg := gerr.Error()
		i := strings.Index(msg, `"`)
		name := strings.Trim(msg[i:], `"`)
		if wok || wname != name {
			c.Violation("expand-differs", fmt.Sprintf("expandEnv fails on %q, expected %q/%v", name, want, wok))
		}
		return "unset " + hlib.HexS(name)
	}
	if !wok || want != string(got) {
		c.Violation("expand-differs", fmt.Sprintf("expandEnv gives %q, expected %q (ok=%v)", got, want, wok))
	}
	return "ok " + hlib.Hex(got)
}

type c47Content struct {
	cfg     string
	dirs    []map[string]string
	watched map[string]string
}

func (a *c47Content) equal(b *c47Content) bool {
	if a == nil || b == nil {
		return a == b
	}
	return fmt.Sprint(a.cfg, a.dirs, a.watched) == fmt.Sprint(b.cfg, b.dirs, b.watched)
}

func c47ExecRun(c *hlib.Ctx, tok []string) string {
	if len(tok) != 3 {
		return "bad-op"
	}
	cf := strings.Split(tok[1], ".")
	if len(cf) != 6 {
		return "bad-op"
	}
	bit := func(s string) (bool, bool) { return s == "1", s == "0" || s == "1" }
	hasCfg, ok1 := bit(cf[0])
	hasOut, ok2 := bit(cf[1])
	tolerate, ok3 := bit(cf[2])
	watchZero, ok4 := bit(cf[3])
	nDirs, err := strconv.Atoi(cf[4])
	hasWatched, ok5 := bit(cf[5])
	if !ok1 || !ok2 || !ok3 || !ok4 || !ok5 || err != nil || nDirs < 0 || nDirs > 4 {
		return "bad-op"
	}
	var steps []c47Step
	for _, ss := range strings.Split(tok[2], "|") {
		p := strings.Split(ss, "~")
		if len(p) != 5 {
			return "bad-op"
		}
		var st c47Step
		if p[0] != "x" {
			f, ok := c47ParseFile(p[0])
			if !ok || f.dangling {
				return "bad-op"
			}
			st.cfg = &f
		}
		if nDirs == 0 {
			if p[1] != "-" {
				return "bad-op"
			}
		} else {
			ds := strings.Split(p[1], "/")
			if len(ds) != nDirs {
				return "bad-op"
			}
			for _, d := range ds {
				if d == "e" {
					st.dirs = append(st.dirs, nil)
					continue
				}
				fs, ok := c47ParseFiles(d, ",")
				if !ok || len(fs) == 0 {
					return "bad-op"
				}
				st.dirs = append(st.dirs, fs)
			}
		}
		if hasWatched {
			fs, ok := c47ParseFiles(p[2], ",")
			if !ok {
				return "bad-op"
			}
			st.watched = fs
		} else if p[2] != "-" {
			return "bad-op"
		}
		env, ok := c47ParseEnv(p[3])
		if !ok || len(p[4]) == 0 {
			return "bad-op"
		}
		st.env = env
		for _, ch := range p[4] {
			if ch != '0' && ch != '1' {
				return "bad-op"
			}
			st.script = append(st.script, ch == '1')
		}
		steps = append(steps, st)
	}

	// ---- the real reloader on a scratch tree
	root, err := os.MkdirTemp("", "verif-c47-")
	if err != nil {
		return "bad-op"
	}
	defer os.RemoveAll(root)
	defer c47SetEnv(nil)
	must := func(err error) {
		if err != nil {
			panic(err)
		}
	}
	must(os.Mkdir(filepath.Join(root, "in"), 0o755))
	must(os.Mkdir(filepath.Join(root, "o"), 0o755))
	opts := &reloader.Options{
		ReloadURL:                     c47Server().url,
		WatchInterval:                 time.Hour,
		RetryInterval:                 time.Millisecond,
		TolerateEnvVarExpansionErrors: tolerate,
	}
	if watchZero {
		opts.WatchInterval = 0
	}
	cfgPath := filepath.Join(root, "in", "cfg")
	outPath := filepath.Join(root, "o", "cfg.out")
	if hasCfg {
		opts.CfgFile = cfgPath
		if hasOut {
			opts.CfgOutputFile = outPath
		}
	}
	for i := 0; i < nDirs; i++ {
		d, o := filepath.Join(root, fmt.Sprintf("d%d", i)), filepath.Join(root, fmt.Sprintf("o%d", i))
		must(os.Mkdir(d, 0o755))
		must(os.Mkdir(o, 0o755))
		must(os.Mkdir(filepath.Join(d, "zz-subdir"), 0o755)) // sub-directories are ignored
		opts.CfgDirs = append(opts.CfgDirs, reloader.CfgDirOption{Dir: d, OutputDir: o})
	}
	wdir := filepath.Join(root, "w")
	if hasWatched {
		must(os.Mkdir(wdir, 0o755))
		opts.WatchedDirs = []string{wdir}
	}
	r := reloader.New(nil, nil, opts)
	srv := c47Server()

	syncDir := func(dir string, files []c47File) {
		want := map[string]bool{}
		for _, f := range files {
			want[f.name] = true
			path := filepath.Join(dir, f.name)
			os.Remove(path)
			if f.dangling {
				must(os.Symlink(filepath.Join(dir, "no-such-target"), path))
				continue
			}
			must(os.WriteFile(path, f.raw, 0o644))
		}
		es, err := os.ReadDir(dir)
		must(err)
		for _, e := range es {
			if !e.IsDir() && !want[e.Name()] {
				must(os.Remove(filepath.Join(dir, e.Name())))
			}
		}
	}

	var answers []string
	var lastOK *c47Content // content at the last successful reload (oracle's bookkeeping)
	prevFailed := false
	for _, st := range steps {
		if st.cfg != nil {
			must(os.WriteFile(cfgPath, st.cfg.raw, 0o644))
		} else {
			os.Remove(cfgPath)
		}
		for i := 0; i < nDirs; i++ {
			syncDir(filepath.Join(root, fmt.Sprintf("d%d", i)), st.dirs[i])
		}
		if hasWatched {
			syncDir(wdir, st.watched)
		}
		c47SetEnv(st.env)
		ctx, cancel := context.WithCancel(context.Background())
		srv.mu.Lock()
		srv.script, srv.requests, srv.cancel = st.script, 0, cancel
		srv.mu.Unlock()
		aerr := reloader.VerifApply(r, ctx)
		cancel()
		srv.mu.Lock()
		requests := srv.requests
		srv.cancel = nil
		srv.mu.Unlock()

		res := "ok" + strconv.Itoa(requests)
		if aerr != nil {
			msg := aerr.Error()
			switch {
			case strings.Contains(msg, "hash file"):
				res = "err:missing"
			case strings.Contains(msg, "stat file") || strings.Contains(msg, "build hash"):
				res = "err:stat"
			case strings.Contains(msg, "gzip") || strings.Contains(msg, "compressed"):
				res = "err:gzip"
			case strings.Contains(msg, "unset environment variable"):
				i := strings.Index(msg, `\"`)
				j := strings.LastIndex(msg, `\"`)
				name := ""
				if i >= 0 && j > i {
					name = msg[i+2 : j]
				} else if i := strings.Index(msg, `"`); i >= 0 {
					name = strings.Trim(msg[i:], `"`)
				}
				res = "err:env:" + hlib.HexS(name)
			default:
				res = "err:" + msg
			}
		}
		// observe the outputs
		outs := map[string]string{}
		if b, err := os.ReadFile(outPath); err == nil {
			outs["out"] = string(b)
		}
		for i := 0; i < nDirs; i++ {
			es, err := os.ReadDir(filepath.Join(root, fmt.Sprintf("o%d", i)))
			must(err)
			for _, e := range es {
				b, err := os.ReadFile(filepath.Join(root, fmt.Sprintf("o%d", i), e.Name()))
				must(err)
				outs[fmt.Sprintf("%d/%s", i, hlib.HexS(e.Name()))] = string(b)
			}
		}
		var keys []string
		for k := range outs {
			keys = append(keys, k)
		}
		sort.Strings(keys)
		var ents []string
		for _, k := range keys {
			ents = append(ents, k+"="+hlib.HexS(outs[k]))
		}
		answers = append(answers, res+";"+hlib.Join(ents, ","))

		// ---- oracle
		if aerr != nil {
			continue
		}
		cur := &c47Content{}
		if hasCfg {
			cur.cfg = string(st.cfg.raw)
			if hasOut {
				want, _, ok := c47Expand(*st.cfg.plain, st.env, tolerate)
				if got, have := outs["out"]; !ok || !have || got != want {
					c.Violation("output-differs", fmt.Sprintf("config output %q, input with variables substituted %q", got, want))
				}
			}
		}
		for i := 0; i < nDirs; i++ {
			m := map[string]string{}
			for _, f := range st.dirs[i] {
				m[f.name] = string(f.raw)
				want, _, ok := c47Expand(*f.plain, st.env, tolerate)
				key := fmt.Sprintf("%d/%s", i, hlib.HexS(f.name))
				if got, have := outs[key]; !ok || !have || got != want {
					c.Violation("output-differs", fmt.Sprintf("output of %s is %q, input with variables substituted %q", f.name, got, want))
				}
			}
			cur.dirs = append(cur.dirs, m)
			for k := range outs {
				if strings.HasPrefix(k, fmt.Sprintf("%d/", i)) {
					n, _ := hlib.UnHex(k[strings.Index(k, "/")+1:])
					if _, ok := m[string(n)]; !ok {
						c.Violation("stale-output", fmt.Sprintf("output %s/%s exists although its input is gone", fmt.Sprintf("o%d", i), n))
					}
				}
			}
		}
		if hasWatched {
			cur.watched = map[string]string{}
			for _, f := range st.watched {
				cur.watched[f.name] = string(f.raw)
			}
		}
		if watchZero || (!hasCfg && nDirs == 0 && !hasWatched) {
			continue
		}
		expect := prevFailed || lastOK == nil || !cur.equal(lastOK)
		if expect && requests == 0 {
			c.Violation("missed-reload", "the content differs from the last successful reload (or the last reload failed) but no reload was requested")
		}
		if !expect && requests > 0 {
			c.Violation("spurious-reload", "a reload was requested although nothing changed since the last successful reload")
		}
		if requests > 0 {
			okReload := false
			for i := 0; i < requests && i < len(st.script); i++ {
				okReload = okReload || st.script[i]
			}
			if okReload {
				lastOK, prevFailed = cur, false
			} else {
				prevFailed = true
			}
		}
	}
	return strings.Join(answers, "|")
}

// ---------------------------------------------------------------- generator

var c47Texts = []string{
	"global:\n  replica: $(VERIF_HOST)\n", "a: $(VERIF_A) b: $(VERIF_B)", "plain text", "", "x", "$(", "$()", "$(VERIF_A", "$$(VERIF_A))",
	"$($(VERIF_A))", "$(UNSET_VAR) tail", "pre $(verif_1)$(_V9) post", "$(VERIF-A)", "${VERIF_A}", "$VERIF_A", "a$(VERIF_A)$(VERIF_A)b", "\x1f", "ab",
}

func c47Gzip(s string) []byte {
	var b bytes.Buffer
	w := gzip.NewWriter(&b)
	w.Write([]byte(s))
	w.Close()
	return b.Bytes()
}

func c47GenFile(c *hlib.Ctx, name string) string {
	r := c.R
	text := c47Texts[r.Intn(len(c47Texts))]
	if r.Chance(1, 4) {
		text += fmt.Sprintf("#%d", r.Intn(5))
	}
	switch r.Intn(12) {
	case 0, 1:
		c.Count("file:gzip")
		return hlib.HexS(name) + ":" + hlib.Hex(c47Gzip(text)) + ":" + hlib.HexS(text)
	case 2:
		if r.Chance(1, 3) {
			c.Count("file:gzip-broken")
			g := c47Gzip(text + "padding padding")
			return hlib.HexS(name) + ":" + hlib.Hex(g[:len(g)-6]) + ":!"
		}
	}
	if strings.HasPrefix(text, "\x1f\x8b\x08") {
		text = "x" + text
	}
	c.Count("file:plain")
	return hlib.HexS(name) + ":" + hlib.HexS(text) + ":="
}

func genC47(c *hlib.Ctx) {
	r := c.R
	// ---- the real Watch loop (oracle only; real time)
	for i, n := 0, c.N(4, 40); i < n; i++ {
		c.Do(fmt.Sprintf("o.rl.watch %d %d", r.Range(3, 8), r.Intn(1<<20)), true)
	}
	// ---- expandEnv alone
	n := c.N(1500, 100000)
	alphabet := []string{"$", "(", ")", "VERIF_A", "VERIF_B", "_V9", "X", "-", " ", "$(", "$(VERIF_A)", "$(UNSET)", "é", "\n"}
	for i := 0; i < n; i++ {
		var sb strings.Builder
		for k := r.Intn(10); k > 0; k-- {
			sb.WriteString(alphabet[r.Intn(len(alphabet))])
		}
		var env []string
		for _, nme := range c47EnvPool {
			if r.Chance(1, 2) {
				env = append(env, hlib.HexS(nme)+"="+hlib.HexS(r.Pick([]string{"v", "", "$(VERIF_B)", "a b"})))
			}
		}
		out := c.Do(fmt.Sprintf("rl.expand %d %s %s", r.Intn(2), hlib.Join(env, ","), hlib.HexS(sb.String())), true)
		c.Count("expand:" + strings.Fields(out)[0])
	}
	// ---- directed histories: 2-3 config directories (+ watched directory); a pass that fails in a LATER
	// directory (or in the watched directory) after an EARLIER directory changed, then the failing
	// directory returns to exactly its last-reloaded content: the earlier edit has to be reloaded
	n = c.N(150, 2500)
	for i := 0; i < n; i++ {
		nDirs := r.Range(2, 3)
		hasWatched := r.Chance(1, 2)
		hasCfg := r.Chance(1, 2)
		tol := "0"
		conf := fmt.Sprintf("%s.%s.%s.0.%d.%s", map[bool]string{true: "1", false: "0"}[hasCfg], map[bool]string{true: "1", false: "0"}[hasCfg && r.Bool()], tol, nDirs, map[bool]string{true: "1", false: "0"}[hasWatched])
		good := func(nm string, k int) string { return hlib.HexS(nm) + ":" + hlib.HexS(fmt.Sprintf("content %s v%d", nm, k)) + ":=" }
		bad := func(nm string) string {
			switch r.Intn(3) {
			case 0:
				c.Count("directed:fail-unset-variable")
				return hlib.HexS(nm) + ":" + hlib.HexS("x $(VERIF_NEVER_SET)") + ":="
			case 1:
				c.Count("directed:fail-broken-gzip")
				g := c47Gzip("some text that is long enough to be cut")
				return hlib.HexS(nm) + ":" + hlib.Hex(g[:len(g)-6]) + ":!"
			}
			c.Count("directed:fail-dangling-symlink")
			return hlib.HexS(nm) + ":-:@"
		}
		ver := make([]int, nDirs) // version of file "a" per directory
		wver := 0
		cfgver := 0
		step := func(failDir int, failWatched bool, script string) string {
			cfgTok := "x"
			if hasCfg {
				cfgTok = good("cfg", cfgver)
			}
			var ds []string
			for d := 0; d < nDirs; d++ {
				fs := []string{good("a", ver[d])}
				if d == failDir {
					fs = append(fs, bad("zfail"))
				}
				ds = append(ds, strings.Join(fs, ","))
			}
			wTok := "-"
			if hasWatched {
				fs := []string{good("r", wver)}
				if failWatched {
					c.Count("directed:fail-watched-dangling")
					fs = append(fs, hlib.HexS("zfail")+":-:@")
				}
				wTok = strings.Join(fs, ",")
			}
			return strings.Join([]string{cfgTok, strings.Join(ds, "/"), wTok, "-", script}, "~")
		}
		var steps []string
		steps = append(steps, step(-1, false, "1")) // everything reloaded
		rounds := r.Range(1, 3)
		for k := 0; k < rounds; k++ {
			// an earlier directory (or the config file) changes while a later one fails
			if hasWatched && r.Chance(1, 3) {
				ver[r.Intn(nDirs)]++
				steps = append(steps, step(-1, true, "1"))
			} else {
				j := r.Range(1, nDirs-1)
				ch := r.Intn(j)
				ver[ch]++
				if hasCfg && r.Chance(1, 3) {
					cfgver++
				}
				steps = append(steps, step(j, false, "1"))
				if r.Chance(1, 3) {
					steps = append(steps, step(j, false, "1")) // still failing
				}
			}
			// the failing directory is back to its last-reloaded content: the edit must be reloaded now
			steps = append(steps, step(-1, false, r.Pick([]string{"1", "01", "0"})))
			steps = append(steps, step(-1, false, "1"))
			steps = append(steps, step(-1, false, "1")) // and then nothing more
		}
		c.Do("rl.run "+conf+" "+strings.Join(steps, "|"), true)
		c.Count("directed:histories")
	}
	// ---- histories of apply
	n = c.N(250, 3000)
	for i := 0; i < n; i++ {
		hasCfg := r.Chance(3, 4)
		hasOut := hasCfg && r.Chance(3, 4)
		tolerate := r.Chance(1, 3)
		watchZero := r.Chance(1, 20)
		nDirs := []int{0, 0, 1, 1, 2}[r.Intn(5)]
		hasWatched := r.Chance(1, 3)
		if !hasCfg && nDirs == 0 && !hasWatched {
			hasCfg = true
		}
		b := func(x bool) string {
			if x {
				return "1"
			}
			return "0"
		}
		conf := fmt.Sprintf("%s.%s.%s.%s.%d.%s", b(hasCfg), b(hasOut), b(tolerate), b(watchZero), nDirs, b(hasWatched))
		// current content, mutated step by step
		cfg := c47GenFile(c, "cfg")
		dirs := make([]map[string]string, nDirs)
		for d := range dirs {
			dirs[d] = map[string]string{}
			for k := r.Intn(3); k > 0; k-- {
				nm := r.Pick([]string{"a.yaml", "b.yaml", "c.rules", "d"})
				dirs[d][nm] = c47GenFile(c, nm)
			}
		}
		watched := map[string]string{}
		env := map[string]string{"VERIF_A": "va", "VERIF_HOST": "host-0"}
		var steps []string
		nsteps := r.Range(1, 12)
		for s := 0; s < nsteps; s++ {
			// edits: most steps change nothing or one thing, so that "no reload" is exercised too
			switch r.Intn(10) {
			case 0, 1:
				cfg = c47GenFile(c, "cfg")
				c.Count("edit:cfg")
			case 2, 3:
				if nDirs > 0 {
					d := r.Intn(nDirs)
					nm := r.Pick([]string{"a.yaml", "b.yaml", "c.rules", "d"})
					dirs[d][nm] = c47GenFile(c, nm)
					c.Count("edit:dir-add-or-change")
				}
			case 4:
				if nDirs > 0 {
					d := r.Intn(nDirs)
					for nm := range dirs[d] {
						delete(dirs[d], nm)
						c.Count("edit:dir-remove")
						break
					}
				}
			case 5:
				if hasWatched {
					nm := r.Pick([]string{"r1", "r2"})
					if _, ok := watched[nm]; ok && r.Bool() {
						delete(watched, nm)
					} else {
						watched[nm] = c47GenFile(c, nm)
					}
					c.Count("edit:watched")
				}
			case 6:
				nm := c47EnvPool[r.Intn(len(c47EnvPool))]
				if _, ok := env[nm]; ok && r.Bool() {
					delete(env, nm)
				} else {
					env[nm] = r.Pick([]string{"x", "y z", ""})
				}
				c.Count("edit:env")
			default:
				c.Count("edit:none")
			}
			cfgTok := cfg
			if hasCfg && r.Chance(1, 25) {
				cfgTok = "x"
				c.Count("step:cfg-missing")
			}
			var ds []string
			for d := 0; d < nDirs; d++ {
				var fs []string
				for _, nm := range hlib.SortedKeys(dirs[d]) {
					fs = append(fs, dirs[d][nm])
				}
				if len(fs) == 0 {
					ds = append(ds, "e")
				} else {
					ds = append(ds, strings.Join(fs, ","))
				}
			}
			dTok := "-"
			if nDirs > 0 {
				dTok = strings.Join(ds, "/")
			}
			wTok := "-"
			if hasWatched {
				var fs []string
				for _, nm := range hlib.SortedKeys(watched) {
					fs = append(fs, watched[nm])
				}
				wTok = hlib.Join(fs, ",")
			}
			var es []string
			for _, nm := range hlib.SortedKeys(env) {
				es = append(es, hlib.HexS(nm)+"="+hlib.HexS(env[nm]))
			}
			script := r.Pick([]string{"1", "1", "1", "01", "0", "00", "001"})
			if strings.HasSuffix(script, "0") {
				c.Count("step:reload-fails")
			}
			steps = append(steps, strings.Join([]string{cfgTok, dTok, wTok, hlib.Join(es, ","), script}, "~"))
		}
		out := c.Do("rl.run "+conf+" "+strings.Join(steps, "|"), true)
		for _, a := range strings.Split(out, "|") {
			res, _, _ := strings.Cut(a, ";")
			if strings.HasPrefix(res, "err:env") {
				res = "err:env"
			}
			if strings.HasPrefix(res, "ok") && res != "ok0" {
				res = "ok>0"
			}
			c.Count("apply:" + res)
		}
	}
}
