package main

import (
	"bytes"
	"context"
	"fmt"
	"os"
	"path/filepath"
	"sort"
	"strconv"
	"strings"

	"github.com/go-kit/log"
	"github.com/oklog/ulid/v2"
	"github.com/prometheus/prometheus/model/labels"
	"github.com/prometheus/prometheus/storage"
	"github.com/prometheus/prometheus/tsdb"
	"github.com/prometheus/prometheus/tsdb/chunkenc"
	"github.com/prometheus/prometheus/tsdb/chunks"
	"github.com/prometheus/prometheus/tsdb/index"
	"github.com/prometheus/prometheus/tsdb/tombstones"
	"github.com/prometheus/prometheus/tsdb/tsdbutil"
	"github.com/prometheus/prometheus/util/annotations"

	"github.com/thanos-io/thanos/pkg/block"
	"github.com/thanos-io/thanos/pkg/block/metadata"
	"github.com/thanos-io/thanos/pkg/compactv2"
	"github.com/thanos-io/thanos/pkg/logutil"
	"github.com/thanos-io/thanos/verifharness/hlib"
)

// C48 — bucket rewrite deletes exactly the requested data.
//
// ops (grammar also at the top of lean/Thanos/Driver/Misc.lean):
//   rw.block <series> <requests>      -> <series> | - | err      a real TSDB block is written, rewritten with
//                                        compactv2.Compactor.WriteSeries + DeletionModifier, and read back
//     series   = s{|s} | -          s = labels/chunk{/chunk}     labels = hexname=hexvalue{+…} (sorted by name)
//     chunk    = [h]t.v{,t.v}       (integers; t strictly increasing through the series; h = native histogram
//                                   chunk: v stands for tsdbutil.GenerateTestHistogram(v) and grows inside the chunk)
//     requests = r{;r} | -          r = matchers/intervals
//     matchers = m{,m} | e          m = hexname:typ:hexvalue:tbl   (as in C45; tbl = label values of this op line
//                                   — "" as a bare x — on which the anchored regex matches)
//     intervals = a~b{,a~b} | -     (- = delete the whole series)
//
// Oracle (independent of the model): per input series, the samples that must survive are those of a
// series no request matches (a matcher whose label is absent or empty never matches), and otherwise
// those outside every interval of the matching requests — unless a matching request has no
// intervals, then nothing survives.  Classes: sample-lost (a sample outside the requested intervals is
// gone; narrowed to chunk-emptied-by-several-intervals when the series has a chunk all of whose
// samples are requested without one interval covering the chunk), sample-not-deleted, series-extra;
// a panic of the rewrite is histogram-chunk-reencode-panics when some native histogram chunk would have
// to be re-encoded (overlapped by a requested interval, not inside one, a sample surviving), else rewrite-panic.

func init() {
	props = append(props, &hlib.Prop{ID: "C48", Gen: genC48, Exec: execC48})
}

type c48Sample struct{ t, v int64 }

type c48Series struct {
	lset   labels.Labels
	names  []string
	values []string
	chunks [][]c48Sample
	hist   []bool // per chunk: native histogram chunk (the value v stands for tsdbutil.GenerateTestHistogram(v))
}

// c48Encode builds the chunk of an op line: XOR floats or native histograms.
func c48Encode(ch []c48Sample, hist bool) (chunkenc.Chunk, error) {
	if !hist {
		x := chunkenc.NewXORChunk()
		a, err := x.Appender()
		if err != nil {
			return nil, err
		}
		for _, sa := range ch {
			a.Append(sa.t, float64(sa.v))
		}
		return x, nil
	}
	var c chunkenc.Chunk = chunkenc.NewHistogramChunk()
	a, err := c.Appender()
	if err != nil {
		return nil, err
	}
	for _, sa := range ch {
		nc, _, na, err := a.(*chunkenc.HistogramAppender).AppendHistogram(nil, sa.t, tsdbutil.GenerateTestHistogram(sa.v), false)
		if err != nil {
			return nil, err
		}
		if nc != nil {
			return nil, fmt.Errorf("histogram chunk was cut")
		}
		a = na
	}
	return c, nil
}

// c48Decode reads a chunk back: samples and whether it holds histograms.
func c48Decode(c chunkenc.Chunk) ([]c48Sample, bool, error) {
	var ch []c48Sample
	hist := false
	it := c.Iterator(nil)
	for vt := it.Next(); vt != chunkenc.ValNone; vt = it.Next() {
		switch vt {
		case chunkenc.ValFloat:
			t, v := it.At()
			ch = append(ch, c48Sample{t, int64(v)})
		case chunkenc.ValHistogram:
			t, h := it.AtHistogram(nil)
			hist = true
			ch = append(ch, c48Sample{t, (int64(h.Count) - 12) / 9})
		default:
			return nil, false, fmt.Errorf("unexpected value type %v", vt)
		}
	}
	return ch, hist, it.Err()
}

type c48Request struct {
	matchers  []c45Matcher
	intervals tombstones.Intervals
}

func c48ParseSeries(s string) ([]c48Series, bool) {
	var out []c48Series
	for _, t := range hlib.Split(s, "|") {
		p := strings.Split(t, "/")
		var se c48Series
		for _, l := range hlib.Split(p[0], "+") {
			nv := strings.Split(l, "=")
			if len(nv) != 2 {
				return nil, false
			}
			n, e1 := hlib.UnHex(nv[0])
			v, e2 := hlib.UnHex(nv[1])
			if e1 != nil || e2 != nil || len(n) == 0 || len(v) == 0 {
				return nil, false
			}
			if len(se.names) > 0 && se.names[len(se.names)-1] >= string(n) {
				return nil, false
			}
			se.names, se.values = append(se.names, string(n)), append(se.values, string(v))
		}
		b := labels.NewScratchBuilder(len(se.names))
		for i := range se.names {
			b.Add(se.names[i], se.values[i])
		}
		se.lset = b.Labels()
		last := int64(-1 << 62)
		for _, cs := range p[1:] {
			var ch []c48Sample
			isHist := strings.HasPrefix(cs, "h")
			cs = strings.TrimPrefix(cs, "h")
			se.hist = append(se.hist, isHist)
			for _, x := range hlib.Split(cs, ",") {
				tv := strings.Split(x, ".")
				if len(tv) != 2 {
					return nil, false
				}
				tt, e1 := strconv.ParseInt(tv[0], 10, 64)
				vv, e2 := strconv.ParseInt(tv[1], 10, 64)
				if e1 != nil || e2 != nil || tt <= last || (isHist && (vv < 0 || vv > 100000)) {
					return nil, false
				}
				// histogram values grow inside a chunk (a drop would be a counter reset and cut the chunk)
				if isHist && len(ch) > 0 && ch[len(ch)-1].v >= vv {
					return nil, false
				}
				last = tt
				ch = append(ch, c48Sample{tt, vv})
			}
			if len(ch) == 0 {
				return nil, false
			}
			se.chunks = append(se.chunks, ch)
		}
		if len(se.chunks) == 0 {
			return nil, false
		}
		out = append(out, se)
	}
	// the block writer wants series sorted by labels, without duplicates
	for i := 1; i < len(out); i++ {
		if labels.Compare(out[i-1].lset, out[i].lset) >= 0 {
			return nil, false
		}
	}
	return out, true
}

func c48ParseRequests(s string) ([]c48Request, bool) {
	var out []c48Request
	for _, t := range hlib.Split(s, ";") {
		p := strings.Split(t, "/")
		if len(p) != 2 {
			return nil, false
		}
		var r c48Request
		if p[0] != "e" {
			sets, ok := c45ParseSets(p[0])
			if !ok || len(sets) != 1 {
				return nil, false
			}
			r.matchers = sets[0]
		}
		for _, iv := range hlib.Split(p[1], ",") {
			ab := strings.Split(iv, "~")
			if len(ab) != 2 {
				return nil, false
			}
			a, e1 := strconv.ParseInt(ab[0], 10, 64)
			b, e2 := strconv.ParseInt(ab[1], 10, 64)
			if e1 != nil || e2 != nil || a > b {
				return nil, false
			}
			r.intervals = append(r.intervals, tombstones.Interval{Mint: a, Maxt: b})
		}
		out = append(out, r)
	}
	return out, true
}

func c48WriteBlock(dir string, in []c48Series) error {
	d, err := block.NewDiskWriter(context.Background(), log.NewNopLogger(), dir)
	if err != nil {
		return err
	}
	symbols := map[string]struct{}{}
	for _, s := range in {
		for i := range s.names {
			symbols[s.names[i]] = struct{}{}
			symbols[s.values[i]] = struct{}{}
		}
	}
	var syms []string
	for s := range symbols {
		syms = append(syms, s)
	}
	sort.Strings(syms)
	for _, s := range syms {
		if err := d.AddSymbol(s); err != nil {
			return err
		}
	}
	var ref storage.SeriesRef
	for _, s := range in {
		var chks []chunks.Meta
		for i, ch := range s.chunks {
			x, err := c48Encode(ch, s.hist[i])
			if err != nil {
				return err
			}
			chks = append(chks, chunks.Meta{Chunk: x, MinTime: ch[0].t, MaxTime: ch[len(ch)-1].t})
		}
		if err := d.WriteChunks(chks...); err != nil {
			return err
		}
		if err := d.AddSeries(ref, s.lset, chks...); err != nil {
			return err
		}
		ref++
	}
	_, err = d.Flush()
	return err
}

func c48ReadBlock(dir string) ([]c48Series, error) {
	ctx := context.Background()
	indexr, err := index.NewFileReader(filepath.Join(dir, block.IndexFilename), index.DecodePostingsRaw)
	if err != nil {
		return nil, err
	}
	defer indexr.Close()
	chunkr, err := chunks.NewDirReader(filepath.Join(dir, block.ChunksDirname), nil)
	if err != nil {
		return nil, err
	}
	defer chunkr.Close()
	k, v := index.AllPostingsKey()
	all, err := indexr.Postings(ctx, k, v)
	if err != nil {
		return nil, err
	}
	all = indexr.SortedPostings(all)
	var builder labels.ScratchBuilder
	var out []c48Series
	var chks []chunks.Meta
	for all.Next() {
		var s c48Series
		if err := indexr.Series(all.At(), &builder, &chks); err != nil {
			return nil, err
		}
		s.lset = builder.Labels().Copy()
		s.lset.Range(func(l labels.Label) { s.names, s.values = append(s.names, l.Name), append(s.values, l.Value) })
		for _, c := range chks {
			c.Chunk, _, err = chunkr.ChunkOrIterable(c)
			if err != nil {
				return nil, err
			}
			ch, isHist, err := c48Decode(c.Chunk)
			if err != nil {
				return nil, err
			}
			s.chunks = append(s.chunks, ch)
			s.hist = append(s.hist, isHist)
		}
		out = append(out, s)
	}
	return out, all.Err()
}

func c48Show(ss []c48Series) string {
	var out []string
	for _, s := range ss {
		var ls []string
		for i := range s.names {
			ls = append(ls, hlib.HexS(s.names[i])+"="+hlib.HexS(s.values[i]))
		}
		parts := []string{hlib.Join(ls, "+")}
		for i, ch := range s.chunks {
			var xs []string
			for _, sa := range ch {
				xs = append(xs, fmt.Sprintf("%d.%d", sa.t, sa.v))
			}
			pre := ""
			if i < len(s.hist) && s.hist[i] {
				pre = "h"
			}
			parts = append(parts, pre+hlib.Join(xs, ","))
		}
		out = append(out, strings.Join(parts, "/"))
	}
	return hlib.Join(out, "|")
}

// c48MemSet is an in-memory storage.ChunkSeriesSet over the series of an op line.
type c48MemSet struct {
	series []c48Series
	i      int
}

func (m *c48MemSet) Next() bool { m.i++; return m.i <= len(m.series) }
func (m *c48MemSet) At() storage.ChunkSeries {
	s := m.series[m.i-1]
	return &storage.ChunkSeriesEntry{Lset: s.lset, ChunkIteratorFn: func(chunks.Iterator) chunks.Iterator {
		var metas []chunks.Meta
		for i, ch := range s.chunks {
			x, err := c48Encode(ch, s.hist[i])
			if err != nil {
				panic(err)
			}
			metas = append(metas, chunks.Meta{Chunk: x, MinTime: ch[0].t, MaxTime: ch[len(ch)-1].t})
		}
		return storage.NewListChunkSeriesIterator(metas...)
	}}
}
func (m *c48MemSet) Err() error                        { return nil }
func (m *c48MemSet) Warnings() annotations.Annotations { return nil }

type c48NopProgress struct{}

func (c48NopProgress) SeriesProcessed() {}

// c48RewriteMem runs the deletion modifier over an in-memory series set and collects what the
// block writer would write (it skips series left without chunks).
func c48RewriteMem(c *hlib.Ctx, in []c48Series, dreqs []metadata.DeletionRequest) ([]c48Series, error) {
	var changes bytes.Buffer
	_, set := compactv2.WithDeletionModifier(dreqs...).Modify(index.NewStringListIter(nil), &c48MemSet{series: in}, compactv2.NewChangeLog(&changes), c48NopProgress{})
	var out []c48Series
	metaBad := false
	for set.Next() {
		s := set.At()
		var o c48Series
		o.lset = s.Labels().Copy()
		o.lset.Range(func(l labels.Label) { o.names, o.values = append(o.names, l.Name), append(o.values, l.Value) })
		it := s.Iterator(nil)
		for it.Next() {
			m := it.At()
			ch, isHist, err := c48Decode(m.Chunk)
			if err != nil {
				return nil, err
			}
			if len(ch) == 0 || m.MinTime != ch[0].t || m.MaxTime != ch[len(ch)-1].t {
				metaBad = true
			}
			o.chunks = append(o.chunks, ch)
			o.hist = append(o.hist, isHist)
		}
		if it.Err() != nil {
			return nil, it.Err()
		}
		if len(o.chunks) > 0 {
			out = append(out, o)
		}
	}
	if metaBad {
		c.Violation("chunk-meta-range", "a rewritten chunk is empty or its MinTime/MaxTime are not its first/last sample")
	}
	return out, set.Err()
}

func execC48(c *hlib.Ctx, tok []string) string {
	if len(tok) != 3 || (tok[0] != "rw.block" && tok[0] != "rw.mod") {
		return "bad-op"
	}
	in, ok1 := c48ParseSeries(tok[1])
	reqs, ok2 := c48ParseRequests(tok[2])
	if !ok1 || !ok2 || len(in) == 0 {
		return "bad-op"
	}
	// regex truth tables of the op line against the library
	var lsets [][]c45Label
	for _, s := range in {
		var ls []c45Label
		for i := range s.names {
			ls = append(ls, c45Label{s.names[i], s.values[i], c45Class(s.values[i])})
		}
		lsets = append(lsets, ls)
	}
	var msets [][]c45Matcher
	for _, r := range reqs {
		msets = append(msets, r.matchers)
	}
	if !c45Consistent(msets, lsets...) {
		return "bad-op"
	}

	var dreqs []metadata.DeletionRequest
	for _, r := range reqs {
		dr := metadata.DeletionRequest{Intervals: append(tombstones.Intervals(nil), r.intervals...)}
		for _, m := range r.matchers {
			dr.Matchers = append(dr.Matchers, m.m)
		}
		dreqs = append(dreqs, dr)
	}
	var got []c48Series
	var res string
	panicked := func() (p bool) {
		defer func() {
			if r := recover(); r != nil {
				p = true
				c.LastPanic = fmt.Sprint(r)
			}
		}()
		if tok[0] == "rw.mod" {
			var err error
			got, err = c48RewriteMem(c, in, dreqs)
			if err != nil {
				c.Violation("rewrite-error", "the deletion modifier failed: "+err.Error())
				res = "err"
			}
		} else {
			got, res = c48RewriteBlock(c, in, dreqs)
		}
		return false
	}()
	if panicked {
		// the rewrite crashed: the known limitation is a native histogram chunk that would have to be
		// re-encoded (some, not all, of its samples deleted, or intervals overlapping it without deleting)
		class := "rewrite-panic"
		if c48HistReencode(in, reqs) {
			class = "histogram-chunk-reencode-panics"
		}
		c.Violation(class, "the rewrite panics: "+c.LastPanic)
		return "panic"
	}
	if res != "" {
		return res
	}
	return c48Oracle(c, in, reqs, got)
}

// c48RewriteBlock: the same through real blocks on disk and Compactor.WriteSeries.
func c48RewriteBlock(c *hlib.Ctx, in []c48Series, dreqs []metadata.DeletionRequest) ([]c48Series, string) {
	tmp, err := os.MkdirTemp(c48Scratch(), "verif-c48-")
	if err != nil {
		return nil, "bad-op"
	}
	defer os.RemoveAll(tmp)
	logger := log.NewNopLogger()
	id1 := ulid.MustNew(1, nil)
	bdir := filepath.Join(tmp, id1.String())
	if err := os.MkdirAll(bdir, 0o755); err != nil {
		return nil, "bad-op"
	}
	if err := c48WriteBlock(bdir, in); err != nil {
		return nil, "err:write:" + err.Error()
	}
	if err := (metadata.Meta{BlockMeta: tsdb.BlockMeta{Version: 1, ULID: id1}}).WriteToDir(logger, bdir); err != nil {
		return nil, "bad-op"
	}
	pool := chunkenc.NewPool()
	b, err := tsdb.OpenBlock(logutil.GoKitLogToSlog(logger), bdir, pool, nil)
	if err != nil {
		return nil, "err:open:" + err.Error()
	}
	defer b.Close()
	id2 := ulid.MustNew(2, nil)
	odir := filepath.Join(tmp, id2.String())
	d, err := block.NewDiskWriter(context.Background(), logger, odir)
	if err != nil {
		return nil, "bad-op"
	}
	var changes bytes.Buffer
	comp := compactv2.New(tmp, logger, compactv2.NewChangeLog(&changes), pool)
	werr := comp.WriteSeries(context.Background(), []block.Reader{b}, d, compactv2.NewProgressLogger(logger, len(in)), compactv2.WithDeletionModifier(dreqs...))
	if werr != nil {
		c.Violation("rewrite-error", "WriteSeries failed: "+werr.Error())
		return nil, "err"
	}
	if err := os.MkdirAll(odir, 0o755); err != nil {
		return nil, "bad-op"
	}
	if _, err := d.Flush(); err != nil {
		return nil, "err:flush:" + err.Error()
	}
	got, err := c48ReadBlock(odir)
	if err != nil {
		return nil, "err:read:" + err.Error()
	}
	return got, ""
}

// c48Matching: the intervals requested for a series and whether it is deleted as a whole.
func c48Matching(s c48Series, reqs []c48Request) (tombstones.Intervals, bool) {
	var ivs tombstones.Intervals
	whole := false
	for _, r := range reqs {
		match := true
		for _, m := range r.matchers {
			v := s.lset.Get(m.name)
			if v == "" || !m.m.Matches(v) {
				match = false
				break
			}
		}
		if !match {
			continue
		}
		if len(r.intervals) == 0 {
			whole = true
		}
		ivs = append(ivs, r.intervals...)
	}
	return ivs, whole
}

// c48HistReencode: some native histogram chunk of a series that is not deleted as a whole is
// overlapped by a requested interval, is not inside one (merged) interval, and keeps a sample.
func c48HistReencode(in []c48Series, reqs []c48Request) bool {
	for _, s := range in {
		ivs, whole := c48Matching(s, reqs)
		if whole {
			continue
		}
		var merged tombstones.Intervals
		for _, iv := range ivs {
			merged = merged.Add(iv)
		}
		for i, ch := range s.chunks {
			if !s.hist[i] {
				continue
			}
			mn, mx := ch[0].t, ch[len(ch)-1].t
			if (tombstones.Interval{Mint: mn, Maxt: mx}).IsSubrange(merged) {
				continue
			}
			overlap, survivor := false, false
			for _, iv := range merged {
				if mn <= iv.Maxt && iv.Mint <= mx {
					overlap = true
				}
			}
			for _, sa := range ch {
				in1 := false
				for _, iv := range merged {
					in1 = in1 || (iv.Mint <= sa.t && sa.t <= iv.Maxt)
				}
				survivor = survivor || !in1
			}
			if overlap && survivor {
				return true
			}
		}
	}
	return false
}

func c48Oracle(c *hlib.Ctx, in []c48Series, reqs []c48Request, got []c48Series) string {
	// ---- oracle
	gotBy := map[string]map[int64]int64{}
	for _, s := range got {
		m := map[int64]int64{}
		for _, ch := range s.chunks {
			for _, sa := range ch {
				m[sa.t] = sa.v
			}
		}
		gotBy[s.lset.String()] = m
	}
	seen := map[string]bool{}
	for _, s := range in {
		key := s.lset.String()
		seen[key] = true
		var ivs tombstones.Intervals
		whole := false
		for _, r := range reqs {
			match := true
			for _, m := range r.matchers {
				v := s.lset.Get(m.name)
				if v == "" || !m.m.Matches(v) {
					match = false
					break
				}
			}
			if !match {
				continue
			}
			if len(r.intervals) == 0 {
				whole = true
			}
			ivs = append(ivs, r.intervals...)
		}
		in1 := func(t int64) bool {
			for _, iv := range ivs {
				if iv.Mint <= t && t <= iv.Maxt {
					return true
				}
			}
			return false
		}
		// a chunk all of whose samples are requested although no single requested interval (after
		// merging touching ones) covers the chunk
		emptied := false
		var merged tombstones.Intervals
		for _, iv := range ivs {
			merged = merged.Add(iv)
		}
		for _, ch := range s.chunks {
			all := true
			for _, sa := range ch {
				all = all && in1(sa.t)
			}
			if all && !(tombstones.Interval{Mint: ch[0].t, Maxt: ch[len(ch)-1].t}).IsSubrange(merged) {
				emptied = true
			}
		}
		lost, kept := 0, 0
		for _, ch := range s.chunks {
			for _, sa := range ch {
				v, have := gotBy[key][sa.t]
				must := !whole && !in1(sa.t)
				if must && (!have || v != sa.v) {
					lost++
				}
				if !must && have {
					kept++
				}
			}
		}
		if lost > 0 {
			class := "sample-lost"
			if emptied {
				class = "chunk-emptied-by-several-intervals"
			}
			c.Violation(class, fmt.Sprintf("series %s: %d sample(s) outside the requested intervals are gone", key, lost))
		}
		if kept > 0 {
			c.Violation("sample-not-deleted", fmt.Sprintf("series %s: %d sample(s) inside the requested intervals are still there", key, kept))
		}
	}
	for k := range gotBy {
		if !seen[k] {
			c.Violation("series-extra", "the rewritten block has a series the input has not: "+k)
		}
	}
	return c48Show(got)
}

// c48Scratch: where the scratch blocks live (the default temp dir).
func c48Scratch() string {
	// not /dev/shm: the chunk writer preallocates 512 MiB segments, which a memory file system
	// really allocates
	return ""
}

// ---------------------------------------------------------------- generator

// c48GenMatchers draws 1-2 matchers, mostly built from the labels of a series of the block so that
// requests do match; the rest from the C45 pool (absent labels, empty values, regexes).
func c48GenMatchers(c *hlib.Ctx, series []c48Series, universe map[string]bool) string {
	r := c.R
	if r.Chance(1, 4) {
		return c45GenSets(c, universe, false, 1)
	}
	var vals []string
	for v := range universe {
		vals = append(vals, v)
	}
	sort.Strings(vals)
	s := series[r.Intn(len(series))]
	var ms []string
	for k := r.Range(1, 2); k > 0; k-- {
		i := r.Intn(len(s.names))
		name, val := s.names[i], s.values[i]
		switch r.Intn(6) {
		case 0:
			c.Count("matcher:ne-other")
			ms = append(ms, hlib.HexS(name)+":ne:"+hlib.HexS("nope")+":-")
		case 1:
			re := r.Pick([]string{".+", ".*", val + "|zzz", "[0-9]+", "f.*|b.*"})
			pos, err := labels.NewMatcher(labels.MatchRegexp, name, re)
			if err != nil {
				continue
			}
			var t []string
			for _, v := range vals {
				if pos.Matches(v) {
					t = append(t, "x"+fmt.Sprintf("%x", v))
				}
			}
			c.Count("matcher:re-own")
			ms = append(ms, hlib.HexS(name)+":re:"+hlib.HexS(re)+":"+hlib.Join(t, "+"))
		default:
			c.Count("matcher:eq-own")
			ms = append(ms, hlib.HexS(name)+":eq:"+hlib.HexS(val)+":-")
		}
	}
	if len(ms) == 0 {
		return "e"
	}
	return strings.Join(ms, ",")
}

// c48GenIntervals: intervals placed relative to the chunks of a series: a whole chunk, from inside
// one chunk into the next, single samples, two intervals that together take every sample of a
// chunk without either covering it, touching intervals, and free ones.
func c48GenIntervals(c *hlib.Ctx, series []c48Series) []string {
	r := c.R
	s := series[r.Intn(len(series))]
	ch := s.chunks[r.Intn(len(s.chunks))]
	first, last := ch[0].t, ch[len(ch)-1].t
	var ivs []string
	add := func(a, b int64) { ivs = append(ivs, fmt.Sprintf("%d~%d", a, b)) }
	switch r.Intn(8) {
	case 0:
		c.Count("intervals:whole-chunk")
		add(first-int64(r.Intn(2)), last+int64(r.Intn(2)))
	case 1:
		c.Count("intervals:single-sample")
		x := ch[r.Intn(len(ch))].t
		add(x, x)
	case 2:
		if len(ch) >= 2 {
			c.Count("intervals:two-that-empty-a-chunk")
			k := r.Range(1, len(ch)-1)
			add(first, ch[k-1].t)
			add(ch[k].t, last) // a gap without samples between the two (unless the samples are 1 apart)
		} else {
			add(first, last)
		}
	case 3:
		c.Count("intervals:touching")
		m := first + (last-first)/2
		add(first, m)
		if m+1 <= last {
			add(m+1, last)
		}
	case 4:
		c.Count("intervals:tail-into-next")
		add(ch[len(ch)/2].t, last+int64(r.Range(1, 15)))
	case 5:
		c.Count("intervals:one-per-sample")
		for _, sa := range ch {
			if r.Chance(3, 4) {
				add(sa.t, sa.t)
			}
		}
		if len(ivs) == 0 {
			add(first, first)
		}
	default:
		c.Count("intervals:free")
		for m := r.Range(1, 3); m > 0; m-- {
			a := int64(r.Intn(90)) - 5
			add(a, a+int64([]int{0, 1, 3, 10, 40}[r.Intn(5)]))
		}
	}
	// requests list their intervals in any order
	if len(ivs) > 1 && r.Bool() {
		ivs[0], ivs[len(ivs)-1] = ivs[len(ivs)-1], ivs[0]
	}
	return ivs
}

func genC48(c *hlib.Ctx) {
	r := c.R
	n := c.N(3000, 36000)
	blockEvery := c.N(100, 120)
	names := []string{"a", "b", "job", "z"}
	vals := []string{"1", "2", "foo", "bar", "x y"}
	for i := 0; i < n; i++ {
		// ---- block: 1..6 series, 1..3 chunks each, 1..6 samples per chunk, times on a coarse grid
		ns := r.Range(1, 6)
		seenL := map[string]bool{}
		var series []c48Series
		universe := map[string]bool{"": true}
		for len(series) < ns {
			var s c48Series
			for _, nm := range names {
				if r.Chance(1, 2) {
					s.names = append(s.names, nm)
					s.values = append(s.values, vals[r.Intn(len(vals))])
				}
			}
			if len(s.names) == 0 {
				s.names, s.values = []string{"a"}, []string{vals[r.Intn(len(vals))]}
			}
			b := labels.NewScratchBuilder(len(s.names))
			for i := range s.names {
				b.Add(s.names[i], s.values[i])
			}
			s.lset = b.Labels()
			if seenL[s.lset.String()] {
				continue
			}
			seenL[s.lset.String()] = true
			t := int64(r.Intn(20))
			histSeries := r.Chance(1, 6) // a series of native histograms
			for k := r.Range(1, 3); k > 0; k-- {
				var ch []c48Sample
				hv := int64(r.Intn(5))
				for m := r.Range(1, 6); m > 0; m-- {
					v := int64(r.Intn(100))
					if histSeries {
						hv += int64(r.Range(1, 9))
						v = hv
					}
					ch = append(ch, c48Sample{t, v})
					t += int64(r.Range(1, 12))
				}
				s.chunks = append(s.chunks, ch)
				s.hist = append(s.hist, histSeries)
			}
			if histSeries {
				c.Count("block:histogram-series")
			}
			for _, v := range s.values {
				universe[v] = true
			}
			series = append(series, s)
		}
		sort.Slice(series, func(i, j int) bool { return labels.Compare(series[i].lset, series[j].lset) < 0 })
		// ---- requests
		nr := r.Range(1, 3)
		var reqs []string
		for k := 0; k < nr; k++ {
			ms := "e"
			if !r.Chance(1, 10) {
				ms = c48GenMatchers(c, series, universe)
			}
			var ivs []string
			if r.Chance(1, 8) {
				c.Count("request:whole-series")
			} else {
				ivs = c48GenIntervals(c, series)
				c.Count("request:intervals")
			}
			reqs = append(reqs, ms+"/"+hlib.Join(ivs, ","))
		}
		c.Count(fmt.Sprintf("block:series=%d", ns))
		op := "rw.mod"
		if i%blockEvery == 0 {
			op = "rw.block" // end to end through blocks on disk (slow: the writers allocate large buffers)
			c.Count("through-real-blocks")
		}
		out := c.Do(op+" "+c48Show(series)+" "+strings.Join(reqs, ";"), true)
		switch {
		case out == "-":
			c.Count("result:empty-block")
		case out == c48Show(series):
			c.Count("result:unchanged")
		case strings.HasPrefix(out, "err"):
			c.Count("result:" + out)
		default:
			c.Count("result:changed")
		}
	}
}
