// Family binary "misc": C45 C46 C47 C48 C49.
package main

import "github.com/thanos-io/thanos/verifharness/hlib"

var props []*hlib.Prop

func main() { hlib.Main(props) }
