// Family binary "misc": C45 C49 C46 C47 C48.
package main

import (
	"os"
	"runtime/pprof"

	"github.com/thanos-io/thanos/verifharness/hlib"
)

var props []*hlib.Prop

func main() {
	// VERIF_PROF=<file>: CPU profile of the harness run (development aid)
	if p := os.Getenv("VERIF_PROF"); p != "" {
		if f, err := os.Create(p); err == nil {
			_ = pprof.StartCPUProfile(f)
			defer pprof.StopCPUProfile()
		}
	}
	hlib.Main(props)
}
