package main

import (
	"fmt"
	"net"
	"sort"
	"strconv"
	"strings"

	"github.com/cespare/xxhash/v2"
	"github.com/facette/natsort"

	"github.com/thanos-io/thanos/pkg/cacheutil"
	"github.com/thanos-io/thanos/verifharness/hlib"
)

// C49 — memcached key placement is consistent (jump hash over the natsorted server list).
//
// ops (grammar also at the top of lean/Thanos/Driver/Misc.lean):
//   mc.jump <key> <n>                                        -> bucket            (jumpHash via hook)
//   mc.pick <listed> <perm> <keys>                           -> <single> <batch>  (SetServers, PickServer per key, PickServerForKeys)
//   mc.two  <listedA> <permA> <listedB> <permB> <keys>       -> <singleA> <singleB>
//   mc.hist <steps> <keys>                                   -> <answer>{|<answer>}   one selector through a history:
//     step = S<listed>~<perm> (SetServers, all names resolve -> ok) | F<listed> (a name does not resolve -> err) | P (lookups)
//     listed = hexsrv{,hexsrv} | -     servers as passed to SetServers
//     perm   = i{,i} | -               what natsort.Sort does to the lexically sorted list: final[k] = lexsorted[perm[k]]
//                                      (third-party input, re-checked here against the selector's internal order)
//     keys   = hexkey:hash{,hexkey:hash} | -       hash = xxhash64 of the key, decimal (third-party input, re-checked here)
//     single = per key the picked hexsrv, or err, joined by ","  (- for no keys)
//     batch  = err | hexsrv=hexkey+hexkey{;…} sorted by server | - (empty map)
//
// Oracle (independent of the model):
//   mc.pick: the batch answer is the grouping of the single answers (every key once, under the server
//            PickServer gives, in request order);
//   mc.two : B a rearrangement of A  => same server for every key            (class listing-order / natsort-tie-order)
//            B = A plus one server   => a key stays or moves to the new one   (class add-not-last when the new
//            server does not sort last — the known limitation F49 —, add-moves-between-old otherwise).

func init() {
	props = append(props, &hlib.Prop{ID: "C49", Gen: genC49, Exec: execC49})
}

var c49KnownHits int

type c49Key struct {
	hexKey string
	key    string
	hash   uint64
}

func c49ParseServers(s string) ([]string, bool) {
	var out []string
	for _, t := range hlib.Split(s, ",") {
		b, err := hlib.UnHex(t)
		if err != nil || len(b) == 0 {
			return nil, false
		}
		out = append(out, string(b))
	}
	return out, true
}

func c49ParseKeys(s string) ([]c49Key, bool) {
	var out []c49Key
	for _, t := range hlib.Split(s, ",") {
		p := strings.Split(t, ":")
		if len(p) != 2 {
			return nil, false
		}
		b, err := hlib.UnHex(p[0])
		h, err2 := strconv.ParseUint(p[1], 10, 64)
		if err != nil || err2 != nil || xxhash.Sum64String(string(b)) != h {
			return nil, false
		}
		out = append(out, c49Key{p[0], string(b), h})
	}
	return out, true
}

// c49ApplyPerm: lexical sort of the listed servers, then the rearrangement of the op line.
func c49ApplyPerm(listed []string, perm string) ([]string, bool) {
	canon := append([]string(nil), listed...)
	sort.Strings(canon)
	var out []string
	used := map[int]bool{}
	for _, t := range hlib.Split(perm, ",") {
		i, err := strconv.Atoi(t)
		if err != nil || i < 0 || i >= len(canon) || used[i] {
			return nil, false
		}
		used[i] = true
		out = append(out, canon[i])
	}
	return out, len(out) == len(canon)
}

// c49Perm is the generator's side: what natsort.Sort does to the lexically sorted list.
func c49Perm(listed []string) string {
	canon := append([]string(nil), listed...)
	sort.Strings(canon)
	nat := append([]string(nil), canon...)
	natsort.Sort(nat)
	used := make([]bool, len(canon))
	idx := make([]string, len(nat))
	for k, s := range nat {
		for i := range canon {
			if !used[i] && canon[i] == s {
				used[i] = true
				idx[k] = strconv.Itoa(i)
				break
			}
		}
	}
	return hlib.Join(idx, ",")
}

// c49Selector builds the real selector and checks that its internal order is the one the op line
// claims natsort gives.  names maps an address string (net.Addr.String()) back to the listed server.
func c49Selector(listed, sorted []string) (*cacheutil.MemcachedJumpHashSelector, map[string]string, bool) {
	sel := &cacheutil.MemcachedJumpHashSelector{}
	if err := sel.SetServers(listed...); err != nil {
		return nil, nil, false
	}
	names := map[string]string{}
	for _, s := range listed {
		var a net.Addr
		var err error
		if strings.Contains(s, "/") {
			a, err = net.ResolveUnixAddr("unix", s)
		} else {
			a, err = net.ResolveTCPAddr("tcp", s)
		}
		if err != nil {
			return nil, nil, false
		}
		if prev, ok := names[a.String()]; ok && prev != s {
			return nil, nil, false // two spellings of one address: outside the compared domain
		}
		names[a.String()] = s
	}
	var internal []string
	_ = sel.Each(func(a net.Addr) error {
		internal = append(internal, names[a.String()])
		return nil
	})
	if len(internal) != len(sorted) {
		return nil, nil, false
	}
	for i := range internal {
		if internal[i] != sorted[i] {
			return nil, nil, false
		}
	}
	return sel, names, true
}

func c49Single(sel *cacheutil.MemcachedJumpHashSelector, names map[string]string, keys []c49Key) []string {
	out := make([]string, len(keys))
	for i, k := range keys {
		a, err := sel.PickServer(k.key)
		if err != nil {
			out[i] = "err"
		} else {
			out[i] = hlib.HexS(names[a.String()])
		}
	}
	return out
}

// natsortStrict: natsort.Compare is a strict total order on the listed servers (asymmetric,
// total on distinct strings, transitive) — what makes "sorted" independent of the listing order.
func natsortStrict(xs []string) bool {
	for _, a := range xs {
		for _, b := range xs {
			if a == b {
				continue
			}
			if natsort.Compare(a, b) == natsort.Compare(b, a) {
				return false
			}
			for _, c := range xs {
				if c != a && c != b && natsort.Compare(a, b) && natsort.Compare(b, c) && !natsort.Compare(a, c) {
					return false
				}
			}
		}
	}
	return true
}

func execC49(c *hlib.Ctx, tok []string) string {
	if len(tok) == 0 {
		return "bad-op"
	}
	switch tok[0] {
	case "mc.jump":
		if len(tok) != 3 {
			return "bad-op"
		}
		key, err := strconv.ParseUint(tok[1], 10, 64)
		n, err2 := strconv.Atoi(tok[2])
		if err != nil || err2 != nil || n < 1 {
			return "bad-op"
		}
		b := cacheutil.VerifJumpHash(key, n)
		if b < 0 || int(b) >= n {
			c.Violation("jump-range", fmt.Sprintf("jumpHash(%d,%d) = %d outside [0,n)", key, n, b))
		}
		if n > 1 {
			// monotone consistency: with one bucket fewer the key is in the same bucket or was in none of the old ones
			if p := cacheutil.VerifJumpHash(key, n-1); !(p == b || int(b) == n-1) {
				c.Violation("jump-consistency", fmt.Sprintf("jumpHash(%d,%d) = %d but jumpHash(_,%d) = %d", key, n, b, n-1, p))
			}
		}
		return strconv.Itoa(int(b))

	case "mc.pick":
		if len(tok) != 4 {
			return "bad-op"
		}
		listed, ok1 := c49ParseServers(tok[1])
		keys, ok3 := c49ParseKeys(tok[3])
		if !ok1 || !ok3 {
			return "bad-op"
		}
		sorted, ok2 := c49ApplyPerm(listed, tok[2])
		if !ok2 {
			return "bad-op"
		}
		sel, names, ok := c49Selector(listed, sorted)
		if !ok {
			return "bad-op"
		}
		single := c49Single(sel, names, keys)
		ks := make([]string, len(keys))
		for i, k := range keys {
			ks[i] = k.key
		}
		m, err := sel.PickServerForKeys(ks)
		batch := "err"
		if err == nil {
			var entries, srvs []string
			for addr := range m {
				srvs = append(srvs, addr)
			}
			sort.Slice(srvs, func(i, j int) bool { return hlib.HexS(names[srvs[i]]) < hlib.HexS(names[srvs[j]]) })
			for _, addr := range srvs {
				got := m[addr]
				hk := make([]string, len(got))
				for i, k := range got {
					hk[i] = hlib.HexS(k)
				}
				entries = append(entries, hlib.HexS(names[addr])+"="+hlib.Join(hk, "+"))
			}
			batch = hlib.Join(entries, ";")
			// oracle: batch = grouping of the single picks
			want := map[string][]string{}
			for i, k := range keys {
				want[single[i]] = append(want[single[i]], k.key)
			}
			bad := false
			seen := 0
			for addr, got := range m {
				w := want[hlib.HexS(names[addr])]
				seen += len(got)
				if len(w) != len(got) {
					bad = true
					break
				}
				for i := range w {
					if w[i] != got[i] {
						bad = true
					}
				}
			}
			if bad || seen != len(keys) {
				c.Violation("batch-differs-from-single", "PickServerForKeys does not group the keys the way PickServer places them")
			}
		} else if len(listed) > 0 {
			c.Violation("batch-error", "PickServerForKeys failed with servers configured")
		}
		for _, s := range single {
			if (s == "err") != (len(listed) == 0) {
				c.Violation("single-error", "PickServer fails with servers configured (or succeeds without)")
			}
		}
		return hlib.Join(single, ",") + " " + batch

	case "mc.hist":
		return c49ExecHist(c, tok)

	case "mc.two":
		if len(tok) != 6 {
			return "bad-op"
		}
		la, ok1 := c49ParseServers(tok[1])
		lb, ok3 := c49ParseServers(tok[3])
		keys, ok5 := c49ParseKeys(tok[5])
		if !ok1 || !ok3 || !ok5 {
			return "bad-op"
		}
		sa, ok2 := c49ApplyPerm(la, tok[2])
		sb, ok4 := c49ApplyPerm(lb, tok[4])
		if !ok2 || !ok4 {
			return "bad-op"
		}
		selA, namesA, okA := c49Selector(la, sa)
		selB, namesB, okB := c49Selector(lb, sb)
		if !okA || !okB {
			return "bad-op"
		}
		a := c49Single(selA, namesA, keys)
		b := c49Single(selB, namesB, keys)
		// ---- oracle
		cnt := map[string]int{}
		for _, s := range la {
			cnt[s]++
		}
		for _, s := range lb {
			cnt[s]--
		}
		var extra []string // in B, not in A
		missing := 0
		for s, n := range cnt {
			if n < 0 {
				for i := 0; i < -n; i++ {
					extra = append(extra, s)
				}
			} else {
				missing += n
			}
		}
		switch {
		case missing == 0 && len(extra) == 0: // a rearrangement
			moved := 0
			for i := range keys {
				if a[i] != b[i] {
					moved++
				}
			}
			if moved > 0 {
				class := "listing-order"
				if !natsortStrict(la) {
					class = "natsort-tie-order"
				}
				c.Violation(class, fmt.Sprintf("%d of %d keys are placed on a different server when the same servers are listed in another order", moved, len(keys)))
			}
		case missing == 0 && len(extra) == 1 && len(la) > 0 && cnt[extra[0]] == -1 && !contains(la, extra[0]): // one new server
			nw := hlib.HexS(extra[0])
			moved := 0
			for i := range keys {
				if a[i] != b[i] && b[i] != nw {
					moved++
				}
			}
			if moved > 0 {
				class := "add-moves-between-old"
				if sb[len(sb)-1] != extra[0] {
					class = "add-not-last"
				} else if !natsortStrict(lb) {
					class = "natsort-tie-order"
				}
				// hlib keeps only the first 200 violations of a run: report a bounded number of hits of the
				// known class so that a violation of another class later in the run is never crowded out
				if class == "add-not-last" {
					c49KnownHits++
					if c49KnownHits > 40 {
						c.Count("known-hit-not-listed:add-not-last")
						return hlib.Join(a, ",") + " " + hlib.Join(b, ",")
					}
				}
				c.Violation(class, fmt.Sprintf("adding %q moves %d of %d keys between servers that were already there", extra[0], moved, len(keys)))
			}
		}
		return hlib.Join(a, ",") + " " + hlib.Join(b, ",")
	}
	return "bad-op"
}

// c49Resolves: does parseStaticAddr accept the name without DNS (literal IP:port, unix path)?
func c49Resolves(s string) bool {
	if strings.Contains(s, "/") {
		return true
	}
	host, port, err := net.SplitHostPort(s)
	if err != nil || net.ParseIP(host) == nil {
		return false
	}
	_, err = strconv.ParseUint(port, 10, 16)
	return err == nil
}

func c49Batch(sel *cacheutil.MemcachedJumpHashSelector, names map[string]string, keys []c49Key) string {
	ks := make([]string, len(keys))
	for i, k := range keys {
		ks[i] = k.key
	}
	m, err := sel.PickServerForKeys(ks)
	if err != nil {
		return "err"
	}
	var entries, srvs []string
	for addr := range m {
		srvs = append(srvs, addr)
	}
	sort.Slice(srvs, func(i, j int) bool { return hlib.HexS(names[srvs[i]]) < hlib.HexS(names[srvs[j]]) })
	for _, addr := range srvs {
		hk := make([]string, len(m[addr]))
		for i, k := range m[addr] {
			hk[i] = hlib.HexS(k)
		}
		entries = append(entries, hlib.HexS(names[addr])+"="+hlib.Join(hk, "+"))
	}
	return hlib.Join(entries, ";")
}

// c49ExecHist: a history of SetServers calls (some failing) and lookups on ONE selector.
//   mc.hist <steps> <keys>     step = S<listed>~<perm> | F<listed> | P
// Oracle: a failing SetServers returns an error, a good one does not; every lookup answers what a
// FRESH selector given the last successfully set list answers (class torn-server-list).
func c49ExecHist(c *hlib.Ctx, tok []string) string {
	if len(tok) != 3 {
		return "bad-op"
	}
	keys, ok := c49ParseKeys(tok[2])
	if !ok {
		return "bad-op"
	}
	sel := &cacheutil.MemcachedJumpHashSelector{}
	names := map[string]string{}
	var lastGood []string
	var answers []string
	addNames := func(listed []string) bool {
		for _, s := range listed {
			if !c49Resolves(s) {
				continue
			}
			var a net.Addr
			var err error
			if strings.Contains(s, "/") {
				a, err = net.ResolveUnixAddr("unix", s)
			} else {
				a, err = net.ResolveTCPAddr("tcp", s)
			}
			if err != nil {
				return false
			}
			if prev, ok := names[a.String()]; ok && prev != s {
				return false
			}
			names[a.String()] = s
		}
		return true
	}
	for _, st := range strings.Split(tok[1], "|") {
		switch {
		case st == "P":
			single := c49Single(sel, names, keys)
			batch := c49Batch(sel, names, keys)
			answers = append(answers, hlib.Join(single, ",")+"/"+batch)
			// oracle: a fresh selector with the last successfully set list
			fresh := &cacheutil.MemcachedJumpHashSelector{}
			if err := fresh.SetServers(lastGood...); err != nil {
				return "bad-op"
			}
			want := c49Single(fresh, names, keys)
			moved := 0
			for i := range want {
				if want[i] != single[i] {
					moved++
				}
			}
			if moved > 0 || batch != c49Batch(fresh, names, keys) {
				c.Violation("torn-server-list", fmt.Sprintf("%d of %d keys are placed differently from a fresh selector given the last successfully set server list %q", moved, len(keys), lastGood))
			}
		case strings.HasPrefix(st, "F"):
			listed, ok := c49ParseServers(st[1:])
			bad := 0
			for _, s := range listed {
				if !c49Resolves(s) {
					bad++
				}
			}
			if !ok || bad == 0 || !addNames(listed) {
				return "bad-op"
			}
			if err := sel.SetServers(listed...); err == nil {
				c.Violation("setservers-error-swallowed", "SetServers succeeds although a name does not resolve")
				answers = append(answers, "ok")
			} else {
				answers = append(answers, "err")
			}
		case strings.HasPrefix(st, "S"):
			p := strings.Split(st[1:], "~")
			if len(p) != 2 {
				return "bad-op"
			}
			listed, ok := c49ParseServers(p[0])
			if !ok {
				return "bad-op"
			}
			for _, s := range listed {
				if !c49Resolves(s) {
					return "bad-op"
				}
			}
			sorted, ok2 := c49ApplyPerm(listed, p[1])
			if !ok2 || !addNames(listed) {
				return "bad-op"
			}
			if err := sel.SetServers(listed...); err != nil {
				c.Violation("setservers-fails", "SetServers fails on resolvable names: "+err.Error())
				answers = append(answers, "err")
				break
			}
			// the internal order is the one the op line claims
			var internal []string
			_ = sel.Each(func(a net.Addr) error { internal = append(internal, names[a.String()]); return nil })
			if strings.Join(internal, "\x00") != strings.Join(sorted, "\x00") {
				return "bad-op"
			}
			lastGood = listed
			answers = append(answers, "ok")
		default:
			return "bad-op"
		}
	}
	return strings.Join(answers, "|")
}

func contains(xs []string, x string) bool {
	for _, y := range xs {
		if x == y {
			return true
		}
	}
	return false
}

// ---------------------------------------------------------------- generator

// c49GenServers draws n distinct addresses that need no DNS: IPv4/IPv6 literals and unix sockets,
// with numbers that make natural and lexical order differ (2 vs 10).
func c49GenServers(c *hlib.Ctx, n int, ties bool) []string {
	r := c.R
	seen := map[string]bool{}
	var out []string
	style := r.Intn(4)
	for len(out) < n {
		var s string
		switch style {
		case 0: // statefulset-like: one varying number
			s = fmt.Sprintf("10.0.0.%d:11211", r.Range(1, 40))
		case 1:
			s = fmt.Sprintf("10.%d.%d.%d:%d", r.Intn(3), r.Intn(12), r.Range(1, 30), []int{11211, 11212, 9}[r.Intn(3)])
		case 2:
			s = fmt.Sprintf("/var/run/memcached-%d.sock", r.Range(0, 30))
			if ties && r.Chance(1, 3) {
				s = fmt.Sprintf("/var/run/memcached-%02d.sock", r.Range(0, 9)) // "-01" vs "-1": natsort ties
			}
		default:
			switch r.Intn(3) {
			case 0:
				s = fmt.Sprintf("[::%x]:11211", r.Range(1, 300))
			case 1:
				s = fmt.Sprintf("/tmp/mc%d/s%d", r.Intn(12), r.Intn(3))
			default:
				s = fmt.Sprintf("127.0.%d.1:%d", r.Intn(20), 11211+r.Intn(3))
			}
		}
		if !seen[s] {
			seen[s] = true
			out = append(out, s)
		}
	}
	return out
}

func c49Sorted(listed []string) []string {
	s := append([]string(nil), listed...)
	sort.Strings(s)
	natsort.Sort(s)
	return s
}

func c49Keys(c *hlib.Ctx, n int) string {
	r := c.R
	ks := make([]string, n)
	for i := range ks {
		var k string
		switch r.Intn(3) {
		case 0:
			k = fmt.Sprintf("P:01ABC%d:%d", r.Intn(1000), r.Intn(1<<20))
		case 1:
			k = string(r.Bytes(r.Range(1, 24)))
		default:
			k = fmt.Sprintf("S:%x", r.U64())
		}
		ks[i] = fmt.Sprintf("%s:%d", hlib.HexS(k), xxhash.Sum64String(k))
	}
	return hlib.Join(ks, ",")
}

func c49Hex(xs []string) string { return hlib.Join(mapHex(xs), ",") }

func genC49(c *hlib.Ctx) {
	r := c.R
	// ---- raw jump hash, all n up to 64 (bit-for-bit tie of the float arithmetic)
	n := c.N(4000, 1000000)
	for i := 0; i < n; i++ {
		var key uint64
		switch r.Intn(4) {
		case 0:
			key = uint64(r.Intn(1000))
		case 1:
			key = ^uint64(0) - uint64(r.Intn(1000))
		default:
			key = r.U64()
		}
		nb := r.Range(1, 64)
		if r.Chance(1, 50) {
			nb = r.Range(65, 5000)
		}
		c.Do(fmt.Sprintf("mc.jump %d %d", key, nb), true)
	}
	// ---- single vs batch
	n = c.N(400, 20000)
	for i := 0; i < n; i++ {
		ns := []int{0, 1, 2, 3, 5, 8, 16}[r.Intn(7)]
		if r.Chance(1, 3) {
			ns = r.Range(1, 16)
		}
		listed := c49GenServers(c, ns, false)
		if ns > 0 && r.Chance(1, 10) {
			listed = append(listed, listed[r.Intn(len(listed))]) // a server listed twice gets more weight
			c.Count("pick:duplicate-server")
		}
		nk := r.Range(0, 30)
		c.Count(fmt.Sprintf("pick:servers=%d", len(listed)))
		c.Do("mc.pick "+c49Hex(listed)+" "+c49Perm(listed)+" "+c49Keys(c, nk), nk > 0)
	}
	// ---- listing order
	n = c.N(400, 20000)
	for i := 0; i < n; i++ {
		ns := r.Range(1, 16)
		ties := r.Chance(1, 4)
		la := c49GenServers(c, ns, ties)
		p := r.Perm(ns)
		lb := make([]string, ns)
		for i, j := range p {
			lb[i] = la[j]
		}
		c.Count(fmt.Sprintf("perm:servers=%d", ns/4*4))
		if !natsortStrict(la) {
			c.Count("perm:natsort-ties")
		}
		c.Do("mc.two "+c49Hex(la)+" "+c49Perm(la)+" "+c49Hex(lb)+" "+c49Perm(lb)+" "+c49Keys(c, r.Range(10, 40)), ns > 1)
	}
	// ---- histories of SetServers calls on one selector, some of them failing on an unresolvable name
	n = c.N(300, 15000)
	for i := 0; i < n; i++ {
		ns := r.Range(2, 10)
		pool := c49GenServers(c, ns+4, false)
		cur := append([]string(nil), pool[:ns]...)
		steps := []string{"S" + c49Hex(cur) + "~" + c49Perm(cur), "P"}
		for k := r.Range(2, 6); k > 0; k-- {
			// the next list: plus / minus / replacing servers, listed in a fresh order
			next := append([]string(nil), cur...)
			switch r.Intn(4) {
			case 0:
				next = append(next, pool[ns+r.Intn(4)])
			case 1:
				if len(next) > 2 {
					j := r.Intn(len(next))
					next = append(next[:j], next[j+1:]...)
				}
			case 2:
				next[r.Intn(len(next))] = pool[ns+r.Intn(4)]
			}
			seen := map[string]bool{}
			var uniq []string
			for _, s := range next {
				if !seen[s] {
					seen[s] = true
					uniq = append(uniq, s)
				}
			}
			next = uniq
			pp := r.Perm(len(next))
			sh := make([]string, len(next))
			for i, j := range pp {
				sh[i] = next[j]
			}
			next = sh
			if r.Chance(1, 2) {
				// a name that does not resolve, sorting first / in the middle / last
				bad := r.Pick([]string{"0.0.0.0", "10.0.0.15:notaport", "99.9.9.9", "[::1", "~last:port:extra", "10.0.0.3"})
				c.Count("hist:failing-setservers")
				srt := c49Sorted(append(append([]string(nil), next...), bad))
				switch {
				case srt[0] == bad:
					c.Count("hist:bad-name-sorts-first")
				case srt[len(srt)-1] == bad:
					c.Count("hist:bad-name-sorts-last")
				default:
					c.Count("hist:bad-name-sorts-inside")
				}
				at := r.Intn(len(next) + 1)
				withBad := append(append(append([]string(nil), next[:at]...), bad), next[at:]...)
				steps = append(steps, "F"+c49Hex(withBad), "P")
				if r.Chance(1, 3) {
					steps = append(steps, "P")
				}
			} else {
				c.Count("hist:good-setservers")
				steps = append(steps, "S"+c49Hex(next)+"~"+c49Perm(next), "P")
				cur = next
			}
		}
		c.Do("mc.hist "+strings.Join(steps, "|")+" "+c49Keys(c, r.Range(10, 40)), true)
	}
	// ---- adding a server
	n = c.N(600, 30000)
	for i := 0; i < n; i++ {
		ns := r.Range(1, 15)
		all := c49GenServers(c, ns+1, false)
		var la, lb []string
		if r.Chance(1, 2) {
			// scale-up the way the code comment recommends: the new server sorts last
			s := c49Sorted(all)
			la, lb = append([]string(nil), s[:ns]...), append([]string(nil), s...)
			pp := r.Perm(ns)
			sh := make([]string, ns)
			for i, j := range pp {
				sh[i] = la[j]
			}
			la = sh
			c.Count("add:new-sorts-last")
		} else {
			la, lb = all[:ns], all
			s := c49Sorted(all)
			if s[ns] == all[ns] {
				c.Count("add:new-sorts-last")
			} else {
				c.Count("add:new-sorts-inside")
			}
		}
		c.Do("mc.two "+c49Hex(la)+" "+c49Perm(la)+" "+c49Hex(lb)+" "+c49Perm(lb)+" "+c49Keys(c, r.Range(20, 60)), true)
	}
}
