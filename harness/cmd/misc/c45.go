package main

import (
	"context"
	"encoding/hex"
	"fmt"
	"sort"
	"strconv"
	"strings"
	"text/template"
	"text/template/parse"
	"time"

	"github.com/prometheus/prometheus/model/labels"

	"github.com/thanos-io/thanos/pkg/rules"
	"github.com/thanos-io/thanos/pkg/rules/rulespb"
	"github.com/thanos-io/thanos/pkg/store/labelpb"
	"github.com/thanos-io/thanos/verifharness/hlib"
)

// C45 — Rules API label filters follow Prometheus semantics; replicas deduplicated to one per rule.
//
// ops (grammar also at the top of lean/Thanos/Driver/Misc.lean):
//   rules.match <labels> <sets>                         -> true | false          (rules.matches via hook)
//   rules.rules <repl> <sels> <groups>                  -> groups (canonical) | - | err (GRPCClient.Rules, fake RulesServer)
//     sels   = sel{;sel} | -        one match[] string per sel, in order: sel = set (plain spelling) | w<set> (the same
//                                   set spelled with extra white space) | E (the empty string: does not parse)
//     labels = lab{+lab} | -        lab = hexname=hexvalue=cls      cls = p|t|x|e|n (what text/template makes of the value, see c45Class)
//     sets   = set{;set} | -        set = m{,m} | e (the empty set)
//     m      = hexname:typ:hexvalue:tbl    typ = eq|ne|re|nre
//              tbl = xhexv{+xhexv} | -   (the label values of this op line, and "" written as a bare x, on which the anchored regex matches)
//     repl   = hexname{,hexname} | -
//     groups = group{|group} | -    group = hexfile/hexname{/rule}
//     rule   = kind:hexname:hexquery:dur:state:lastEval:labels      kind = a|r
//     answer: same group format, labels as hexname=hexvalue

func init() {
	props = append(props, &hlib.Prop{ID: "C45", Gen: genC45, Exec: execC45})
}

// ---------------------------------------------------------------- parsing of op lines

type c45Label struct {
	name, value string
	cls         string // p|t|x|e|n, see c45Class
}

type c45Matcher struct {
	name, value string
	typ         labels.MatchType
	table       map[string]bool
	m           *labels.Matcher
}

type c45Rule struct {
	alert    bool
	name     string
	query    string
	dur      int64
	state    int
	lastEval int64
	labels   []c45Label
}

type c45Group struct {
	file, name string
	rules      []c45Rule
}

// c45Class is what text/template makes of a label value on a fresh template (PClass of the model):
// p one text node, non-empty tree; t any other non-empty tree; x parse error; e a tree
// parse.IsEmptyTree calls empty that is one text node (white space); n an empty tree otherwise.
func c45Class(v string) string {
	t, err := template.New("label").Parse(v)
	if err != nil {
		return "x"
	}
	text := t.Tree != nil && len(t.Root.Nodes) == 1 && t.Root.Nodes[0].Type() == parse.NodeText
	if t.Tree == nil || parse.IsEmptyTree(t.Root) {
		if text {
			return "e"
		}
		return "n"
	}
	if text {
		return "p"
	}
	return "t"
}

// isTemplated is the independent reading of "non-templated" (the specification's): the value
// parses, on a template of its own, to exactly one text node.
func isTemplated(v string) bool {
	c := c45Class(v)
	return !(c == "p" || c == "e")
}

func c45ParseLabels(s string) ([]c45Label, bool) {
	var out []c45Label
	for _, t := range hlib.Split(s, "+") {
		p := strings.Split(t, "=")
		if len(p) != 3 || len(p[2]) != 1 || !strings.Contains("ptxen", p[2]) {
			return nil, false
		}
		n, e1 := hlib.UnHex(p[0])
		v, e2 := hlib.UnHex(p[1])
		if e1 != nil || e2 != nil {
			return nil, false
		}
		// labels of an op line are listed the way labels.Labels stores them: sorted by name, no repeats
		if len(out) > 0 && out[len(out)-1].name >= string(n) {
			return nil, false
		}
		out = append(out, c45Label{string(n), string(v), p[2]})
	}
	return out, true
}

var c45Types = map[string]labels.MatchType{"eq": labels.MatchEqual, "ne": labels.MatchNotEqual, "re": labels.MatchRegexp, "nre": labels.MatchNotRegexp}
var c45TypeNames = map[labels.MatchType]string{labels.MatchEqual: "eq", labels.MatchNotEqual: "ne", labels.MatchRegexp: "re", labels.MatchNotRegexp: "nre"}

func c45ParseSets(s string) ([][]c45Matcher, bool) {
	var sets [][]c45Matcher
	for _, st := range hlib.Split(s, ";") {
		set := []c45Matcher{}
		if st != "e" {
			for _, ms := range hlib.Split(st, ",") {
				p := strings.Split(ms, ":")
				if len(p) != 4 {
					return nil, false
				}
				n, e1 := hlib.UnHex(p[0])
				v, e2 := hlib.UnHex(p[2])
				typ, ok := c45Types[p[1]]
				if e1 != nil || e2 != nil || !ok {
					return nil, false
				}
				m, err := labels.NewMatcher(typ, string(n), string(v))
				if err != nil {
					return nil, false
				}
				tbl := map[string]bool{}
				for _, x := range hlib.Split(p[3], "+") {
					if !strings.HasPrefix(x, "x") {
						return nil, false
					}
					b, err := hex.DecodeString(x[1:])
					if err != nil {
						return nil, false
					}
					tbl[string(b)] = true
				}
				set = append(set, c45Matcher{name: string(n), value: string(v), typ: typ, table: tbl, m: m})
			}
		}
		sets = append(sets, set)
	}
	return sets, true
}

func c45ParseGroups(s string) ([]c45Group, bool) {
	var gs []c45Group
	for _, g := range hlib.Split(s, "|") {
		p := strings.Split(g, "/")
		if len(p) < 2 {
			return nil, false
		}
		f, e1 := hlib.UnHex(p[0])
		n, e2 := hlib.UnHex(p[1])
		if e1 != nil || e2 != nil {
			return nil, false
		}
		grp := c45Group{file: string(f), name: string(n)}
		for _, rs := range p[2:] {
			q := strings.Split(rs, ":")
			if len(q) != 7 || (q[0] != "a" && q[0] != "r") {
				return nil, false
			}
			rn, e1 := hlib.UnHex(q[1])
			rq, e2 := hlib.UnHex(q[2])
			d, e3 := strconv.ParseInt(q[3], 10, 64)
			st, e4 := strconv.Atoi(q[4])
			le, e5 := strconv.ParseInt(q[5], 10, 64)
			ls, ok := c45ParseLabels(q[6])
			if e1 != nil || e2 != nil || e3 != nil || e4 != nil || e5 != nil || !ok || st < 0 || st > 2 {
				return nil, false
			}
			grp.rules = append(grp.rules, c45Rule{alert: q[0] == "a", name: string(rn), query: string(rq), dur: d, state: st, lastEval: le, labels: ls})
		}
		gs = append(gs, grp)
	}
	return gs, true
}

// c45Consistent checks what the op line claims about third-party semantics (template bits, regex
// truth tables) against the libraries; an inconsistent line is answered "bad-op" (which the model
// never answers on a well-formed line, so it shows up as a disagreement).
func c45Consistent(sets [][]c45Matcher, labelSets ...[]c45Label) bool {
	universe := map[string]bool{"": true}
	for _, ls := range labelSets {
		for _, l := range ls {
			if l.cls != c45Class(l.value) {
				return false
			}
			universe[l.value] = true
		}
	}
	for _, set := range sets {
		for _, m := range set {
			if m.typ != labels.MatchRegexp && m.typ != labels.MatchNotRegexp {
				continue
			}
			pos, _ := labels.NewMatcher(labels.MatchRegexp, m.name, m.value)
			for v := range universe {
				if pos.Matches(v) != m.table[v] {
					return false
				}
			}
		}
	}
	return true
}

// c45HasEmptyTree: some label value is not empty but parses to an empty tree (white space,
// comment only, define only).
func c45HasEmptyTree(ls []c45Label) bool {
	for _, l := range ls {
		if l.value != "" && (l.cls == "e" || l.cls == "n") {
			return true
		}
	}
	return false
}

func c45PromLabels(ls []c45Label) labels.Labels {
	b := labels.NewScratchBuilder(len(ls))
	for _, l := range ls {
		b.Add(l.name, l.value)
	}
	b.Sort()
	return b.Labels()
}

// specMatches: Prometheus semantics, computed independently of rules.matches.
func c45SpecMatches(sets [][]c45Matcher, ls []c45Label) bool {
	if len(sets) == 0 {
		return true
	}
	nt := map[string]string{}
	for _, l := range ls {
		if !isTemplated(l.value) {
			nt[l.name] = l.value
		}
	}
	for _, set := range sets {
		all := true
		for _, m := range set {
			if !m.m.Matches(nt[m.name]) {
				all = false
				break
			}
		}
		if all {
			return true
		}
	}
	return false
}

type c45Server struct {
	rulespb.UnimplementedRulesServer
	groups []*rulespb.RuleGroup
}

func (s *c45Server) Rules(_ *rulespb.RulesRequest, srv rulespb.Rules_RulesServer) error {
	for _, g := range s.groups {
		if err := srv.Send(rulespb.NewRuleGroupRulesResponse(g)); err != nil {
			return err
		}
	}
	return nil
}

func c45Selector(set []c45Matcher, spaced bool) string {
	var parts []string
	for _, m := range set {
		op := map[labels.MatchType]string{labels.MatchEqual: "=", labels.MatchNotEqual: "!=", labels.MatchRegexp: "=~", labels.MatchNotRegexp: "!~"}[m.typ]
		if spaced {
			parts = append(parts, " "+m.name+"  "+op+" "+strconv.Quote(m.value)+" ")
		} else {
			parts = append(parts, m.name+op+strconv.Quote(m.value))
		}
	}
	if spaced {
		return " { " + strings.Join(parts, ",") + " } "
	}
	return "{" + strings.Join(parts, ",") + "}"
}

func c45ShowRule(r *rulespb.Rule) string {
	k, d, st := "r", int64(0), 0
	if a := r.GetAlert(); a != nil {
		k, d, st = "a", int64(a.DurationSeconds), int(a.State)
	}
	var ls []string
	r.GetLabels().Range(func(l labels.Label) {
		ls = append(ls, hlib.HexS(l.Name)+"="+hlib.HexS(l.Value))
	})
	return fmt.Sprintf("%s:%s:%s:%d:%d:%d:%s", k, hlib.HexS(r.GetName()), hlib.HexS(r.GetQuery()), d, st, r.GetLastEvaluation().Unix(), hlib.Join(ls, "+"))
}

// c45Key is the identity of a rule after replica labels are removed (what Rule.Compare compares).
func c45Key(r c45Rule, repl map[string]bool) string {
	var ls []string
	for _, l := range r.labels {
		if !repl[l.name] {
			ls = append(ls, hlib.HexS(l.name)+"="+hlib.HexS(l.value))
		}
	}
	sort.Strings(ls)
	d := int64(0)
	k := "r"
	if r.alert {
		d, k = r.dur, "a"
	}
	return fmt.Sprintf("%s:%s:%s:%d:%s", k, hlib.HexS(r.name), hlib.HexS(r.query), d, strings.Join(ls, "+"))
}

func execC45(c *hlib.Ctx, tok []string) string {
	if len(tok) == 0 {
		return "bad-op"
	}
	switch tok[0] {
	case "rules.match":
		if len(tok) != 3 {
			return "bad-op"
		}
		ls, ok1 := c45ParseLabels(tok[1])
		sets, ok2 := c45ParseSets(tok[2])
		if !ok1 || !ok2 || !c45Consistent(sets, ls) {
			return "bad-op"
		}
		msets := make([][]*labels.Matcher, len(sets))
		for i, s := range sets {
			for _, m := range s {
				msets[i] = append(msets[i], m.m)
			}
		}
		got := rules.VerifMatches(msets, c45PromLabels(ls))
		want := c45SpecMatches(sets, ls)
		if got != want {
			class := "matches-semantics"
			if len(sets) >= 2 && want && !got && !c45HasEmptyTree(ls) {
				class = "selector-sets-anded" // pre-repair loop: AND across sets
			} else if c45HasEmptyTree(ls) {
				class = "stale-template-tree" // pre-repair: shared template keeps the tree of an earlier label
			}
			c.Violation(class, fmt.Sprintf("matches = %v, Prometheus semantics (all selectors of at least one set) = %v", got, want))
		}
		return strconv.FormatBool(got)

	case "rules.rules":
		if len(tok) != 4 {
			return "bad-op"
		}
		var repl []string
		for _, x := range hlib.Split(tok[1], ",") {
			b, err := hlib.UnHex(x)
			if err != nil {
				return "bad-op"
			}
			repl = append(repl, string(b))
		}
		// one match[] string per sel: plain, w = spelled with extra white space, E = the empty string
		var selToks []string
		var spaced, emptyStr []bool
		for _, t := range hlib.Split(tok[2], ";") {
			switch {
			case t == "E":
				emptyStr, spaced = append(emptyStr, true), append(spaced, false)
				t = "e"
			case strings.HasPrefix(t, "w"):
				emptyStr, spaced = append(emptyStr, false), append(spaced, true)
				t = t[1:]
			default:
				emptyStr, spaced = append(emptyStr, false), append(spaced, false)
			}
			selToks = append(selToks, t)
		}
		sets, ok1 := c45ParseSets(hlib.Join(selToks, ";"))
		groups, ok2 := c45ParseGroups(tok[3])
		if !ok1 || !ok2 {
			return "bad-op"
		}
		var all [][]c45Label
		for _, g := range groups {
			for _, r := range g.rules {
				all = append(all, r.labels)
			}
		}
		if !c45Consistent(sets, all...) {
			return "bad-op"
		}
		srv := &c45Server{}
		for _, g := range groups {
			pg := &rulespb.RuleGroup{File: g.file, Name: g.name}
			for _, r := range g.rules {
				zl := labelpb.ZLabelSet{Labels: labelpb.ZLabelsFromPromLabels(c45PromLabels(r.labels))}
				if r.alert {
					pg.Rules = append(pg.Rules, rulespb.NewAlertingRule(&rulespb.Alert{
						State: rulespb.AlertState(r.state), Name: r.name, Query: r.query, DurationSeconds: float64(r.dur),
						Labels: zl, LastEvaluation: time.Unix(r.lastEval, 0).UTC()}))
				} else {
					pg.Rules = append(pg.Rules, rulespb.NewRecordingRule(&rulespb.RecordingRule{
						Name: r.name, Query: r.query, Labels: zl, LastEvaluation: time.Unix(r.lastEval, 0).UTC()}))
				}
			}
			srv.groups = append(srv.groups, pg)
		}
		req := &rulespb.RulesRequest{}
		anyEmptyStr := false
		for i, s := range sets {
			if emptyStr[i] {
				req.MatcherString = append(req.MatcherString, "")
				anyEmptyStr = true
				continue
			}
			req.MatcherString = append(req.MatcherString, c45Selector(s, spaced[i]))
		}
		res, _, err := rules.NewGRPCClientWithDedup(srv, repl).Rules(context.Background(), req)
		if err != nil {
			if !anyEmptyStr {
				c.Violation("request-fails", "Rules fails although every match[] string is a valid selector: "+err.Error())
			}
			return "err"
		}
		if anyEmptyStr {
			c.Violation("unparsable-selector-accepted", "Rules succeeds although a match[] string is empty")
		}
		var outg []string
		for _, g := range res.Groups {
			parts := []string{hlib.HexS(g.File), hlib.HexS(g.Name)}
			for _, r := range g.Rules {
				parts = append(parts, c45ShowRule(r))
			}
			outg = append(outg, strings.Join(parts, "/"))
		}
		answer := hlib.Join(outg, "|")

		// ---- oracle: per (file;name) exactly the rules that match under Prometheus semantics, one
		// per identity after dropping replica labels, and the survivor is the most critical / most
		// recently evaluated of its replicas.
		replSet := map[string]bool{}
		for _, x := range repl {
			replSet[x] = true
		}
		type best struct {
			state int
			le    int64
		}
		want := map[string]map[string]best{}
		anded := false
		for _, g := range groups {
			gk := g.file + ";" + g.name
			for _, r := range g.rules {
				if !c45SpecMatches(sets, r.labels) {
					continue
				}
				if len(sets) >= 2 {
					anded = true
				}
				if want[gk] == nil {
					want[gk] = map[string]best{}
				}
				k := c45Key(r, replSet)
				st := 0
				if r.alert {
					st = r.state
				}
				b, ok := want[gk][k]
				if !ok || st > b.state || (st == b.state && r.lastEval > b.le) {
					want[gk][k] = best{st, r.lastEval}
				}
			}
		}
		got := map[string]map[string]best{}
		dupGroup, dupRule := false, false
		for _, g := range res.Groups {
			gk := g.File + ";" + g.Name
			if got[gk] != nil {
				dupGroup = true
			}
			got[gk] = map[string]best{}
			for _, r := range g.Rules {
				cr := c45Rule{alert: r.GetAlert() != nil, name: r.GetName(), query: r.GetQuery(), lastEval: r.GetLastEvaluation().Unix()}
				st := 0
				if a := r.GetAlert(); a != nil {
					cr.dur, st = int64(a.DurationSeconds), int(a.State)
				}
				r.GetLabels().Range(func(l labels.Label) { cr.labels = append(cr.labels, c45Label{name: l.Name, value: l.Value}) })
				k := c45Key(cr, replSet)
				if _, ok := got[gk][k]; ok {
					dupRule = true
				}
				got[gk][k] = best{st, cr.lastEval}
			}
		}
		if dupGroup {
			c.Violation("group-not-merged", "a rule group (file;name) is returned twice")
		}
		if dupRule {
			c.Violation("replica-not-deduplicated", "two returned rules of one group are equal up to replica labels")
		}
		missing, extra, notBest := 0, 0, 0
		for gk, rs := range want {
			for k, b := range rs {
				g, ok := got[gk][k]
				if !ok {
					missing++
				} else if g != b {
					notBest++
				}
			}
		}
		for gk, rs := range got {
			for k := range rs {
				if _, ok := want[gk][k]; !ok {
					extra++
				}
			}
		}
		emptyTree := false
		for _, ls := range all {
			emptyTree = emptyTree || c45HasEmptyTree(ls)
		}
		if missing > 0 {
			class := "rule-missing"
			if emptyTree {
				class = "stale-template-tree"
			} else if anded && len(sets) >= 2 {
				class = "selector-sets-anded"
			}
			c.Violation(class, fmt.Sprintf("%d rule(s) whose non-templated labels satisfy all selectors of some set are not returned", missing))
		}
		if extra > 0 && emptyTree {
			c.Violation("stale-template-tree", fmt.Sprintf("%d returned rule(s) satisfy no selector set", extra))
		} else if extra > 0 {
			c.Violation("rule-extra", fmt.Sprintf("%d returned rule(s) satisfy no selector set", extra))
		}
		if notBest > 0 {
			c.Violation("replica-survivor", fmt.Sprintf("%d deduplicated rule(s) are not the most critical / most recent replica", notBest))
		}
		return answer
	}
	return "bad-op"
}

// ---------------------------------------------------------------- generator

var (
	c45Names  = []string{"a", "b", "c", "severity", "replica", "rep2"}
	c45Values = []string{"1", "2", "foo", "bar", "", "{{ $labels.x }}", "{{ .Foo }}", "x{{ .Y }}z", "x{{y", "}}", "{{/* c */}}", "{{define \"t\"}}q{{end}}", "a b", "fo", " ", "1", "2"}
	c45Regex  = []string{".*", ".+", "1|2", "f.*", "", "b.r", "foo|bar", "[0-9]+", "x.*z", "\\{\\{.*"}
)

func c45GenLabels(c *hlib.Ctx, withReplica, allowEmpty bool) []c45Label {
	r := c.R
	var ls []c45Label
	for _, n := range c45Names {
		isRep := n == "replica" || n == "rep2"
		if isRep && !withReplica {
			continue
		}
		if r.Chance(1, 2) {
			v := c45Values[r.Intn(len(c45Values))]
			for v == "" && !allowEmpty {
				v = c45Values[r.Intn(len(c45Values))]
			}
			if isRep {
				v = r.Pick([]string{"0", "1", "2"})
			}
			ls = append(ls, c45Label{n, v, c45Class(v)})
		}
	}
	return ls
}

func c45ShowLabels(ls []c45Label) string {
	var out []string
	ls = append([]c45Label(nil), ls...)
	sort.Slice(ls, func(i, j int) bool { return ls[i].name < ls[j].name })
	for _, l := range ls {
		out = append(out, hlib.HexS(l.name)+"="+hlib.HexS(l.value)+"="+l.cls)
	}
	return hlib.Join(out, "+")
}

// c45GenSets draws 0..3 selector sets; universe = the label values of the op line.  Matchers are
// biased towards the values present so that both outcomes are frequent.
func c45GenSets(c *hlib.Ctx, universe map[string]bool, allowEmptySet bool, nsets int) string {
	r := c.R
	names := append([]string{"zz"}, c45Names...)
	var vals []string
	for v := range universe {
		vals = append(vals, v)
	}
	sort.Strings(vals)
	var sets []string
	for i := 0; i < nsets; i++ {
		nm := r.Range(1, 3)
		if allowEmptySet && r.Chance(1, 12) {
			sets = append(sets, "e")
			c.Count("set:empty")
			continue
		}
		var ms []string
		for j := 0; j < nm; j++ {
			name := names[r.Intn(len(names))]
			typ := []labels.MatchType{labels.MatchEqual, labels.MatchEqual, labels.MatchNotEqual, labels.MatchRegexp, labels.MatchNotRegexp}[r.Intn(5)]
			var val string
			tbl := "-"
			if typ == labels.MatchRegexp || typ == labels.MatchNotRegexp {
				val = c45Regex[r.Intn(len(c45Regex))]
				pos, err := labels.NewMatcher(labels.MatchRegexp, name, val)
				if err != nil {
					continue
				}
				var t []string
				for _, v := range vals {
					if pos.Matches(v) {
						t = append(t, "x"+hex.EncodeToString([]byte(v)))
					}
				}
				tbl = hlib.Join(t, "+")
				if len(t) == 0 {
					tbl = "-"
				}
			} else if r.Chance(3, 4) && len(vals) > 0 {
				val = vals[r.Intn(len(vals))]
			} else {
				val = c45Values[r.Intn(len(c45Values))]
			}
			c.Count("matcher:" + c45TypeNames[typ])
			ms = append(ms, hlib.HexS(name)+":"+c45TypeNames[typ]+":"+hlib.HexS(val)+":"+tbl)
		}
		if len(ms) == 0 {
			ms = append(ms, hlib.HexS("a")+":eq:"+hlib.HexS("1")+":-")
		}
		sets = append(sets, strings.Join(ms, ","))
	}
	return hlib.Join(sets, ";")
}

func genC45(c *hlib.Ctx) {
	r := c.R
	// ---- rules.match: one rule label set against 0..3 selector sets
	n := c.N(4000, 200000)
	for i := 0; i < n; i++ {
		ls := c45GenLabels(c, false, true)
		universe := map[string]bool{"": true}
		for _, l := range ls {
			universe[l.value] = true
		}
		nsets := []int{0, 1, 1, 2, 2, 2, 3, 3}[r.Intn(8)]
		c.Count(fmt.Sprintf("match:sets=%d", nsets))
		out := c.Do("rules.match "+c45ShowLabels(ls)+" "+c45GenSets(c, universe, true, nsets), nsets > 0)
		c.Count("match:" + out)
	}
	// ---- rules.rules: replicas of rule groups through GRPCClient.Rules
	n = c.N(1500, 60000)
	for i := 0; i < n; i++ {
		nrepl := r.Intn(3)
		repl := []string{"replica", "rep2"}[:nrepl]
		// base rules, each emitted by 1..3 replicas (different replica labels, states, evaluation times)
		ngroups := r.Range(1, 3)
		var groups []string
		universe := map[string]bool{"": true}
		total := 0
		for g := 0; g < ngroups; g++ {
			file := r.Pick([]string{"f1", "f2", "f;x"})
			name := r.Pick([]string{"g1", "g2", "x;g1"})
			nbase := r.Range(0, 3)
			var base []c45Rule
			for b := 0; b < nbase; b++ {
				base = append(base, c45Rule{alert: r.Bool(), name: r.Pick([]string{"r1", "r2", "up"}), query: r.Pick([]string{"up", "up == 0"}),
					dur: []int64{0, 60, 300}[r.Intn(3)], labels: c45GenLabels(c, false, false)})
			}
			copies := r.Range(1, 3)
			for k := 0; k < copies; k++ {
				parts := []string{hlib.HexS(file), hlib.HexS(name)}
				for _, b := range base {
					if r.Chance(1, 6) {
						continue // this replica does not have the rule
					}
					rr := b
					rr.state = r.Intn(3)
					rr.lastEval = int64(1600000000 + r.Intn(4))
					rr.labels = append([]c45Label(nil), b.labels...)
					if r.Chance(4, 5) {
						rr.labels = append(rr.labels, c45Label{"replica", strconv.Itoa(k), "p"})
					}
					if r.Chance(1, 4) {
						rr.labels = append(rr.labels, c45Label{"rep2", strconv.Itoa(r.Intn(2)), "p"})
					}
					kind, st, d := "r", 0, int64(0)
					if rr.alert {
						kind, st, d = "a", rr.state, rr.dur
					}
					for _, l := range rr.labels {
						universe[l.value] = true
					}
					total++
					parts = append(parts, fmt.Sprintf("%s:%s:%s:%d:%d:%d:%s", kind, hlib.HexS(rr.name), hlib.HexS(rr.query), d, st, rr.lastEval, c45ShowLabels(rr.labels)))
				}
				groups = append(groups, strings.Join(parts, "/"))
			}
		}
		// shuffle group order (store responses arrive in any order)
		p := r.Perm(len(groups))
		sh := make([]string, len(groups))
		for i, j := range p {
			sh[i] = groups[j]
		}
		nsets := []int{0, 1, 1, 2, 2, 3}[r.Intn(6)]
		c.Count(fmt.Sprintf("rules:sets=%d", nsets))
		c.Count(fmt.Sprintf("rules:repl=%d", nrepl))
		c.Count(fmt.Sprintf("rules:rules=%d", total/4*4))
		sels := hlib.Split(c45GenSets(c, universe, false, nsets), ";")
		// the request strings: repeated selectors (byte-identical twice / three times, the same set with
		// extra white space, the same set with its matchers in another order), the empty set {} and the
		// empty string as separate cases
		if len(sels) > 0 {
			switch r.Intn(12) {
			case 0, 1:
				k := r.Intn(len(sels))
				sels = append(sels, sels[k])
				c.Count("rules:selector-repeated-twice")
			case 2:
				k := r.Intn(len(sels))
				sels = append(sels, sels[k], sels[k])
				c.Count("rules:selector-repeated-three-times")
			case 3:
				k := r.Intn(len(sels))
				sels = append(sels, "w"+sels[k])
				c.Count("rules:selector-repeated-with-white-space")
			case 4:
				k := r.Intn(len(sels))
				ms := strings.Split(sels[k], ",")
				for a, b := 0, len(ms)-1; a < b; a, b = a+1, b-1 {
					ms[a], ms[b] = ms[b], ms[a]
				}
				sels = append(sels, strings.Join(ms, ","))
				c.Count("rules:selector-repeated-other-matcher-order")
			case 5:
				sels = append(sels, "e")
				c.Count("rules:empty-set-selector")
			case 6:
				if r.Chance(1, 2) {
					sels = append(sels, "E")
					c.Count("rules:empty-string-selector")
				}
			}
			if len(sels) > 1 {
				p := r.Perm(len(sels))
				sh2 := make([]string, len(sels))
				for i, j := range p {
					sh2[i] = sels[j]
				}
				sels = sh2
			}
		} else if r.Chance(1, 20) {
			sels = []string{r.Pick([]string{"e", "E"})}
			c.Count("rules:only-empty-selector")
		}
		c.Do("rules.rules "+hlib.Join(mapHex(repl), ",")+" "+hlib.Join(sels, ";")+" "+hlib.Join(sh, "|"), total > 0)
	}
}

func mapHex(xs []string) []string {
	out := make([]string, len(xs))
	for i, x := range xs {
		out[i] = hlib.HexS(x)
	}
	return out
}
