package main

import (
	"fmt"
	"runtime"
	"strconv"
	"strings"
	"sync"
	"time"

	"github.com/prometheus/client_golang/prometheus"
	dto "github.com/prometheus/client_model/go"
	"github.com/prometheus/common/model"
	"github.com/prometheus/prometheus/model/labels"
	"github.com/prometheus/prometheus/model/relabel"
	"github.com/prometheus/prometheus/notifier"

	"github.com/thanos-io/thanos/pkg/alert"
	"github.com/thanos-io/thanos/verifharness/hlib"
)

// C46 — the alert queue is a bounded FIFO that never loses a wake-up.
//
// ops (grammar also at the top of lean/Thanos/Driver/Misc.lean):
//   aq.run <cap> <maxBatch> <items>                     -> <events> len=<n> tok=<0|1>  |  bad-schedule
//     items  = item{;item} | -
//     item   = P<alerts>          a synchronous Push
//            | O                  a synchronous Pop; `blocked` when there is no token (ended through termc)
//            | W                  a popper left waiting on the channel when there is no token; the next Push
//                                 that sends hands the token over and the popper runs
//            | K<alerts>          a Pop (token present) parked inside its body right after it cut its batch (at the
//                                 q.popped counter, replaced by a gate through the VerifPopped hook) while a Push
//                                 of <alerts> is started; the harness waits until the Push has finished or is
//                                 parked on the mutex, then lets the Pop go on
//            | R<elem>{/<elem>}   a round: the harness holds the queue's mutex, the elements queue up on it
//                                 in this order (sync.Mutex wakes waiters first-in first-out and nobody else
//                                 contends) and run in this order once it is released;
//                                 elem = p<alerts> (a pusher) | g (a popper: it receives the token when it is
//                                 started, i.e. BEFORE any element of the round runs; at most one per round)
//     alerts = id.keep{,id.keep} | -       keep = 1|0: does relabelling keep the alert (label drop="1" is dropped)
//     events = per pop body, in the order they ran: b<id>{,<id>} | b- | blocked | wblocked, joined by ";"
//   o.aq.stress <cap> <maxBatch> <pushers> <poppers> <pushes> <perPush> <seed>   -> ok | <what failed>
//     free-running goroutines on the real queue (no schedule control); oracle only.
//
// Oracle (independent of the model): the batches equal those of a reference bounded FIFO (append, drop from
// the front while over capacity, pop up to maxBatch from the front) driven in the same order; batches <= maxBatch; the popped alerts, in pop order, are a
// subsequence of the kept pushed alerts in push order (no duplicate, nothing invented); Len() <= cap
// after every step; at the end "alerts queued => token present" (nobody is between receive and
// body then), and the queue can actually be drained without blocking; popped + dropped + left =
// kept, with dropped read from the queue's own counter.

func init() {
	props = append(props, &hlib.Prop{ID: "C46", Gen: genC46, Exec: execC46})
}

type c46Alert struct {
	id   int
	keep bool
}

func c46ParseAlerts(s string) ([]c46Alert, bool) {
	var out []c46Alert
	for _, t := range hlib.Split(s, ",") {
		p := strings.Split(t, ".")
		if len(p) != 2 || (p[1] != "0" && p[1] != "1") {
			return nil, false
		}
		id, err := strconv.Atoi(p[0])
		if err != nil || id < 0 {
			return nil, false
		}
		out = append(out, c46Alert{id, p[1] == "1"})
	}
	return out, true
}

func c46MkAlerts(as []c46Alert) []*notifier.Alert {
	out := make([]*notifier.Alert, len(as))
	for i, a := range as {
		d := "0"
		if !a.keep {
			d = "1"
		}
		out[i] = &notifier.Alert{Labels: labels.FromStrings("alertname", strconv.Itoa(a.id), "drop", d, "excl", "x")}
	}
	return out
}

func c46NewQueue(cap, maxBatch int) (*alert.Queue, *prometheus.Registry) {
	reg := prometheus.NewRegistry()
	rc := &relabel.Config{
		SourceLabels:         model.LabelNames{"drop"},
		Separator:            ";",
		Regex:                relabel.MustNewRegexp("1"),
		Action:               relabel.Drop,
		NameValidationScheme: model.UTF8Validation,
	}
	q := alert.NewQueue(nil, reg, cap, maxBatch, labels.FromStrings("ext", "e", "excl", "y"), []string{"excl"}, []*relabel.Config{rc})
	return q, reg
}

func c46Counter(reg *prometheus.Registry, name string) int {
	mfs, _ := reg.Gather()
	for _, mf := range mfs {
		if mf.GetName() == name && mf.GetType() == dto.MetricType_COUNTER {
			return int(mf.Metric[0].GetCounter().GetValue())
		}
	}
	return -1
}

var c46StackBuf = make([]byte, 1<<18)

// c46Goroutines counts the goroutines whose stack contains fn and whose wait state starts with state.
func c46Goroutines(fn, state string) int {
	buf := c46StackBuf
	n := runtime.Stack(buf, true)
	cnt := 0
	for _, g := range strings.Split(string(buf[:n]), "\n\n") {
		hdr, _, _ := strings.Cut(g, "\n")
		i := strings.Index(hdr, "[")
		if i < 0 || !strings.HasPrefix(hdr[i+1:], state) {
			continue
		}
		if strings.Contains(g, fn) {
			cnt++
		}
	}
	return cnt
}

func c46Wait(cond func() bool) bool {
	deadline := time.Now().Add(5 * time.Second)
	for i := 0; ; i++ {
		if cond() {
			return true
		}
		if time.Now().After(deadline) {
			return false
		}
		if i < 20 {
			runtime.Gosched()
		} else {
			time.Sleep(50 * time.Microsecond)
		}
	}
}

const (
	c46Pop  = "pkg/alert.(*Queue).Pop"
	c46Push = "pkg/alert.(*Queue).Push"
)

// c46Gate is the queue's "popped" counter with a parking place: when armed, the next Add parks its
// caller until released.  It adds nothing to what Pop does.
type c46Gate struct {
	prometheus.Counter
	mu      sync.Mutex
	armed   bool
	entered chan struct{}
	release chan struct{}
}

func (g *c46Gate) Add(v float64) {
	g.Counter.Add(v)
	g.mu.Lock()
	armed := g.armed
	g.armed = false
	ent, rel := g.entered, g.release
	g.mu.Unlock()
	if armed {
		close(ent)
		<-rel
	}
}

func (g *c46Gate) arm() (entered, release chan struct{}) {
	g.mu.Lock()
	defer g.mu.Unlock()
	g.armed, g.entered, g.release = true, make(chan struct{}), make(chan struct{})
	return g.entered, g.release
}

type c46Run struct {
	q        *alert.Queue
	mu       *sync.Mutex
	morec    chan struct{}
	evMu     sync.Mutex
	events   []string
	popped   []int
	maxBatch int
	tooBig   bool
}

func (r *c46Run) record(as []*notifier.Alert, nilWord string) {
	r.evMu.Lock()
	defer r.evMu.Unlock()
	if as == nil {
		r.events = append(r.events, nilWord)
		return
	}
	if len(as) > r.maxBatch {
		r.tooBig = true
	}
	ids := make([]string, len(as))
	for i, a := range as {
		id, _ := strconv.Atoi(a.Labels.Get("alertname"))
		ids[i] = strconv.Itoa(id)
		r.popped = append(r.popped, id)
	}
	r.events = append(r.events, "b"+hlib.Join(ids, ","))
}

func execC46(c *hlib.Ctx, tok []string) string {
	if len(tok) == 0 {
		return "bad-op"
	}
	switch tok[0] {
	case "aq.run":
		return c46ExecRun(c, tok)
	case "o.aq.stress":
		return c46ExecStress(c, tok)
	}
	return "bad-op"
}

func c46ExecRun(c *hlib.Ctx, tok []string) string {
	if len(tok) != 4 {
		return "bad-op"
	}
	cap, e1 := strconv.Atoi(tok[1])
	mb, e2 := strconv.Atoi(tok[2])
	if e1 != nil || e2 != nil || cap < 0 || mb < 0 {
		return "bad-op"
	}
	q, reg := c46NewQueue(cap, mb)
	r := &c46Run{q: q, mu: alert.VerifMutex(q), morec: alert.VerifMorec(q), maxBatch: mb}
	gate := &c46Gate{Counter: *alert.VerifPopped(q)}
	*alert.VerifPopped(q) = gate
	var kept []int // what relabelling keeps, in push order
	// reference bounded FIFO (the specification, not the code's two truncation rules): append, then
	// drop from the front while over capacity; a pop takes up to maxBatch from the front
	var ref []int
	var refBatches []string
	refPush := func(as []c46Alert) {
		for _, a := range as {
			if a.keep {
				ref = append(ref, a.id)
			}
		}
		for len(ref) > cap {
			ref = ref[1:]
		}
	}
	refPop := func() {
		n := min(mb, len(ref))
		ids := make([]string, n)
		for i := 0; i < n; i++ {
			ids[i] = strconv.Itoa(ref[i])
		}
		ref = ref[n:]
		refBatches = append(refBatches, "b"+hlib.Join(ids, ","))
	}
	var waitDone chan struct{}
	var waitTerm chan struct{}
	// a popper left waiting is always released, also when the schedule is abandoned half-way
	// (otherwise it would sit in its select for the rest of the process and confuse later ops)
	stopWaiter := func() {
		if waitDone != nil {
			close(waitTerm)
			<-waitDone
			waitDone, waitTerm = nil, nil
		}
	}
	defer stopWaiter()
	capExceeded := false
	checkLen := func() {
		if q.Len() > cap {
			capExceeded = true
		}
	}
	keepIDs := func(as []c46Alert) {
		for _, a := range as {
			if a.keep {
				kept = append(kept, a.id)
			}
		}
	}
	syncPop := func() bool { // token present: Pop returns at once
		done := make(chan struct{})
		go func() { r.record(q.Pop(nil), "nil"); close(done) }()
		select {
		case <-done:
			return true
		case <-time.After(5 * time.Second):
			return false
		}
	}
	for _, it := range hlib.Split(tok[3], ";") {
		switch {
		case it == "O" || it == "W":
			if waitDone != nil {
				return "bad-schedule"
			}
			if len(r.morec) == 1 {
				if !syncPop() {
					return "hang"
				}
				refPop()
				break
			}
			term := make(chan struct{})
			done := make(chan struct{})
			word := "blocked"
			if it == "W" {
				word = "wblocked"
			}
			go func() { r.record(q.Pop(term), word); close(done) }()
			if !c46Wait(func() bool { return c46Goroutines(c46Pop, "select") == 1 }) {
				return "hang"
			}
			if it == "O" {
				close(term)
				<-done
			} else {
				waitDone, waitTerm = done, term
			}
		case strings.HasPrefix(it, "K"):
			as, ok := c46ParseAlerts(it[1:])
			if !ok {
				return "bad-op"
			}
			if waitDone != nil || len(r.morec) == 0 {
				return "bad-schedule"
			}
			entered, release := gate.arm()
			popDone := make(chan struct{})
			go func() { r.record(q.Pop(nil), "nil"); close(popDone) }()
			select {
			case <-entered:
			case <-time.After(5 * time.Second):
				return "hang"
			}
			refPop()
			keepIDs(as)
			refPush(as)
			pushDone := make(chan struct{})
			go func() { q.Push(c46MkAlerts(as)); close(pushDone) }()
			// the Push either runs to its end (Pop does not hold the mutex here) or parks on the mutex
			finished := false
			if !c46Wait(func() bool {
				select {
				case <-pushDone:
					finished = true
					return true
				default:
					return c46Goroutines(c46Push, "sync.Mutex.Lock") == 1
				}
			}) {
				close(release)
				return "hang"
			}
			if finished && len(as) > 0 {
				c.Count("pop-body-not-under-mutex")
			}
			close(release)
			for _, d := range []chan struct{}{popDone, pushDone} {
				select {
				case <-d:
				case <-time.After(5 * time.Second):
					return "hang"
				}
			}
		case strings.HasPrefix(it, "P"):
			as, ok := c46ParseAlerts(it[1:])
			if !ok {
				return "bad-op"
			}
			keepIDs(as)
			refPush(as)
			q.Push(c46MkAlerts(as))
			if waitDone != nil {
				// either the waiting popper got the token inside Push and finishes, or it still waits
				woken := false
				if !c46Wait(func() bool {
					select {
					case <-waitDone:
						woken = true
						return true
					default:
						return c46Goroutines(c46Pop, "select") == 1
					}
				}) {
					return "hang"
				}
				if woken {
					waitDone, waitTerm = nil, nil
					refPop()
				}
			}
		case strings.HasPrefix(it, "R"):
			if waitDone != nil {
				return "bad-schedule"
			}
			elems := strings.Split(it[1:], "/")
			ng := 0
			for _, e := range elems {
				if e == "g" {
					ng++
				}
			}
			if ng > 1 || (ng == 1 && len(r.morec) == 0) {
				return "bad-schedule"
			}
			var dones []chan struct{}
			r.mu.Lock()
			queued := 0
			bad := false
			if ng == 1 {
				// the popper receives now, before anything of the round runs, and queues at its place
			}
			for _, e := range elems {
				done := make(chan struct{})
				dones = append(dones, done)
				if e == "g" {
					go func() { r.record(q.Pop(nil), "nil"); close(done) }()
					queued++
					refPop()
				} else if strings.HasPrefix(e, "p") {
					as, ok := c46ParseAlerts(e[1:])
					if !ok {
						bad = true
						close(done)
						break
					}
					keepIDs(as)
					refPush(as)
					go func() { q.Push(c46MkAlerts(as)); close(done) }()
					if len(as) > 0 {
						queued++ // an empty push returns before it locks
					}
				} else {
					bad = true
					close(done)
					break
				}
				n := queued
				if !c46Wait(func() bool { return c46Goroutines("pkg/alert.(*Queue).P", "sync.Mutex.Lock") == n }) {
					r.mu.Unlock()
					return "hang"
				}
			}
			r.mu.Unlock()
			for _, d := range dones {
				select {
				case <-d:
				case <-time.After(5 * time.Second):
					return "hang"
				}
			}
			if bad {
				return "bad-op"
			}
		default:
			return "bad-op"
		}
		checkLen()
	}
	stopWaiter()
	finalLen, finalTok := q.Len(), len(r.morec)
	answer := fmt.Sprintf("%s len=%d tok=%d", hlib.Join(r.events, ";"), finalLen, finalTok)

	// ---- oracle
	var gotBatches []string
	for _, e := range r.events {
		if strings.HasPrefix(e, "b") && e != "blocked" {
			gotBatches = append(gotBatches, e)
		}
	}
	if strings.Join(gotBatches, ";") != strings.Join(refBatches, ";") {
		c.Violation("not-a-bounded-fifo", fmt.Sprintf("batches %v, a FIFO of capacity %d that drops its oldest entries gives %v", gotBatches, cap, refBatches))
	}
	if r.tooBig {
		c.Violation("batch-too-big", fmt.Sprintf("a popped batch is larger than maxBatchSize %d", mb))
	}
	if capExceeded || finalLen > cap {
		c.Violation("capacity-exceeded", fmt.Sprintf("the queue holds more than its capacity %d", cap))
	}
	if finalLen > 0 && finalTok == 0 {
		c.Violation("lost-wakeup", fmt.Sprintf("%d alerts are queued, nobody is inside Pop and the channel holds no token: a waiting sender sleeps forever", finalLen))
	}
	// drain what is left (must not block while alerts are queued), then conservation and order
	popped := append([]int(nil), r.popped...)
	for q.Len() > 0 && mb > 0 {
		before := len(r.popped)
		if len(r.morec) == 0 {
			break // reported above
		}
		if !syncPop() {
			c.Violation("lost-wakeup", "Pop blocks although alerts are queued")
			break
		}
		if len(r.popped) == before {
			continue
		}
	}
	r.evMu.Lock()
	popped = append([]int(nil), r.popped...)
	r.evMu.Unlock()
	j := 0
	for _, id := range popped {
		for j < len(kept) && kept[j] != id {
			j++
		}
		if j == len(kept) {
			c.Violation("order-or-duplicate", fmt.Sprintf("popped alerts %v are not a subsequence of the kept pushed alerts %v", popped, kept))
			break
		}
		j++
	}
	dropped := c46Counter(reg, "thanos_alert_queue_alerts_dropped_total")
	if mb > 0 && len(popped)+dropped+q.Len() != len(kept) {
		c.Violation("conservation", fmt.Sprintf("popped %d + dropped %d + left %d != kept %d", len(popped), dropped, q.Len(), len(kept)))
	}
	return answer
}

// c46ExecStress: free-running pushers and poppers on the real queue.
func c46ExecStress(c *hlib.Ctx, tok []string) string {
	if len(tok) != 8 {
		return "bad-op"
	}
	var v [7]int
	for i := range v {
		x, err := strconv.Atoi(tok[i+1])
		if err != nil || x < 0 {
			return "bad-op"
		}
		v[i] = x
	}
	cap, mb, pushers, poppers, pushes, perPush, seed := v[0], v[1], v[2], v[3], v[4], v[5], v[6]
	if mb == 0 || poppers == 0 {
		return "bad-op"
	}
	q, reg := c46NewQueue(cap, mb)
	morec := alert.VerifMorec(q)
	term := make(chan struct{})
	var mu sync.Mutex
	var popped []int
	tooBig := false
	var wgPop, wgPush sync.WaitGroup
	for i := 0; i < poppers; i++ {
		wgPop.Add(1)
		go func() {
			defer wgPop.Done()
			for {
				as := q.Pop(term)
				if as == nil {
					return
				}
				mu.Lock()
				if len(as) > mb {
					tooBig = true
				}
				for _, a := range as {
					id, _ := strconv.Atoi(a.Labels.Get("alertname"))
					popped = append(popped, id)
				}
				mu.Unlock()
			}
		}()
	}
	kept := 0
	for p := 0; p < pushers; p++ {
		rnd := hlib.NewRand(uint64(seed)*1000003 + uint64(p))
		var batches [][]c46Alert
		for k := 0; k < pushes; k++ {
			var as []c46Alert
			for a := 0; a < perPush; a++ {
				keep := !rnd.Chance(1, 5)
				if keep {
					kept++
				}
				as = append(as, c46Alert{p*1000000 + k*1000 + a, keep})
			}
			batches = append(batches, as)
		}
		wgPush.Add(1)
		go func() {
			defer wgPush.Done()
			for _, as := range batches {
				q.Push(c46MkAlerts(as))
				if rnd.Chance(1, 3) {
					runtime.Gosched()
				}
			}
		}()
	}
	wgPush.Wait()
	// quiescence: the poppers must drain everything that was not dropped
	ok := c46Wait(func() bool {
		mu.Lock()
		n := len(popped)
		mu.Unlock()
		return n+c46Counter(reg, "thanos_alert_queue_alerts_dropped_total") == kept && q.Len() == 0
	})
	res := "ok"
	if !ok {
		mu.Lock()
		n := len(popped)
		mu.Unlock()
		dropped := c46Counter(reg, "thanos_alert_queue_alerts_dropped_total")
		if q.Len() > 0 {
			c.Violation("lost-wakeup", fmt.Sprintf("%d alerts stay queued while %d poppers wait (token=%d)", q.Len(), poppers, len(morec)))
			res = "stuck"
		} else {
			c.Violation("conservation", fmt.Sprintf("popped %d + dropped %d != kept %d", n, dropped, kept))
			res = "lost"
		}
	}
	close(term)
	wgPop.Wait()
	if tooBig {
		c.Violation("batch-too-big", "a popped batch is larger than maxBatchSize")
		res = "batch"
	}
	// per pusher, alerts leave in push order when there is one popper
	seen := map[int]bool{}
	last := map[int]int{}
	for _, id := range popped {
		if seen[id] {
			c.Violation("order-or-duplicate", fmt.Sprintf("alert %d popped twice", id))
			res = "dup"
			break
		}
		seen[id] = true
		p := id / 1000000
		if poppers == 1 {
			if l, ok := last[p]; ok && l > id {
				c.Violation("order-or-duplicate", fmt.Sprintf("alert %d of pusher %d popped after %d", id, p, l))
				res = "order"
				break
			}
			last[p] = id
		}
	}
	if q.Len() > cap {
		c.Violation("capacity-exceeded", "Len() > capacity")
	}
	return res
}

// ---------------------------------------------------------------- generator

func c46GenAlerts(c *hlib.Ctx, next *int, cap int) string {
	r := c.R
	var n int
	switch r.Intn(8) {
	case 0:
		n = 0
	case 1:
		n = cap + r.Range(1, 3) // larger than the capacity
	case 2:
		n = cap
	default:
		n = r.Range(1, cap/2+2)
	}
	dropMode := r.Intn(6) // 0: relabelling drops everything
	var as []string
	for i := 0; i < n; i++ {
		k := "1"
		if dropMode == 0 || (dropMode == 1 && r.Chance(1, 3)) {
			k = "0"
		}
		as = append(as, fmt.Sprintf("%d.%s", *next, k))
		*next++
	}
	return hlib.Join(as, ",")
}

func genC46(c *hlib.Ctx) {
	r := c.R
	n := c.N(500, 15000)
	for i := 0; i < n; i++ {
		cap := []int{0, 1, 2, 3, 4, 5, 8}[r.Intn(7)]
		mb := []int{1, 1, 2, 3, 10}[r.Intn(5)]
		if r.Chance(1, 25) {
			mb = 0
		}
		next := 1
		// the generator tracks two bits of its own to stay inside the realisable schedules; when it
		// is wrong the real queue answers bad-schedule and the model disagrees
		tok, qlen, waiting := false, 0, false
		var items []string
		steps := r.Range(1, 12)
		for s := 0; s < steps; s++ {
			choice := r.Intn(10)
			switch {
			case waiting || choice < 4:
				a := c46GenAlerts(c, &next, cap)
				items = append(items, "P"+a)
				kept := 0
				for _, t := range hlib.Split(a, ",") {
					if strings.HasSuffix(t, ".1") {
						kept++
					}
				}
				if kept > 0 {
					qlen = min(cap, qlen+kept)
					tok = true
					if waiting {
						waiting = false
						qlen -= min(qlen, mb)
						tok = qlen > 0
						c.Count("item:W-woken")
					}
				}
				c.Count("item:P")
			case choice < 5 && tok:
				// a Push arriving while a Pop is inside its body
				a := c46GenAlerts(c, &next, cap)
				items = append(items, "K"+a)
				qlen -= min(qlen, mb)
				tok = qlen > 0
				kept := 0
				for _, t := range hlib.Split(a, ",") {
					if strings.HasSuffix(t, ".1") {
						kept++
					}
				}
				if kept > 0 {
					qlen = min(cap, qlen+kept)
					tok = true
				}
				c.Count("item:K")
			case choice < 6:
				items = append(items, "O")
				if tok {
					qlen -= min(qlen, mb)
					tok = qlen > 0
					c.Count("item:O")
				} else {
					c.Count("item:O-blocked")
				}
			case choice < 7:
				items = append(items, "W")
				if tok {
					qlen -= min(qlen, mb)
					tok = qlen > 0
				} else {
					waiting = true
				}
				c.Count("item:W")
			default:
				ne := r.Range(1, 4)
				gpos := -1
				if tok && r.Chance(3, 4) {
					gpos = r.Intn(ne + 1)
				}
				var es []string
				hadTok := tok
				if gpos >= 0 {
					tok = false
				}
				addG := func() {
					es = append(es, "g")
					qlen -= min(qlen, mb)
					if qlen > 0 {
						tok = true
					}
				}
				for e := 0; e < ne; e++ {
					if e == gpos {
						addG()
					}
					a := c46GenAlerts(c, &next, cap)
					es = append(es, "p"+a)
					kept := 0
					for _, t := range hlib.Split(a, ",") {
						if strings.HasSuffix(t, ".1") {
							kept++
						}
					}
					if kept > 0 {
						qlen = min(cap, qlen+kept)
						tok = true
					}
				}
				if gpos == ne {
					addG()
				}
				_ = hadTok
				if len(es) == 0 {
					es = append(es, "p-")
				}
				items = append(items, "R"+strings.Join(es, "/"))
				if gpos >= 0 {
					c.Count("item:R-with-popper")
				} else {
					c.Count("item:R")
				}
			}
		}
		c.Count(fmt.Sprintf("run:cap=%d", cap))
		out := c.Do(fmt.Sprintf("aq.run %d %d %s", cap, mb, hlib.Join(items, ";")), true)
		if strings.Contains(out, "blocked") {
			c.Count("run:some-pop-blocked")
		}
		if strings.HasPrefix(out, "bad") || out == "hang" {
			c.Count("run:" + out)
		}
	}
	// ---- free-running stress (oracle only)
	n = c.N(30, 300)
	for i := 0; i < n; i++ {
		cap := []int{1, 4, 50, 10000}[r.Intn(4)]
		mb := []int{1, 2, 7, 100}[r.Intn(4)]
		c.Do(fmt.Sprintf("o.aq.stress %d %d %d %d %d %d %d", cap, mb, r.Range(1, 4), r.Range(1, 3), r.Range(1, 40), r.Range(1, 6), r.Intn(1<<30)), true)
		c.Count("stress")
	}
}
