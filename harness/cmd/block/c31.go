package main

// C31 — only blocks fully covered by another block are hidden as duplicates.
//
// op:  dd.filter <metas>
//        metas = <ulid>:<group>:<level>:<src>,<src>,… ; …    ulid = <time> | <time>e<entropy> (ULID with that timestamp and
//                                                    that entropy: blocks minted in the same millisecond differ in
//                                                    entropy only); the answer names a block time*1000+entropy;
//                                                    sources are small numbers; group = number of the compaction group
//                                                    (labels {"g": group/3}, resolution [0,5m,1h][group%3]);
//                                                    sources "-" = empty list
// answer: kept=<ids ascending> dups=<ids ascending>
//
// Exec runs block.NewDeduplicateFilter(c).Filter for c ∈ {1,2,8} on freshly built maps (Go map
// iteration order differs from run to run) and answers with the result of the first run.
//
// oracle:
//   hidden-not-covered   a hidden block has no kept block of the same group whose sources include all of its sources
//   sources-lost         some source of some block is a source of no kept block
//   order-dependent-outcome  two runs (other concurrency / other Go map order) disagree
//   dupids-mismatch      DuplicateIDs() is not exactly the set of blocks removed from the map

import (
	"context"
	"fmt"
	"sort"
	"strconv"
	"strings"

	"github.com/oklog/ulid/v2"
	"github.com/prometheus/client_golang/prometheus"
	"github.com/prometheus/prometheus/tsdb"

	"github.com/thanos-io/thanos/pkg/block"
	"github.com/thanos-io/thanos/pkg/block/metadata"
	"github.com/thanos-io/thanos/pkg/extprom"
	"github.com/thanos-io/thanos/verifharness/hlib"
)

func init() {
	props = append(props, &hlib.Prop{ID: "C31", Gen: genC31, Exec: execC31})
}

type ddMeta struct {
	id, group, level int // id = t*1000 + e
	t, e             int
	sources          []int
}

// ddULID: timestamp 1000+t, entropy e (big-endian in the last bytes) — ULID.Compare = (t, e) lexicographic.
func ddULID(t, e int) ulid.ULID {
	var ent [10]byte
	ent[9], ent[8] = byte(e), byte(e>>8)
	var id ulid.ULID
	_ = id.SetTime(uint64(1000 + t))
	_ = id.SetEntropy(ent[:])
	return id
}

func ddNum(id ulid.ULID) int {
	ent := id.Entropy()
	return (int(id.Time())-1000)*1000 + int(ent[8])<<8 + int(ent[9])
}

func parseDDMetas(s string) ([]ddMeta, bool) {
	var out []ddMeta
	seen := map[int]bool{}
	for _, t := range hlib.Split(s, ";") {
		p := strings.Split(t, ":")
		if len(p) != 4 {
			return nil, false
		}
		te := strings.SplitN(p[0], "e", 2)
		tt, e1 := strconv.Atoi(te[0])
		ee := 0
		var e0 error
		if len(te) == 2 {
			ee, e0 = strconv.Atoi(te[1])
		}
		id := tt*1000 + ee
		g, e2 := strconv.Atoi(p[1])
		lv, e3 := strconv.Atoi(p[2])
		if e0 != nil || e1 != nil || e2 != nil || e3 != nil || tt < 0 || tt > 60000 || ee < 0 || ee > 999 || g < 0 || g > 1000 || lv < 0 || lv > 100 || seen[id] {
			return nil, false
		}
		seen[id] = true
		m := ddMeta{id: id, t: tt, e: ee, group: g, level: lv}
		for _, x := range hlib.Split(p[3], ",") {
			v, err := strconv.Atoi(x)
			if err != nil || v < 0 || v > 60000 {
				return nil, false
			}
			m.sources = append(m.sources, v)
		}
		out = append(out, m)
	}
	return out, true
}

var ddResolutions = []int64{0, 300000, 3600000}

func buildDDMap(ms []ddMeta, order []int) map[ulid.ULID]*metadata.Meta {
	out := make(map[ulid.ULID]*metadata.Meta, len(ms))
	for _, i := range order {
		m := ms[i]
		var src []ulid.ULID
		for _, s := range m.sources {
			src = append(src, testULID(s))
		}
		out[ddULID(m.t, m.e)] = &metadata.Meta{
			BlockMeta: tsdb.BlockMeta{ULID: ddULID(m.t, m.e), Version: 1, Compaction: tsdb.BlockMetaCompaction{Level: m.level, Sources: src}},
			Thanos: metadata.Thanos{Labels: map[string]string{"g": strconv.Itoa(m.group / 3)},
				Downsample: metadata.ThanosDownsample{Resolution: ddResolutions[m.group%3]}},
		}
	}
	return out
}

func ulidNum(id ulid.ULID) int { return int(id.Time()) - 1000 }

type ddResult struct{ kept, dups []int }

func (r ddResult) String() string {
	f := func(xs []int) string {
		ss := make([]string, len(xs))
		for i, x := range xs {
			ss[i] = strconv.Itoa(x)
		}
		return hlib.Join(ss, ",")
	}
	return "kept=" + f(r.kept) + " dups=" + f(r.dups)
}

func runDDFilter(ms []ddMeta, conc int, order []int) (ddResult, string) {
	metas := buildDDMap(ms, order)
	f := block.NewDeduplicateFilter(conc)
	synced := extprom.NewTxGaugeVec(nil, prometheus.GaugeOpts{Name: "x"}, []string{"state"})
	if err := f.Filter(context.Background(), metas, synced, nil); err != nil {
		return ddResult{}, "error: " + err.Error()
	}
	var r ddResult
	for id := range metas {
		r.kept = append(r.kept, ddNum(id))
	}
	for _, id := range f.DuplicateIDs() {
		r.dups = append(r.dups, ddNum(id))
	}
	sort.Ints(r.kept)
	sort.Ints(r.dups)
	// DuplicateIDs() must be exactly the removed blocks
	removed := map[int]bool{}
	for _, m := range ms {
		removed[m.id] = true
	}
	for _, k := range r.kept {
		delete(removed, k)
	}
	msg := ""
	if len(removed) != len(r.dups) {
		msg = fmt.Sprintf("removed %d blocks, DuplicateIDs has %d", len(removed), len(r.dups))
	}
	for _, d := range r.dups {
		if !removed[d] {
			msg = fmt.Sprintf("DuplicateIDs contains %d which was not removed (or twice)", d)
		}
		delete(removed, d)
	}
	return r, msg
}

func subsetInts(a, b []int) bool { // every element of a in b
	set := map[int]bool{}
	for _, x := range b {
		set[x] = true
	}
	for _, x := range a {
		if !set[x] {
			return false
		}
	}
	return true
}

func execC31(c *hlib.Ctx, tok []string) string {
	if len(tok) != 2 || tok[0] != "dd.filter" {
		return "bad-op"
	}
	ms, ok := parseDDMetas(tok[1])
	if !ok {
		return "bad-op"
	}
	// sanity of the encoding: equal group numbers <=> equal GroupKey()
	keys := map[int]string{}
	rev := map[string]int{}
	for _, m := range buildDDMap(ms, identity(len(ms))) {
		g := -1
		for _, x := range ms {
			if ddULID(x.t, x.e) == m.ULID {
				g = x.group
			}
		}
		k := m.Thanos.GroupKey()
		if old, ok := keys[g]; ok && old != k {
			return "bad-op"
		}
		if og, ok := rev[k]; ok && og != g {
			return "bad-op"
		}
		keys[g], rev[k] = k, g
	}
	first, msg := runDDFilter(ms, 1, identity(len(ms)))
	if msg != "" {
		c.Violation("dupids-mismatch", msg)
	}
	byID := map[int]ddMeta{}
	for _, m := range ms {
		byID[m.id] = m
	}
	keptSet := map[int]bool{}
	for _, k := range first.kept {
		keptSet[k] = true
	}
	for _, d := range first.dups {
		h := byID[d]
		covered := false
		for _, k := range first.kept {
			p := byID[k]
			if p.group == h.group && subsetInts(h.sources, p.sources) {
				covered = true
				break
			}
		}
		if !covered {
			c.Violation("hidden-not-covered", fmt.Sprintf("block %d (group %d, sources %v) hidden, no kept block of its group covers it", d, h.group, h.sources))
		}
	}
	keptSources := map[int]bool{}
	for _, k := range first.kept {
		for _, s := range byID[k].sources {
			keptSources[s] = true
		}
	}
	for _, m := range ms {
		for _, s := range m.sources {
			if !keptSources[s] {
				c.Violation("sources-lost", fmt.Sprintf("source %d of block %d is in no kept block", s, m.id))
			}
		}
	}
	concs := []int{2, 8, 1}
	sameTime := map[int]int{}
	for _, m := range ms {
		sameTime[m.t]++
	}
	for _, n := range sameTime {
		if n > 1 { // blocks minted in the same millisecond: more runs, Go's map order differs from run to run
			concs = []int{2, 8, 1, 1, 2, 8, 1, 2, 8, 1}
			c.Count("same-timestamp-line")
			break
		}
	}
	for i, conc := range concs {
		perm := c.R.Perm(len(ms))
		if i == 2 { // reversed insertion order
			for a := range perm {
				perm[a] = len(perm) - 1 - a
			}
		}
		r, msg := runDDFilter(ms, conc, perm)
		if msg != "" {
			c.Violation("dupids-mismatch", msg)
		}
		if r.String() != first.String() {
			c.Violation("order-dependent-outcome", fmt.Sprintf("the same blocks, listed again (concurrency %d): %s; first run (concurrency 1): %s", conc, r, first))
		}
	}
	c.Count(fmt.Sprintf("dups:%d", min(len(first.dups), 5)))
	return first.String()
}

func identity(n int) []int {
	p := make([]int, n)
	for i := range p {
		p[i] = i
	}
	return p
}

func showDDMetas(ms []ddMeta) string {
	var parts []string
	for _, m := range ms {
		ss := make([]string, len(m.sources))
		for i, s := range m.sources {
			ss[i] = strconv.Itoa(s)
		}
		tok := strconv.Itoa(m.t)
		if m.e != 0 {
			tok = fmt.Sprintf("%de%d", m.t, m.e)
		}
		parts = append(parts, fmt.Sprintf("%s:%d:%d:%s", tok, m.group, m.level, hlib.Join(ss, ",")))
	}
	return hlib.Join(parts, ";")
}

func genC31(c *hlib.Ctx) {
	r := c.R
	for i := 0; i < c.N(4000, 60000); i++ {
		nGroups := r.Range(1, 3)
		groups := r.Perm(9)[:nGroups]
		nBlocks := r.Range(1, 10)
		ids := r.Perm(40)
		universe := r.Range(2, 12) // source ids 100..100+universe
		var ms []ddMeta
		for b := 0; b < nBlocks; b++ {
			m := ddMeta{t: ids[b] + 1, group: groups[r.Intn(nGroups)], level: 1}
			m.id = m.t * 1000
			if r.Chance(1, 2) {
				m.level = r.Range(1, 4)
			}
			c.Count(fmt.Sprintf("level:%d", m.level))
			switch r.Intn(12) {
			case 0, 1, 2, 3: // random subset
				c.Count("src:subset")
				for s := 0; s < universe; s++ {
					if r.Chance(1, 2) {
						m.sources = append(m.sources, 100+s)
					}
				}
				if len(m.sources) == 0 {
					m.sources = []int{100}
				}
			case 4, 5: // interval (a compaction chain)
				c.Count("src:interval")
				lo := r.Intn(universe)
				hi := r.Range(lo, universe-1)
				for s := lo; s <= hi; s++ {
					m.sources = append(m.sources, 100+s)
				}
			case 6, 7: // copy of an earlier block's sources, possibly shuffled (equal sets)
				if len(ms) > 0 {
					c.Count("src:equal-set")
					other := ms[r.Intn(len(ms))]
					src := other.sources
					if r.Chance(1, 2) { // a single-block compaction result: same sources, next level, same group
						m.level, m.group = other.level+1, other.group
						c.Count("src:equal-set-higher-level")
					}
					for _, j := range r.Perm(len(src)) {
						m.sources = append(m.sources, src[j])
					}
				} else {
					m.sources = []int{m.t}
				}
			case 8: // own id only (a level-1 block)
				c.Count("src:self")
				m.sources = []int{m.t}
			case 9: // superset of an earlier block
				if len(ms) > 0 {
					c.Count("src:superset")
					m.sources = append([]int{}, ms[r.Intn(len(ms))].sources...)
					m.sources = append(m.sources, 100+r.Intn(universe), 200+r.Intn(3))
				} else {
					m.sources = []int{100}
				}
			case 10: // repeated entries in the list
				c.Count("src:repeated")
				x := 100 + r.Intn(universe)
				m.sources = []int{x, x, 100 + r.Intn(universe)}
			default: // empty list (never written by Thanos; recorded)
				c.Count("src:empty")
			}
			ms = append(ms, m)
		}
		// ULIDs minted in the same millisecond: 2-4 blocks sharing the timestamp of an existing block, differing in
		// entropy only — same group, same sources, same level (an exact tie up to the last tie-break), or a near-tie
		if r.Chance(1, 3) && len(ms) > 0 {
			base := ms[r.Intn(len(ms))]
			for k, n := 0, r.Range(1, 3); k < n; k++ {
				tw := ddMeta{t: base.t, e: r.Range(1, 999), group: base.group, level: base.level}
				tw.id = tw.t*1000 + tw.e
				dup := false
				for _, x := range ms {
					if x.id == tw.id {
						dup = true
					}
				}
				if dup {
					continue
				}
				tw.sources = append([]int{}, base.sources...)
				switch r.Intn(5) {
				case 0:
					tw.level++ // near-tie: the level decides
					c.Count("twin:other-level")
				case 1:
					tw.sources = append(tw.sources, 300+r.Intn(3)) // near-tie: the source count decides
					c.Count("twin:more-sources")
				case 2:
					tw.group = groups[r.Intn(nGroups)] // possibly another group: no tie at all
					c.Count("twin:any-group")
				default:
					c.Count("twin:exact-tie")
				}
				ms = append(ms, tw)
			}
		}
		c.Count(fmt.Sprintf("groups:%d", nGroups))
		c.Count(fmt.Sprintf("blocks:%d", min(nBlocks, 10)))
		c.Do("dd.filter "+showDDMetas(ms), true)
	}
}
