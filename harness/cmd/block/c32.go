package main

// C32 — blocks are deleted only when retention and delays allow it.
//
// The three functions read time.Now() themselves and hooks are add-only, so the clock is not
// injected.  Op lines are written around a NOMINAL base instant c32Base (a whole second) with
// "now" = base + 500 ms; Exec waits until the wall clock's sub-second phase is inside [300,650] ms,
// shifts every time of the line by Δ = (current whole second) − base, runs the real function and
// checks that the call ended in the same second with phase ≤ 700 ms (else it starts over).  Every
// decision threshold of a generated line has a sub-second phase in [0,150] ∪ [850,999] ms, so all
// instants of the window decide like the nominal one (Lean: the model's answer only depends on
// comparisons that are ≥ 150 ms away from the nominal now).
//
// ops:
//   c32.ret <nowMs> <rets> <blocks>
//        rets   = <res>:<durMs>:<shift>,…        retentionByResolution; shift=1: duration grows by Δ (for ancient blocks)
//        blocks = <id>:<res>:<maxTimeMs>:<shift>;…   shift=1: MaxTime moves with the clock (recent blocks)
//        answer: marked=<ids ascending>           (blocks that got a deletion-mark.json)
//   c32.clean <nowMs> <delayMs> <marks>
//        marks  = <id>:<deletionTimeSec | ->;…    complete blocks, with a deletion mark of that time or without mark
//        answer: deleted=<ids ascending>
//   c32.partial <nowMs> <markedIds> <partials>
//        partials = <id>:<ulidMs>:<lm>,<lm>,…:<iterFails>;…   partial blocks (no meta.json): ULID time, LastModified of
//                   their objects, whether the attribute listing fails; markedIds = ids passed as deletionMarkBlocks
//        answer: deleted=<ids ascending>           (blocks for which block.Delete was started)
//   c32.hist <nowMs> <delayMs> <nblocks> <steps>
//        ONE long-lived MetaFetcher + IgnoreDeletionMarkFilter(delay/2) + BlocksCleaner(delay), wired as cmd/thanos/compact.go
//        does, over a bucket with the complete blocks 1..nblocks; steps (all inside one clock window):
//          m:<id>:<deletionTimeSec>  write deletion-mark.json (overwrite)      u:<id>  block.RemoveMark
//          s  a metadata sync (Fetch)                                           i       compactor iteration: Fetch + DeleteMarkedBlocks
//        answer: i[<deleted ids>] … => <id>[:<markSec>] …
//   o.c32.e2e                                 (recorded, not asserted) a block whose Delete was interrupted after meta.json —
//        no meta.json, deletion-mark.json still there, untouched for 3 days — goes through the real MetaFetcher +
//        IgnoreDeletionMarkFilter and then BestEffortCleanAbortedPartialUploads(partial, filter.DeletionMarkBlocks()):
//        the filter reads marks of blocks WITH meta.json only, so the "already scheduled for deletion" test of the
//        partial-upload cleaner cannot see this mark; answer: partial-with-mark=<deleted|kept>
//
// oracle (uses the instant measured AFTER the call, so a reported violation is certain):
//   retention-early-subsecond   marked although now ≤ MaxTime+retention, by less than 1 s, MaxTime not a whole second (F32)
//   retention-early             marked although now ≤ MaxTime+retention, any other way
//   retention-disabled-marked   marked although the retention of its resolution is 0 / absent
//   deleted-before-delay        cleaner deleted a block whose mark age ≤ delete delay
//   deleted-unmarked            cleaner deleted a block without deletion mark
//   cleaner-result-mismatch     returned set ≠ blocks actually removed from the bucket
//   deleted-without-current-mark   (histories) the cleaner deleted a block that has NO deletion mark in the bucket at that moment
//   deleted-current-mark-young     (histories) … whose CURRENT mark in the bucket is not older than the delay
//   partial-deleted-young       partial block deleted although untouched for ≤ 48 h
//   partial-deleted-marked      partial block deleted although passed as marked for deletion

import (
	"bytes"
	"context"
	"encoding/json"
	"fmt"
	"path"
	"sort"
	"strconv"
	"strings"
	"time"

	"github.com/go-kit/log"
	"github.com/oklog/ulid/v2"
	"github.com/prometheus/client_golang/prometheus"
	"github.com/prometheus/prometheus/tsdb"
	"github.com/thanos-io/objstore"

	"github.com/thanos-io/thanos/pkg/block"
	"github.com/thanos-io/thanos/pkg/block/metadata"
	"github.com/thanos-io/thanos/pkg/compact"
	"github.com/thanos-io/thanos/pkg/extprom"
	"github.com/thanos-io/thanos/verifharness/hlib"
)

func init() {
	props = append(props, &hlib.Prop{ID: "C32", Gen: genC32, Exec: execC32})
}

const c32Base = int64(1700000000000) // nominal base, ms (a whole second)
const c32Now = c32Base + 500

// alignClock waits until the sub-second phase is in [300,650] ms and returns the current whole second in ms.
func alignClock() int64 {
	for {
		now := time.Now()
		ph := now.Nanosecond() / 1e6
		if ph >= 300 && ph <= 650 {
			return now.Unix() * 1000
		}
		if ph < 300 {
			time.Sleep(time.Duration(302-ph) * time.Millisecond)
		} else {
			time.Sleep(time.Duration(1302-ph) * time.Millisecond)
		}
	}
}

// windowOK: the call ended in the same second, phase ≤ 700 ms.
func windowOK(baseMs int64) (time.Time, bool) {
	t := time.Now()
	return t, t.Unix()*1000 == baseMs && t.Nanosecond()/1e6 <= 700
}

func idsAnswer(key string, ids []int) string {
	sort.Ints(ids)
	ss := make([]string, len(ids))
	for i, x := range ids {
		ss[i] = strconv.Itoa(x)
	}
	return key + "=" + hlib.Join(ss, ",")
}

func c32ULID(n int, timeMs int64) ulid.ULID {
	var e [10]byte
	e[9], e[8] = byte(n), byte(n>>8)
	var id ulid.ULID
	_ = id.SetTime(uint64(timeMs))
	_ = id.SetEntropy(e[:])
	return id
}

func c32Meta(id ulid.ULID, res, maxT int64) *metadata.Meta {
	return &metadata.Meta{
		BlockMeta: tsdb.BlockMeta{ULID: id, MinTime: maxT - 7200000, MaxTime: maxT, Version: metadata.TSDBVersion1,
			Compaction: tsdb.BlockMetaCompaction{Level: 1, Sources: []ulid.ULID{id}}},
		Thanos: metadata.Thanos{Labels: map[string]string{"ext": "a"}, Downsample: metadata.ThanosDownsample{Resolution: res}, Source: metadata.TestSource},
	}
}

func execC32E2E(c *hlib.Ctx) string {
	ctx := context.Background()
	logger := log.NewNopLogger()
	bkt := objstore.NewInMemBucket()
	id := testULID(7)
	old := time.Now().Add(-72 * time.Hour)
	mark, _ := json.Marshal(metadata.DeletionMark{ID: id, Version: 1, DeletionTime: old.Unix()})
	for name, body := range map[string][]byte{
		path.Join(id.String(), metadata.DeletionMarkFilename): mark,
		path.Join(id.String(), block.IndexFilename):           make([]byte, 8),
		path.Join(id.String(), block.ChunksDirname, "000001"): make([]byte, 8),
	} {
		must2(bkt.Upload(ctx, name, bytes.NewReader(body)))
		must2(bkt.ChangeLastModified(name, old))
	}
	putCompleteBlock(bkt, testULID(8)) // a healthy block, so that the view is not empty
	ins := objstore.WithNoopInstr(bkt)
	filter := block.NewIgnoreDeletionMarkFilter(logger, ins, 24*time.Hour, 2)
	mf, err := block.NewMetaFetcher(logger, 2, ins, block.NewConcurrentLister(logger, ins), "", nil, []block.MetadataFilter{filter})
	must2(err)
	_, partial, err := mf.Fetch(ctx)
	must2(err)
	counter := prometheus.NewCounter(prometheus.CounterOpts{Name: "x"})
	compact.BestEffortCleanAbortedPartialUploads(ctx, logger, partial, bkt, counter, counter, counter, filter.DeletionMarkBlocks())
	_, isPartial := partial[id]
	_, inMarks := filter.DeletionMarkBlocks()[id]
	c.Count(fmt.Sprintf("e2e:partial=%v,mark-visible-to-cleaner=%v", isPartial, inMarks))
	if blockObjects(bkt, id) == 0 {
		c.Count("e2e:partial-with-mark-in-bucket:deleted")
		return "partial-with-mark=deleted"
	}
	c.Count("e2e:partial-with-mark-in-bucket:kept")
	return "partial-with-mark=kept"
}

func execC32(c *hlib.Ctx, tok []string) string {
	if len(tok) == 1 && tok[0] == "o.c32.e2e" {
		return execC32E2E(c)
	}
	if len(tok) == 5 && tok[0] == "c32.hist" {
		if tok[1] != strconv.FormatInt(c32Now, 10) {
			return "bad-op"
		}
		for attempt := 0; attempt < 8; attempt++ {
			out, ok := execHist(c, tok[2], tok[3], tok[4])
			if ok || out == "bad-op" {
				return out
			}
			c.Count("clock-window-missed-retry")
		}
		return "clock-unstable"
	}
	if len(tok) != 4 {
		return "bad-op"
	}
	now, err := strconv.ParseInt(tok[1], 10, 64)
	if err != nil || now != c32Now {
		return "bad-op" // only the nominal instant can be related to the wall clock
	}
	for attempt := 0; attempt < 8; attempt++ {
		var out string
		var ok bool
		switch tok[0] {
		case "c32.ret":
			out, ok = execRet(c, tok[2], tok[3])
		case "c32.clean":
			out, ok = execClean(c, tok[2], tok[3])
		case "c32.partial":
			out, ok = execPartial(c, tok[2], tok[3])
		case "c32.hist":
			out, ok = "bad-op", false
		default:
			return "bad-op"
		}
		if ok {
			return out
		}
		if out == "bad-op" {
			return out
		}
		c.Count("clock-window-missed-retry")
	}
	return "clock-unstable"
}

// ------------------------------------------------------------------ retention

func execRet(c *hlib.Ctx, retS, blocksS string) (string, bool) {
	type retE struct {
		res, durMs int64
		shift      bool
	}
	type blkE struct {
		id        int
		res, maxT int64
		shift     bool
	}
	var rets []retE
	for _, t := range hlib.Split(retS, ",") {
		p := strings.Split(t, ":")
		if len(p) != 3 {
			return "bad-op", false
		}
		r, e1 := strconv.ParseInt(p[0], 10, 64)
		d, e2 := strconv.ParseInt(p[1], 10, 64)
		if e1 != nil || e2 != nil || (p[2] != "0" && p[2] != "1") {
			return "bad-op", false
		}
		rets = append(rets, retE{r, d, p[2] == "1"})
	}
	var blks []blkE
	for _, t := range hlib.Split(blocksS, ";") {
		p := strings.Split(t, ":")
		if len(p) != 4 {
			return "bad-op", false
		}
		id, e0 := strconv.Atoi(p[0])
		r, e1 := strconv.ParseInt(p[1], 10, 64)
		m, e2 := strconv.ParseInt(p[2], 10, 64)
		if e0 != nil || e1 != nil || e2 != nil || (p[3] != "0" && p[3] != "1") || id < 0 || id > 60000 {
			return "bad-op", false
		}
		blks = append(blks, blkE{id, r, m, p[3] == "1"})
	}
	base := alignClock()
	delta := base - c32Base
	retMap := map[compact.ResolutionLevel]time.Duration{}
	retOf := map[int64]time.Duration{}
	shiftedRes := map[int64]bool{}
	for i := len(rets) - 1; i >= 0; i-- { // the model takes the FIRST entry of a resolution
		r := rets[i]
		d := r.durMs
		if r.shift {
			d += delta
		}
		retMap[compact.ResolutionLevel(r.res)] = time.Duration(d) * time.Millisecond
		retOf[r.res] = time.Duration(d) * time.Millisecond
		shiftedRes[r.res] = r.shift
	}
	metas := map[ulid.ULID]*metadata.Meta{}
	byID := map[int]blkE{}
	realMax := map[int]int64{}
	for _, b := range blks {
		if b.shift && shiftedRes[b.res] {
			return "bad-op", false // would shift twice
		}
		if b.shift && b.maxT < 0 {
			return "bad-op", false
		}
		m := b.maxT
		if b.shift {
			m += delta
		}
		id := testULID(b.id)
		if _, dup := byID[b.id]; dup {
			return "bad-op", false
		}
		metas[id] = c32Meta(id, b.res, m)
		byID[b.id] = b
		realMax[b.id] = m
	}
	bkt := objstore.NewInMemBucket()
	counter := prometheus.NewCounter(prometheus.CounterOpts{Name: "x"})
	err := compact.ApplyRetentionPolicyByResolution(context.Background(), log.NewNopLogger(), bkt, metas, retMap, counter)
	after, ok := windowOK(base)
	if !ok {
		return "", false
	}
	if err != nil {
		return "err:" + err.Error(), true
	}
	var marked []int
	for _, b := range blks {
		if ex, _ := bkt.Exists(context.Background(), path.Join(testULID(b.id).String(), metadata.DeletionMarkFilename)); ex {
			marked = append(marked, b.id)
			ret := retOf[b.res]
			if ret == 0 {
				c.Violation("retention-disabled-marked", fmt.Sprintf("block %d (resolution %d) marked, retention of that resolution is 0", b.id, b.res))
				continue
			}
			expiry := time.UnixMilli(realMax[b.id]).Add(ret)
			if !after.After(expiry) {
				early := expiry.Sub(after)
				if early < time.Second && realMax[b.id]%1000 != 0 {
					c.Violation("retention-early-subsecond", fmt.Sprintf("block %d: MaxTime %d ms (…%03d), retention %v: marked %v before MaxTime+retention", b.id, b.maxT, realMax[b.id]%1000, ret, early))
				} else {
					c.Violation("retention-early", fmt.Sprintf("block %d: MaxTime %d ms, retention %v: marked %v before MaxTime+retention", b.id, b.maxT, ret, early))
				}
			}
		}
	}
	c.Count(fmt.Sprintf("ret:marked:%d", min(len(marked), 9)))
	return idsAnswer("marked", marked), true
}

// ------------------------------------------------------------------ cleaner

func putCompleteBlock(bkt objstore.Bucket, id ulid.ULID) {
	ctx := context.Background()
	var buf bytes.Buffer
	if err := c32Meta(id, 0, 7200000).Write(&buf); err != nil {
		panic(err)
	}
	must2(bkt.Upload(ctx, path.Join(id.String(), block.MetaFilename), &buf))
	must2(bkt.Upload(ctx, path.Join(id.String(), block.IndexFilename), bytes.NewReader(make([]byte, 8))))
	must2(bkt.Upload(ctx, path.Join(id.String(), block.ChunksDirname, "000001"), bytes.NewReader(make([]byte, 8))))
}

func must2(err error) {
	if err != nil {
		panic(err)
	}
}

func blockObjects(bkt *objstore.InMemBucket, id ulid.ULID) int {
	n := 0
	for name := range bkt.Objects() {
		if strings.HasPrefix(name, id.String()+"/") {
			n++
		}
	}
	return n
}

func execClean(c *hlib.Ctx, delayS, marksS string) (string, bool) {
	delayMs, err := strconv.ParseInt(delayS, 10, 64)
	if err != nil || delayMs < 0 {
		return "bad-op", false
	}
	type mk struct {
		id      int
		hasMark bool
		delSec  int64
	}
	var ms []mk
	seen := map[int]bool{}
	for _, t := range hlib.Split(marksS, ";") {
		p := strings.Split(t, ":")
		if len(p) != 2 {
			return "bad-op", false
		}
		id, e0 := strconv.Atoi(p[0])
		if e0 != nil || id < 0 || id > 60000 || seen[id] {
			return "bad-op", false
		}
		seen[id] = true
		if p[1] == "-" {
			ms = append(ms, mk{id: id})
			continue
		}
		d, e1 := strconv.ParseInt(p[1], 10, 64)
		if e1 != nil {
			return "bad-op", false
		}
		ms = append(ms, mk{id, true, d})
	}
	ctx := context.Background()
	logger := log.NewNopLogger()
	base := alignClock()
	delta := base - c32Base
	bkt := objstore.NewInMemBucket()
	metas := map[ulid.ULID]*metadata.Meta{}
	for _, m := range ms {
		id := testULID(m.id)
		putCompleteBlock(bkt, id)
		metas[id] = c32Meta(id, 0, 7200000)
		if m.hasMark {
			b, _ := json.Marshal(metadata.DeletionMark{ID: id, Version: metadata.DeletionMarkVersion1, DeletionTime: m.delSec + delta/1000})
			must2(bkt.Upload(ctx, path.Join(id.String(), metadata.DeletionMarkFilename), bytes.NewReader(b)))
		}
	}
	filter := block.NewIgnoreDeletionMarkFilter(logger, objstore.WithNoopInstr(bkt), 0, 4)
	synced := extprom.NewTxGaugeVec(nil, prometheus.GaugeOpts{Name: "x"}, []string{"state"})
	must2(filter.Filter(ctx, metas, synced, nil))
	counter := prometheus.NewCounter(prometheus.CounterOpts{Name: "x"})
	cleaner := compact.NewBlocksCleaner(logger, bkt, filter, time.Duration(delayMs)*time.Millisecond, counter, counter)
	deletedMap, err := cleaner.DeleteMarkedBlocks(ctx)
	after, ok := windowOK(base)
	if !ok {
		return "", false
	}
	if err != nil {
		return "err:" + err.Error(), true
	}
	var deleted []int
	for _, m := range ms {
		id := testULID(m.id)
		_, inMap := deletedMap[id]
		gone := blockObjects(bkt, id) == 0
		if inMap != gone {
			c.Violation("cleaner-result-mismatch", fmt.Sprintf("block %d: in returned set %v, removed from bucket %v", m.id, inMap, gone))
		}
		if !gone {
			continue
		}
		deleted = append(deleted, m.id)
		if !m.hasMark {
			c.Violation("deleted-unmarked", fmt.Sprintf("block %d has no deletion mark and was deleted", m.id))
			continue
		}
		age := after.Sub(time.Unix(m.delSec+delta/1000, 0))
		if age <= time.Duration(delayMs)*time.Millisecond {
			c.Violation("deleted-before-delay", fmt.Sprintf("block %d: mark age %v ≤ delete delay %v", m.id, age, time.Duration(delayMs)*time.Millisecond))
		}
	}
	c.Count(fmt.Sprintf("clean:deleted:%d", min(len(deleted), 9)))
	return idsAnswer("deleted", deleted), true
}

// ------------------------------------------------------------------ histories of one filter + cleaner

func execHist(c *hlib.Ctx, delayS, nS, stepsS string) (string, bool) {
	delayMs, e1 := strconv.ParseInt(delayS, 10, 64)
	n, e2 := strconv.Atoi(nS)
	if e1 != nil || e2 != nil || delayMs < 0 || n < 1 || n > 50 {
		return "bad-op", false
	}
	type hs struct {
		kind string
		id   int
		t    int64
	}
	var steps []hs
	for _, t := range hlib.Split(stepsS, ";") {
		p := strings.Split(t, ":")
		switch {
		case len(p) == 3 && p[0] == "m":
			id, e1 := strconv.Atoi(p[1])
			ts, e2 := strconv.ParseInt(p[2], 10, 64)
			if e1 != nil || e2 != nil || id < 1 || id > n {
				return "bad-op", false
			}
			steps = append(steps, hs{"m", id, ts})
		case len(p) == 2 && p[0] == "u":
			id, e1 := strconv.Atoi(p[1])
			if e1 != nil || id < 1 || id > n {
				return "bad-op", false
			}
			steps = append(steps, hs{"u", id, 0})
		case len(p) == 1 && (p[0] == "s" || p[0] == "i"):
			steps = append(steps, hs{kind: p[0]})
		default:
			return "bad-op", false
		}
	}
	ctx := context.Background()
	logger := log.NewNopLogger()
	base := alignClock()
	delta := base - c32Base
	bkt := objstore.NewInMemBucket()
	for i := 1; i <= n; i++ {
		putCompleteBlock(bkt, testULID(i))
	}
	ins := objstore.WithNoopInstr(bkt)
	delay := time.Duration(delayMs) * time.Millisecond
	filter := block.NewIgnoreDeletionMarkFilter(logger, ins, delay/2, 4)
	mf, err := block.NewMetaFetcher(logger, 4, ins, block.NewConcurrentLister(logger, ins), "", nil, []block.MetadataFilter{filter})
	must2(err)
	counter := prometheus.NewCounter(prometheus.CounterOpts{Name: "x"})
	cleaner := compact.NewBlocksCleaner(logger, bkt, filter, delay, counter, counter)
	markOf := func(id ulid.ULID) (int64, bool) {
		b, ok := bkt.Objects()[path.Join(id.String(), metadata.DeletionMarkFilename)]
		if !ok {
			return 0, false
		}
		var dm metadata.DeletionMark
		if json.Unmarshal(b, &dm) != nil {
			return 0, false
		}
		return dm.DeletionTime, true
	}
	var parts []string
	for _, st := range steps {
		switch st.kind {
		case "m":
			id := testULID(st.id)
			if blockObjects(bkt, id) == 0 {
				continue // the block is gone: nothing to mark (the model drops it as well)
			}
			b, _ := json.Marshal(metadata.DeletionMark{ID: id, Version: 1, DeletionTime: st.t + delta/1000})
			must2(bkt.Upload(ctx, path.Join(id.String(), metadata.DeletionMarkFilename), bytes.NewReader(b)))
			c.Count("hist:mark")
		case "u":
			must2(block.RemoveMark(ctx, logger, bkt, testULID(st.id), counter, metadata.DeletionMarkFilename))
			c.Count("hist:unmark")
		case "s":
			_, _, err := mf.Fetch(ctx)
			must2(err)
			c.Count("hist:sync")
		case "i":
			_, _, err := mf.Fetch(ctx)
			must2(err)
			// the marks in the bucket at the moment of cleaning
			type cur struct {
				t  int64
				ok bool
			}
			before := map[int]cur{}
			present := map[int]bool{}
			for i := 1; i <= n; i++ {
				t, ok := markOf(testULID(i))
				before[i] = cur{t, ok}
				present[i] = blockObjects(bkt, testULID(i)) > 0
			}
			_, err = cleaner.DeleteMarkedBlocks(ctx)
			must2(err)
			after := time.Now()
			var del []int
			for i := 1; i <= n; i++ {
				if present[i] && blockObjects(bkt, testULID(i)) == 0 {
					del = append(del, i)
					cm := before[i]
					if !cm.ok {
						c.Violation("deleted-without-current-mark", fmt.Sprintf("block %d deleted by the cleaner; it has no deletion mark in the bucket (the filter still held a mark that was removed)", i))
					} else if age := after.Sub(time.Unix(cm.t, 0)); age <= delay {
						c.Violation("deleted-current-mark-young", fmt.Sprintf("block %d deleted; its current deletion mark is %v old ≤ delay %v", i, age, delay))
					}
				}
			}
			parts = append(parts, "i["+strings.TrimPrefix(idsAnswer("i", del), "i=")+"]")
			c.Count("hist:iterate")
			c.Count(fmt.Sprintf("hist:deleted:%d", min(len(del), 5)))
		}
	}
	if _, ok := windowOK(base); !ok {
		return "", false
	}
	var rest []string
	for i := 1; i <= n; i++ {
		id := testULID(i)
		if blockObjects(bkt, id) == 0 {
			continue
		}
		if t, ok := markOf(id); ok {
			rest = append(rest, fmt.Sprintf("%d:%d", i, t-delta/1000))
		} else {
			rest = append(rest, strconv.Itoa(i))
		}
	}
	return hlib.Join(parts, " ") + " => " + hlib.Join(rest, " "), true
}

// ------------------------------------------------------------------ partial uploads

func execPartial(c *hlib.Ctx, markedS, partialsS string) (string, bool) {
	marked := map[int]bool{}
	for _, t := range hlib.Split(markedS, ",") {
		v, err := strconv.Atoi(t)
		if err != nil {
			return "bad-op", false
		}
		marked[v] = true
	}
	type pe struct {
		id        int
		ulidMs    int64
		lms       []int64
		iterFails bool
	}
	var ps []pe
	seen := map[int]bool{}
	for _, t := range hlib.Split(partialsS, ";") {
		p := strings.Split(t, ":")
		if len(p) != 4 {
			return "bad-op", false
		}
		id, e0 := strconv.Atoi(p[0])
		u, e1 := strconv.ParseInt(p[1], 10, 64)
		if e0 != nil || e1 != nil || id < 0 || id > 60000 || seen[id] || u < 0 || (p[3] != "0" && p[3] != "1") {
			return "bad-op", false
		}
		seen[id] = true
		e := pe{id: id, ulidMs: u, iterFails: p[3] == "1"}
		for _, x := range hlib.Split(p[2], ",") {
			v, err := strconv.ParseInt(x, 10, 64)
			if err != nil {
				return "bad-op", false
			}
			e.lms = append(e.lms, v)
		}
		ps = append(ps, e)
	}
	ctx := context.Background()
	base := alignClock()
	delta := base - c32Base
	inner := objstore.NewInMemBucket()
	fb := newFaultBucket(inner)
	partial := map[ulid.ULID]error{}
	marks := map[ulid.ULID]*metadata.DeletionMark{}
	ids := map[int]ulid.ULID{}
	failOnce := map[string]bool{}
	for _, p := range ps {
		id := c32ULID(p.id, p.ulidMs+delta)
		ids[p.id] = id
		partial[id] = fmt.Errorf("no meta")
		if p.iterFails {
			failOnce[id.String()] = true
		}
		for i, lm := range p.lms {
			name := path.Join(id.String(), block.ChunksDirname, fmt.Sprintf("%06d", i+1))
			must2(inner.Upload(ctx, name, bytes.NewReader(make([]byte, 4))))
			must2(inner.ChangeLastModified(name, time.UnixMilli(lm+delta)))
		}
	}
	for m := range marked {
		if id, ok := ids[m]; ok {
			marks[id] = &metadata.DeletionMark{ID: id, Version: 1}
		}
	}
	fb.failRead = func(idx int, kind, name string) bool {
		if kind == "iter" && failOnce[name] {
			delete(failOnce, name)
			return true
		}
		return false
	}
	fb.arm(-1)
	counter := prometheus.NewCounter(prometheus.CounterOpts{Name: "x"})
	compact.BestEffortCleanAbortedPartialUploads(ctx, log.NewNopLogger(), partial, fb, counter, counter, counter, marks)
	after, ok := windowOK(base)
	if !ok {
		return "", false
	}
	started := map[string]bool{}
	for _, r := range fb.log() {
		if r.Kind == "exists" && strings.HasSuffix(r.Name, "/"+block.MetaFilename) {
			started[strings.TrimSuffix(r.Name, "/"+block.MetaFilename)] = true
		}
	}
	var deleted []int
	for _, p := range ps {
		id := ids[p.id]
		if !started[id.String()] {
			continue
		}
		deleted = append(deleted, p.id)
		if blockObjects(inner, id) != 0 {
			c.Violation("cleaner-result-mismatch", fmt.Sprintf("partial block %d: Delete started but objects remain", p.id))
		}
		if marked[p.id] {
			c.Violation("partial-deleted-marked", fmt.Sprintf("partial block %d is marked for deletion and was deleted by the partial-upload cleaner", p.id))
		}
		// last touch, computed independently: latest object modification, ULID time as fallback
		lm := int64(-1 << 62)
		for _, x := range p.lms {
			if x+delta > lm {
				lm = x + delta
			}
		}
		if p.iterFails || len(p.lms) == 0 {
			lm = p.ulidMs + delta
		}
		if age := after.Sub(time.UnixMilli(lm)); age <= compact.PartialUploadThresholdAge {
			c.Violation("partial-deleted-young", fmt.Sprintf("partial block %d untouched for %v ≤ %v was deleted", p.id, age, compact.PartialUploadThresholdAge))
		}
	}
	c.Count(fmt.Sprintf("partial:deleted:%d", min(len(deleted), 9)))
	return idsAnswer("deleted", deleted), true
}

// ------------------------------------------------------------------ generator

var c32Subs = []int64{0, 1, 100, 900, 999}
var c32Secs = []int64{-86400, -30, -2, -1, 0, 0, 0, 1, 2, 30, 86400}

func genC32(c *hlib.Ctx) {
	r := c.R
	pickSub := func() int64 { return c32Subs[r.Intn(len(c32Subs))] }
	pickSec := func() int64 { return c32Secs[r.Intn(len(c32Secs))] }
	c.Do("o.c32.e2e", true)
	// ---- histories over one long-lived filter + cleaner
	{
		delays := []int64{10000, 172800000, 10900}
		old := func(delayMs int64) int64 { return c32Base/1000 - delayMs/1000 - int64(r.Range(1, 40)) }   // mark older than the delay
		young := func(delayMs int64) int64 { return c32Base/1000 - delayMs/1000 + int64(r.Range(1, 40)) } // younger
		for i := 0; i < c.N(12, 300); i++ {
			d := delays[r.Intn(3)]
			n := r.Range(1, 4)
			var st []string
			switch {
			case i%6 == 0: // mark old, sync, mark removed, iteration
				st = []string{fmt.Sprintf("m:1:%d", old(d)), "s", "u:1", "i", "i"}
			case i%6 == 1: // mark old, sync, re-marked young, iteration
				st = []string{fmt.Sprintf("m:1:%d", old(d)), "s", "u:1", fmt.Sprintf("m:1:%d", young(d)), "i", "s", "i"}
			case i%6 == 2: // mark young, iterations, then replaced by an old one
				st = []string{fmt.Sprintf("m:1:%d", young(d)), "i", fmt.Sprintf("m:1:%d", old(d)), "i"}
			default:
				for j := r.Range(3, 9); j > 0; j-- {
					id := r.Range(1, n)
					switch r.Intn(6) {
					case 0:
						st = append(st, fmt.Sprintf("m:%d:%d", id, old(d)))
					case 1:
						st = append(st, fmt.Sprintf("m:%d:%d", id, young(d)))
					case 2:
						st = append(st, fmt.Sprintf("u:%d", id))
					case 3:
						st = append(st, "s")
					default:
						st = append(st, "i")
					}
				}
				st = append(st, "i")
			}
			c.Do(fmt.Sprintf("c32.hist %d %d %d %s", c32Now, d, n, strings.Join(st, ";")), true)
		}
	}
	rounds := c.N(25, 400)
	for round := 0; round < rounds; round++ {
		// ---- retention: three "recent" resolutions with fixed retention, ancient blocks with shifted retention
		{
			retSubs := []int64{0, 0, 50, 950}
			day := int64(86400000)
			type rr struct{ res, dur int64 }
			recent := []rr{{0, 2*day + retSubs[r.Intn(4)]}, {300000, 30*day + retSubs[r.Intn(4)]}, {3600000, 0}}
			var rets, blocks []string
			for _, x := range recent {
				rets = append(rets, fmt.Sprintf("%d:%d:0", x.res, x.dur))
			}
			id := 1
			for n := r.Range(4, 10); n > 0; n-- {
				x := recent[r.Intn(3)]
				d, sub := pickSec(), pickSub()
				c.Count(fmt.Sprintf("ret:sub:%d", sub))
				c.Count(fmt.Sprintf("ret:sec:%d", d))
				// true expiry at base + d s + sub ms  (+ the sub-second part of the retention)
				blocks = append(blocks, fmt.Sprintf("%d:%d:%d:1", id, x.res, c32Base+d*1000+sub-x.dur/1000*1000))
				id++
			}
			// a block of a resolution that has no retention entry at all, long expired by any other measure
			blocks = append(blocks, fmt.Sprintf("%d:%d:%d:1", id, 77, c32Base-400*day))
			id++
			// ancient blocks (MaxTime around the epoch, also negative): one resolution each
			for _, m := range []int64{-1999, -1000, -1, 0, 1, 999, 1000, 1999} {
				if r.Chance(1, 2) {
					continue
				}
				d := pickSec()
				res := int64(1000 + id)
				rets = append(rets, fmt.Sprintf("%d:%d:1", res, c32Base+d*1000-m))
				blocks = append(blocks, fmt.Sprintf("%d:%d:%d:0", id, res, m))
				c.Count("ret:ancient")
				id++
			}
			c.Do(fmt.Sprintf("c32.ret %d %s %s", c32Now, hlib.Join(rets, ","), hlib.Join(blocks, ";")), true)
		}
		// ---- cleaner
		{
			delayMs := []int64{0, 1000, 10000, 172800000, 10900, 10050}[r.Intn(6)]
			var marks []string
			id := 1
			for n := r.Range(4, 12); n > 0; n-- {
				if r.Chance(1, 6) {
					marks = append(marks, fmt.Sprintf("%d:-", id))
					c.Count("clean:unmarked")
				} else {
					d := pickSec()
					c.Count(fmt.Sprintf("clean:sec:%d", d))
					// threshold (mark time + delay) at base + d s + (delay % 1000) ms
					marks = append(marks, fmt.Sprintf("%d:%d", id, c32Base/1000+d-delayMs/1000))
				}
				id++
			}
			c.Count(fmt.Sprintf("clean:delay:%d", delayMs))
			c.Do(fmt.Sprintf("c32.clean %d %d %s", c32Now, delayMs, hlib.Join(marks, ";")), true)
		}
		// ---- partial uploads
		{
			th := int64(172800000)
			var parts, marked []string
			id := 1
			for n := r.Range(4, 10); n > 0; n-- {
				d, sub := pickSec(), pickSub()
				newest := c32Base + d*1000 + sub - th // threshold at base + d s + sub ms
				var lms []string
				kind := r.Intn(6)
				switch kind {
				case 0: // no objects at all: ULID time decides
					c.Count("partial:no-objects")
				default:
					for k := r.Range(1, 3); k > 1; k-- {
						lms = append(lms, strconv.FormatInt(newest-int64(r.Range(1, 5000000)), 10))
					}
					lms = append(lms, strconv.FormatInt(newest, 10))
					if r.Bool() && len(lms) > 1 {
						lms[0], lms[len(lms)-1] = lms[len(lms)-1], lms[0]
					}
				}
				iterFails := 0
				ulidMs := newest - int64(r.Range(0, 3))*86400000 // creation never after the last touch
				if kind == 0 {
					ulidMs = newest
				}
				if kind == 1 {
					iterFails = 1
					ulidMs = c32Base + pickSec()*1000 + pickSub() - th
					c.Count("partial:iter-fails")
				}
				if r.Chance(1, 5) {
					marked = append(marked, strconv.Itoa(id))
					c.Count("partial:marked")
				}
				c.Count(fmt.Sprintf("partial:sec:%d", d))
				parts = append(parts, fmt.Sprintf("%d:%d:%s:%d", id, ulidMs, hlib.Join(lms, ","), iterFails))
				id++
			}
			c.Do(fmt.Sprintf("c32.partial %d %s %s", c32Now, hlib.Join(marked, ","), hlib.Join(parts, ";")), true)
		}
	}
}
