package main

// C35 — the shipper uploads every eligible block completely, at least once.
//
// op:  ship.run <cfg> <blocks> <steps>
//        cfg    = <uploadCompacted 0|1><allowOutOfOrderUploads 0|1>
//        blocks = <id>:<minT>:<maxT>:<level>:<numSamples>:<indexSize>:<seg>,<seg>,… ; …   sorted by minT, minT distinct
//        steps  = s:<k> | s:x   one Shipper.Sync by a NEW Shipper on the same directory (restart); k = crash budget
//                                (after k mutating bucket calls every bucket call fails), x = no crash
//                 t:<j>         one Sync in which exactly the j-th bucket call (reads and writes, from 0) fails
//                 s:…@<n>:<v>, t:…@<n>:<v>   … and after n mutating bucket calls of that Sync the DYNAMIC labels callback
//                               (what the sidecar passes: refreshed from Prometheus) starts returning label version v
//                 L:<v>         the dynamic callback returns label version v from now on (external labels {ext="l<v>"})
//                 SL:<v>        Shipper.SetLabels on the running instance (replaces the callback by a constant)
//                 N             the process restarts: a NEW Shipper instance (dynamic callback again); without N the
//                               same instance runs all Syncs of the line
//                 rm            thanos.shipper.json is lost
//      o.ship.run …             same, with WithUploadConcurrency(4) (order of chunk uploads not deterministic): oracle only
//
// answer: <status>[<mutating calls that reached the bucket>]file=<uploaded ids | none> … => b<id>@<label version in the bucket meta.json | ->{<objects>} …
//
// oracle:
//   visible-incomplete             (after every mutating call) a block with meta.json lacks a listed / local file
//   recorded-not-complete          after a Sync, a block listed in thanos.shipper.json is not complete in the bucket
//   eligible-missing-after-ok-sync Sync returned nil but an eligible local block is not complete in the bucket / not recorded
//   labels-mismatch                an uploaded meta.json does not carry exactly one well-formed external label / the source
//   stale-labels                   the meta.json just uploaded for a block does not carry the external labels the shipper's
//                                  callback returned when that block's upload began (its Exists check)
//   final-sync-failed              a crash-free Sync over pairwise non-overlapping blocks returned an error
//   sync-wedged-by-partial-dir     … namely because lazyOverlapChecker.sync could not download the meta.json of a block
//                                  directory that has none (left by a crashed upload)

import (
	"context"
	"encoding/json"
	"fmt"
	"os"
	"path"
	"path/filepath"
	"strconv"
	"strings"
	"sync"

	"github.com/prometheus/prometheus/model/labels"
	"github.com/thanos-io/objstore"

	"github.com/thanos-io/thanos/pkg/block"
	"github.com/thanos-io/thanos/pkg/block/metadata"
	"github.com/thanos-io/thanos/pkg/shipper"
	"github.com/thanos-io/thanos/verifharness/hlib"
)

func init() {
	props = append(props, &hlib.Prop{ID: "C35", Gen: genC35, Exec: execC35})
}

func parseShipBlocks(s string) ([]localBlockSpec, bool) {
	var out []localBlockSpec
	seen := map[int]bool{}
	var lastMin int64
	for i, t := range hlib.Split(s, ";") {
		p := strings.Split(t, ":")
		if len(p) != 7 {
			return nil, false
		}
		var v [6]int64
		for j := 0; j < 6; j++ {
			x, err := strconv.ParseInt(p[j], 10, 64)
			if err != nil {
				return nil, false
			}
			v[j] = x
		}
		id := int(v[0])
		if id < 0 || id > 60000 || seen[id] || v[3] < 1 || v[3] > 9 || v[4] < 0 || v[5] < 0 || v[5] > 1<<20 || v[2] < v[1] {
			return nil, false
		}
		if i > 0 && v[1] <= lastMin {
			return nil, false
		}
		lastMin = v[1]
		seen[id] = true
		sp := localBlockSpec{id: testULID(id), minT: v[1], maxT: v[2], level: int(v[3]), numSamples: uint64(v[4]), index: v[5],
			extLabels: map[string]string{}}
		for k, x := range hlib.Split(p[6], ",") {
			sz, err := strconv.ParseInt(x, 10, 64)
			if err != nil || sz < 0 || sz > 1<<20 {
				return nil, false
			}
			sp.segs = append(sp.segs, segFile{fmt.Sprintf("%06d", k+1), sz})
		}
		out = append(out, sp)
	}
	return out, len(out) > 0
}

func showMutB(r callRec) string {
	parts := strings.SplitN(r.Name, "/", 2)
	n := -1
	if id, ok := block.IsBlockDir(parts[0]); ok {
		n = ulidNum(id)
	}
	rel := "."
	if len(parts) == 2 && parts[1] != "" {
		rel = parts[1]
	}
	name := fmt.Sprintf("%d/%s", n, rel)
	if r.Kind == "delete" {
		return "del " + name
	}
	if isJSONName(rel) {
		return "put " + name
	}
	return fmt.Sprintf("put %s %d", name, r.Size)
}

func execC35(c *hlib.Ctx, tok []string) string {
	if len(tok) != 4 || (tok[0] != "ship.run" && tok[0] != "o.ship.run") {
		return "bad-op"
	}
	if len(tok[1]) != 2 || strings.Trim(tok[1], "01") != "" {
		return "bad-op"
	}
	uploadCompacted, allowOOO := tok[1][0] == '1', tok[1][1] == '1'
	blocks, ok := parseShipBlocks(tok[2])
	if !ok {
		return "bad-op"
	}
	type sstep struct {
		kind  string // sync rm L SL N
		k     int
		trans int // >= 0: transient failure of that call
		swN   int // >= 0: label switch after swN mutating calls of this Sync
		v     int
	}
	var steps []sstep
	for _, t := range hlib.Split(tok[3], ";") {
		if t == "rm" || t == "N" {
			steps = append(steps, sstep{kind: t, trans: -1, swN: -1})
			continue
		}
		if strings.HasPrefix(t, "L:") || strings.HasPrefix(t, "SL:") {
			p := strings.SplitN(t, ":", 2)
			v, err := strconv.Atoi(p[1])
			if err != nil || v < 0 {
				return "bad-op"
			}
			steps = append(steps, sstep{kind: p[0], v: v, trans: -1, swN: -1})
			continue
		}
		st := sstep{kind: "sync", k: -1, trans: -1, swN: -1}
		core := t
		if i := strings.Index(t, "@"); i >= 0 {
			core = t[:i]
			p := strings.Split(t[i+1:], ":")
			if len(p) != 2 {
				return "bad-op"
			}
			n, e1 := strconv.Atoi(p[0])
			v, e2 := strconv.Atoi(p[1])
			if e1 != nil || e2 != nil || n < 0 || v < 0 {
				return "bad-op"
			}
			st.swN, st.v = n, v
		}
		switch {
		case strings.HasPrefix(core, "t:"):
			v, err := strconv.Atoi(core[2:])
			if err != nil || v < 0 {
				return "bad-op"
			}
			st.trans = v
		case strings.HasPrefix(core, "s:"):
			if core[2:] != "x" {
				v, err := strconv.Atoi(core[2:])
				if err != nil || v < 0 {
					return "bad-op"
				}
				st.k = v
			}
		default:
			return "bad-op"
		}
		steps = append(steps, st)
	}
	if len(steps) == 0 {
		return "bad-op"
	}
	tmp, err := os.MkdirTemp("", "verif-c35-")
	if err != nil {
		panic(err)
	}
	defer os.RemoveAll(tmp)
	dbdir := filepath.Join(tmp, "db")
	for _, b := range blocks {
		if _, err := writeLocalBlock(dbdir, b); err != nil {
			panic(err)
		}
	}
	ctx := context.Background()
	inner := objstore.NewInMemBucket()
	fb := newFaultBucket(inner)
	// ---- external labels: a dynamic callback (as the sidecar passes) and SetLabels
	var lmu sync.Mutex
	dyn, pinned := 1, -1 // label version of the dynamic callback; version installed by SetLabels on the instance (-1: none)
	effective := func() int {
		lmu.Lock()
		defer lmu.Unlock()
		if pinned >= 0 {
			return pinned
		}
		return dyn
	}
	lblOf := func(v int) labels.Labels { return labels.FromStrings("ext", fmt.Sprintf("l%d", v)) }
	expect := map[string]int{} // block dir -> label version when its upload began (its Exists check)
	swN, swV, mutsThisSync := -1, 0, 0
	fb.intercept = func(kind, name string) string {
		if kind == "exists" && strings.HasSuffix(name, "/"+block.MetaFilename) {
			lmu.Lock()
			d := strings.TrimSuffix(name, "/"+block.MetaFilename)
			lmu.Unlock()
			v := effective()
			lmu.Lock()
			expect[d] = v
			lmu.Unlock()
		}
		return ""
	}
	metaLabel := func(b []byte) (int, string) {
		var m metadata.Meta
		if err := json.Unmarshal(b, &m); err != nil {
			return -1, "does not parse"
		}
		e := m.Thanos.Labels["ext"]
		v, err := strconv.Atoi(strings.TrimPrefix(e, "l"))
		if len(m.Thanos.Labels) != 1 || !strings.HasPrefix(e, "l") || err != nil || m.Thanos.Source != metadata.SidecarSource {
			return -1, fmt.Sprintf("labels %v source %q", m.Thanos.Labels, m.Thanos.Source)
		}
		return v, ""
	}
	fb.afterMut = func(rec callRec) {
		objs := inner.Objects()
		for i := range blocks {
			if msg := checkVisibleComplete(blocks[i].id, objs, &blocks[i]); msg != "" {
				c.Violation("visible-incomplete", fmt.Sprintf("after %s: block %d: %s", showMutB(rec), ulidNum(blocks[i].id), msg))
			}
		}
		if rec.Kind == "upload" && strings.HasSuffix(rec.Name, "/"+block.MetaFilename) {
			d := strings.TrimSuffix(rec.Name, "/"+block.MetaFilename)
			got, bad := metaLabel(objs[rec.Name])
			lmu.Lock()
			want, ok := expect[d]
			lmu.Unlock()
			if bad == "" && ok && got != want {
				c.Violation("stale-labels", fmt.Sprintf("%s uploaded with external labels version %d; the shipper's labels callback returned version %d when this block's upload began", showMutB(rec), got, want))
			}
		}
		lmu.Lock()
		mutsThisSync++
		if swN >= 0 && mutsThisSync == swN {
			dyn = swV
		}
		lmu.Unlock()
	}
	nonOverlapping := true
	for i := range blocks {
		for j := range blocks {
			if i != j && blocks[i].minT <= blocks[j].minT && blocks[j].minT < blocks[i].maxT {
				nonOverlapping = false
			}
		}
	}
	metaFile := filepath.Join(dbdir, shipper.DefaultMetaFilename)
	var parts []string
	var sh *shipper.Shipper
	closeSh := func() {
		if sh != nil {
			_ = sh.Close()
			sh = nil
		}
	}
	defer closeSh()
	for _, st := range steps {
		switch st.kind {
		case "rm":
			_ = os.Remove(metaFile)
			parts = append(parts, "rm")
			c.Count("step:rm")
			continue
		case "N":
			closeSh()
			lmu.Lock()
			pinned = -1
			lmu.Unlock()
			c.Count("step:restart")
			continue
		case "L":
			lmu.Lock()
			dyn = st.v
			lmu.Unlock()
			c.Count("step:labels-change")
			continue
		case "SL":
			c.Count("step:SetLabels")
			lmu.Lock()
			pinned = st.v
			lmu.Unlock()
			if sh != nil {
				sh.SetLabels(lblOf(st.v))
			}
			continue
		}
		c.Count("step:sync")
		if st.k >= 0 {
			c.Count("step:sync-crash")
		}
		lmu.Lock()
		swN, swV, mutsThisSync = st.swN, st.v, 0
		if swN == 0 {
			dyn = swV
		}
		if swN >= 0 {
			c.Count("step:labels-change-mid-sync")
		}
		lmu.Unlock()
		if sh == nil {
			root, rerr := os.OpenRoot(dbdir)
			if rerr != nil {
				panic(rerr)
			}
			opts := []shipper.Option{shipper.WithSource(metadata.SidecarSource),
				shipper.WithLabels(func() labels.Labels {
					lmu.Lock()
					v := dyn
					lmu.Unlock()
					return lblOf(v)
				}),
				shipper.WithHashFunc(metadata.NoneFunc),
				shipper.WithUploadCompacted(uploadCompacted), shipper.WithAllowOutOfOrderUploads(allowOOO)}
			if tok[0] == "o.ship.run" {
				opts = append(opts, shipper.WithUploadConcurrency(4))
			}
			sh = shipper.New(fb, root, opts...)
			if pv := func() int { lmu.Lock(); defer lmu.Unlock(); return pinned }(); pv >= 0 {
				sh.SetLabels(lblOf(pv)) // SetLabels given before the first Sync of the instance
			}
		}
		if st.trans >= 0 {
			fb.armTransient(st.trans)
			c.Count("step:sync-transient")
		} else {
			fb.arm(st.k)
		}
		_, serr := sh.Sync(ctx)
		lmu.Lock()
		swN = -1
		lmu.Unlock()
		var muts []string
		for _, r := range fb.log() {
			if r.Mut && !r.Failed {
				muts = append(muts, showMutB(r))
			}
		}
		status := "ok"
		if serr != nil {
			status = "err"
		}
		c.Count("status:" + status)
		file := "none"
		recorded := map[int]bool{}
		if m, err := shipper.ReadMetaFile(metaFile); err == nil {
			var ids []string
			for _, id := range m.Uploaded {
				ids = append(ids, strconv.Itoa(ulidNum(id)))
				recorded[ulidNum(id)] = true
			}
			file = hlib.Join(ids, ",")
		}
		parts = append(parts, fmt.Sprintf("%s[%s]file=%s", status, strings.Join(muts, ","), file))

		// ---- oracle on the state after this Sync
		objs := inner.Objects()
		complete := func(b *localBlockSpec) string {
			if _, ok := objs[path.Join(b.id.String(), block.MetaFilename)]; !ok {
				return "meta.json missing"
			}
			return checkVisibleComplete(b.id, objs, b)
		}
		for i := range blocks {
			b := &blocks[i]
			n := ulidNum(b.id)
			if recorded[n] {
				if msg := complete(b); msg != "" {
					c.Violation("recorded-not-complete", fmt.Sprintf("block %d is in thanos.shipper.json but %s", n, msg))
				}
			}
			if mb, ok := objs[path.Join(b.id.String(), block.MetaFilename)]; ok {
				if _, bad := metaLabel(mb); bad != "" {
					c.Violation("labels-mismatch", fmt.Sprintf("block %d uploaded with %s", n, bad))
				}
			}
			eligible := b.numSamples > 0 && (b.level <= 1 || uploadCompacted)
			if serr == nil && eligible {
				if msg := complete(b); msg != "" {
					c.Violation("eligible-missing-after-ok-sync", fmt.Sprintf("Sync returned nil, eligible block %d: %s", n, msg))
				} else if !recorded[n] {
					c.Violation("eligible-missing-after-ok-sync", fmt.Sprintf("Sync returned nil, eligible block %d is complete in the bucket but not recorded", n))
				}
			}
		}
		if st.k < 0 && st.trans < 0 && serr != nil && (nonOverlapping || allowOOO || !uploadCompacted) {
			class := "final-sync-failed"
			if strings.Contains(serr.Error(), "get all block meta") && strings.Contains(serr.Error(), "not found") {
				// the overlap checker tripped over a block directory without meta.json (a crashed upload)
				class = "sync-wedged-by-partial-dir"
			}
			c.Violation(class, "crash-free Sync failed: "+serr.Error())
		}
	}
	var listing []string
	objs := inner.Objects()
	for _, b := range blocks {
		lv := "-"
		if mb, ok := objs[path.Join(b.id.String(), block.MetaFilename)]; ok {
			lv = "?"
			if v, bad := metaLabel(mb); bad == "" {
				lv = strconv.Itoa(v)
			}
		}
		listing = append(listing, fmt.Sprintf("b%d@%s{%s}", ulidNum(b.id), lv, showListing(b.id, objs)))
	}
	return strings.Join(parts, " ") + " => " + strings.Join(listing, " ")
}

func genC35(c *hlib.Ctx) {
	r := c.R
	genBlocks := func(n int, overlap bool) (string, int) {
		var bs []string
		total := 0
		t := int64(r.Range(0, 50)) * 1000
		ids := r.Perm(30)
		for i := 0; i < n; i++ {
			level := 1
			if r.Chance(1, 3) {
				level = r.Range(2, 3)
			}
			samples := r.Range(1, 100)
			if r.Chance(1, 6) {
				samples = 0
				c.Count("block:empty")
			}
			c.Count(fmt.Sprintf("block:level%d", level))
			dur := int64(r.Range(1, 5)) * 1000
			minT := t
			maxT := t + dur
			t = maxT + int64(r.Range(0, 2))*1000
			if overlap && i > 0 && r.Chance(1, 3) {
				minT -= 500 // may start inside the previous block
				c.Count("block:overlapping")
			}
			nseg := r.Range(0, 3)
			var segs []string
			for k := 0; k < nseg; k++ {
				segs = append(segs, strconv.Itoa(r.Range(1, 200)))
			}
			if samples > 0 {
				total += nseg + 2
			}
			bs = append(bs, fmt.Sprintf("%d:%d:%d:%d:%d:%d:%s", ids[i]+1, minT, maxT, level, samples, r.Range(1, 300), hlib.Join(segs, ",")))
		}
		return strings.Join(bs, ";"), total
	}
	cfgs := []string{"00", "01", "10", "11"}
	// every crash point of the first Sync, then restarts
	for round := 0; round < c.N(6, 80); round++ {
		n := r.Range(1, 5)
		cfg := cfgs[r.Intn(4)]
		overlap := cfg == "10" && r.Chance(1, 4)
		blocks, total := genBlocks(n, overlap)
		c.Count("cfg:" + cfg)
		c.Count(fmt.Sprintf("blocks:%d", n))
		for k := 0; k <= total; k++ {
			c.Do(fmt.Sprintf("ship.run %s %s s:%d;s:x", cfg, blocks, k), true)
			switch r.Intn(4) {
			case 0:
				c.Do(fmt.Sprintf("ship.run %s %s s:%d;s:%d;s:x;s:x", cfg, blocks, k, r.Intn(total+1)), true)
			case 1:
				c.Do(fmt.Sprintf("ship.run %s %s s:%d;rm;s:%d;s:x", cfg, blocks, k, r.Intn(total+1)), true)
			case 2:
				c.Do(fmt.Sprintf("ship.run %s %s s:x;rm;s:%d;s:x", cfg, blocks, k), true)
			}
		}
		c.Do(fmt.Sprintf("ship.run %s %s s:x;s:x", cfg, blocks), true)
		// external labels change: between Syncs of one instance (after an interrupted Sync), in the middle of a Sync,
		// through SetLabels, and across a restart
		for rep := 0; rep < c.N(3, 6); rep++ {
			k := r.Intn(total + 1)
			n := r.Intn(total + 1)
			c.Count("labels-lines")
			c.Do(fmt.Sprintf("ship.run %s %s s:%d;L:2;s:x", cfg, blocks, k), true)
			c.Do(fmt.Sprintf("ship.run %s %s s:x@%d:2;s:x", cfg, blocks, n), true)
			c.Do(fmt.Sprintf("ship.run %s %s s:%d@%d:2;L:3;s:%d;s:x", cfg, blocks, k, n, r.Intn(total+1)), true)
			c.Do(fmt.Sprintf("ship.run %s %s s:%d;SL:4;L:2;s:x", cfg, blocks, k), true)
			c.Do(fmt.Sprintf("ship.run %s %s SL:4;s:%d;L:2;N;s:x", cfg, blocks, k), true)
			c.Do(fmt.Sprintf("ship.run %s %s t:%d@%d:2;rm;s:x@%d:5", cfg, blocks, r.Intn(total+n+2), n, r.Intn(total+1)), true)
		}
		// every bucket call of the first Sync fails once (transient), then a clean Sync
		for j := 0; j <= total+n+2; j++ {
			if c.Tier == "quick" && j > 3 && !r.Chance(1, 3) {
				continue
			}
			c.Do(fmt.Sprintf("ship.run %s %s t:%d;s:x", cfg, blocks, j), true)
			if r.Chance(1, 4) {
				c.Do(fmt.Sprintf("ship.run %s %s t:%d;t:%d;rm;s:x", cfg, blocks, j, r.Intn(total+n+2)), true)
			}
		}
		c.Do(fmt.Sprintf("o.ship.run %s %s s:%d;s:%d;s:x", cfg, blocks, r.Intn(total+1), r.Intn(total+1)), true)
	}
	// random histories
	for i := 0; i < c.N(150, 3000); i++ {
		n := r.Range(1, 5)
		cfg := cfgs[r.Intn(4)]
		blocks, total := genBlocks(n, cfg == "10" && r.Chance(1, 4))
		var st []string
		for j := r.Range(1, 5); j > 0; j-- {
			switch r.Intn(7) {
			case 0:
				st = append(st, "rm")
			case 1:
				st = append(st, "s:x")
			case 2:
				st = append(st, fmt.Sprintf("t:%d", r.Intn(total+n+2)))
				if r.Chance(1, 2) {
					st = append(st, []string{fmt.Sprintf("L:%d", r.Range(1, 4)), fmt.Sprintf("SL:%d", r.Range(1, 4)), "N"}[r.Intn(3)])
				}
			default:
				st = append(st, fmt.Sprintf("s:%d", r.Intn(total+2)))
			}
		}
		st = append(st, "s:x")
		c.Count("cfg:" + cfg)
		c.Do(fmt.Sprintf("ship.run %s %s %s", cfg, blocks, strings.Join(st, ";")), true)
	}
}
