package main

// faultBucket: an objstore.Bucket wrapper around the in-memory bucket that
//   - records every call (mutating calls with name and size),
//   - can "crash": after `budget` mutating calls have reached the bucket every later call
//     (read or write) fails (C28, C35),
//   - can fail chosen read calls (C33),
//   - calls a hook after every mutating call that reached the bucket (oracle on every
//     intermediate bucket state).

import (
	"bytes"
	"context"
	"errors"
	"io"
	"regexp"
	"strings"
	"sync"

	"github.com/thanos-io/objstore"
)

var errCrash = errors.New("verif: bucket unreachable (crash point passed)")
var errInjected = errors.New("verif: injected read failure")

type callRec struct {
	Kind   string // iter get getrange exists attributes upload delete
	Name   string
	Size   int64
	Mut    bool
	Failed bool // refused by the wrapper (crash / injected failure)
}

type faultBucket struct {
	inner *objstore.InMemBucket

	mu       sync.Mutex
	budget   int // < 0: unlimited; otherwise mutating calls still allowed to reach the bucket
	crashed  bool
	panicOn  bool // crash by panicking out of the call instead of returning an error
	calls    []callRec
	callIdx  int // all calls of the current run, counted from 0
	failAt   int // the call with this index fails once (transient failure); < 0: none
	reads    int
	failRead func(idx int, kind, name string) bool // idx counts read calls from 0
	// intercept (C33) may answer a read itself: "" = pass through, "failed" = transient error,
	// "notfound" = the bucket's not-found error, "corrupt" / "badversion" = altered content (Get only),
	// "body0" / "bodyhalf" / "bodylast" = Get succeeds and the reader breaks after 0 / half / all-but-one bytes
	intercept func(kind, name string) string
	afterMut  func(rec callRec) // called outside the lock
}

type crashPanic struct{}

func newFaultBucket(inner *objstore.InMemBucket) *faultBucket {
	return &faultBucket{inner: inner, budget: -1, failAt: -1}
}

// arm starts a new run: `budget` mutating calls may pass (< 0: no crash); the call log is reset.
func (b *faultBucket) arm(budget int) {
	b.mu.Lock()
	defer b.mu.Unlock()
	b.budget = budget
	b.crashed = budget == 0
	b.calls = nil
	b.reads = 0
	b.callIdx = 0
	b.failAt = -1
}

// armTransient starts a new run without crash in which exactly the call number j (from 0) fails.
func (b *faultBucket) armTransient(j int) {
	b.arm(-1)
	b.mu.Lock()
	b.failAt = j
	b.mu.Unlock()
}

func (b *faultBucket) log() []callRec {
	b.mu.Lock()
	defer b.mu.Unlock()
	return append([]callRec(nil), b.calls...)
}

// gate decides whether a call reaches the bucket.
func (b *faultBucket) gate(kind, name string, mut bool) error {
	b.mu.Lock()
	defer b.mu.Unlock()
	if b.crashed {
		b.calls = append(b.calls, callRec{Kind: kind, Name: name, Mut: mut, Failed: true})
		if b.panicOn {
			panic(crashPanic{})
		}
		return errCrash
	}
	idx0 := b.callIdx
	b.callIdx++
	if idx0 == b.failAt {
		b.calls = append(b.calls, callRec{Kind: kind, Name: name, Mut: mut, Failed: true})
		return errInjected
	}
	if !mut {
		idx := b.reads
		b.reads++
		if b.failRead != nil && b.failRead(idx, kind, name) {
			b.calls = append(b.calls, callRec{Kind: kind, Name: name, Failed: true})
			return errInjected
		}
		b.calls = append(b.calls, callRec{Kind: kind, Name: name})
		return nil
	}
	// a mutating call reserves its slot of the crash budget here, so that concurrent uploads
	// cannot overrun it; the call that takes the last slot still reaches the bucket
	if b.budget > 0 {
		b.budget--
		if b.budget == 0 {
			b.crashed = true
		}
	}
	return nil
}

// done records a mutating call that reached the bucket and runs the oracle hook.
func (b *faultBucket) done(kind, name string, size int64) {
	b.mu.Lock()
	rec := callRec{Kind: kind, Name: name, Size: size, Mut: true}
	b.calls = append(b.calls, rec)
	h := b.afterMut
	b.mu.Unlock()
	if h != nil {
		h(rec)
	}
}

func (b *faultBucket) Provider() objstore.ObjProvider { return b.inner.Provider() }
func (b *faultBucket) Close() error                   { return nil }
func (b *faultBucket) Name() string                   { return "verif-fault" }

func (b *faultBucket) Iter(ctx context.Context, dir string, f func(string) error, options ...objstore.IterOption) error {
	if err := b.gate("iter", dir, false); err != nil {
		return err
	}
	if b.mode("iter", dir) == "failed" {
		return errInjected
	}
	return b.inner.Iter(ctx, dir, f, options...)
}

func (b *faultBucket) IterWithAttributes(ctx context.Context, dir string, f func(objstore.IterObjectAttributes) error, options ...objstore.IterOption) error {
	if err := b.gate("iter", dir, false); err != nil {
		return err
	}
	if b.mode("iter", dir) == "failed" {
		return errInjected
	}
	return b.inner.IterWithAttributes(ctx, dir, f, options...)
}

func (b *faultBucket) SupportedIterOptions() []objstore.IterOptionType {
	return b.inner.SupportedIterOptions()
}

var versionRe = regexp.MustCompile(`"version":\s*1`)

// brokenReader yields its data and then an I/O error (the connection broke while the body was read).
type brokenReader struct {
	data []byte
	off  int
}

var errBody = errors.New("verif: connection reset while reading the object body")

func (r *brokenReader) Read(p []byte) (int, error) {
	if r.off >= len(r.data) {
		return 0, errBody
	}
	n := copy(p, r.data[r.off:])
	r.off += n
	return n, nil
}
func (r *brokenReader) Close() error { return nil }

func (b *faultBucket) mode(kind, name string) string {
	b.mu.Lock()
	h := b.intercept
	b.mu.Unlock()
	if h == nil {
		return ""
	}
	return h(kind, name)
}

func (b *faultBucket) Get(ctx context.Context, name string) (io.ReadCloser, error) {
	if err := b.gate("get", name, false); err != nil {
		return nil, err
	}
	m := b.mode("get", name)
	switch m {
	case "failed":
		return nil, errInjected
	case "notfound":
		_, err := b.inner.Get(ctx, "verif/definitely/not/there")
		return nil, err
	case "corrupt":
		return io.NopCloser(strings.NewReader("{ this is not json")), nil
	case "body0", "bodyhalf", "bodylast":
		var body []byte
		if rc, err := b.inner.Get(ctx, name); err == nil {
			body, _ = io.ReadAll(rc)
			rc.Close()
		}
		k := 0
		switch {
		case len(body) == 0:
		case m == "bodyhalf":
			k = len(body) / 2
		case m == "bodylast":
			k = len(body) - 1
		}
		return &brokenReader{data: body[:k]}, nil
	case "badversion":
		rc, err := b.inner.Get(ctx, name)
		if err != nil {
			// no such object: an object of an unsupported version appears in its place
			return io.NopCloser(strings.NewReader(`{"version": 9}`)), nil
		}
		body, _ := io.ReadAll(rc)
		rc.Close()
		loc := versionRe.FindIndex(body)
		if loc != nil {
			body = append(append(append([]byte{}, body[:loc[0]]...), []byte(`"version": 9`)...), body[loc[1]:]...)
		}
		return io.NopCloser(bytes.NewReader(body)), nil
	}
	return b.inner.Get(ctx, name)
}

func (b *faultBucket) GetRange(ctx context.Context, name string, off, length int64) (io.ReadCloser, error) {
	if err := b.gate("getrange", name, false); err != nil {
		return nil, err
	}
	return b.inner.GetRange(ctx, name, off, length)
}

func (b *faultBucket) Exists(ctx context.Context, name string) (bool, error) {
	if err := b.gate("exists", name, false); err != nil {
		return false, err
	}
	if b.mode("exists", name) == "failed" {
		return false, errInjected
	}
	return b.inner.Exists(ctx, name)
}

func (b *faultBucket) Attributes(ctx context.Context, name string) (objstore.ObjectAttributes, error) {
	if err := b.gate("attributes", name, false); err != nil {
		return objstore.ObjectAttributes{}, err
	}
	return b.inner.Attributes(ctx, name)
}

func (b *faultBucket) IsObjNotFoundErr(err error) bool  { return b.inner.IsObjNotFoundErr(err) }
func (b *faultBucket) IsAccessDeniedErr(err error) bool { return false }

func (b *faultBucket) Upload(ctx context.Context, name string, r io.Reader, opts ...objstore.ObjectUploadOption) error {
	if err := b.gate("upload", name, true); err != nil {
		return err
	}
	body, err := io.ReadAll(r)
	if err != nil {
		return err
	}
	err = b.inner.Upload(ctx, name, bytes.NewReader(body), opts...)
	b.done("upload", name, int64(len(body)))
	return err
}

func (b *faultBucket) Delete(ctx context.Context, name string) error {
	if err := b.gate("delete", name, true); err != nil {
		return err
	}
	err := b.inner.Delete(ctx, name)
	b.done("delete", name, 0)
	return err
}
