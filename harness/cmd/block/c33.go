package main

// C33 — the compactor does nothing destructive on an incomplete view.
//
// The real compact.BucketCompactor (syncer, meta fetcher with the deletion-mark / duplicate /
// no-compact filters, grouper, planner, TSDB leveled compactor, blocks cleaner) runs over a
// fault-injecting bucket that HAS work to do, and one read of one metadata sync is made to end badly.
//
// ops:
//   o.c33.probe <layout> <lister>                       clean run; answer = number of reads per kind in every sync
//   c33.fault <layout> <lister> <call> <sync> <readKind> <n> <outcome>
//        layout   = full  : 6 real 1s blocks of one group (two compactions of three), a duplicate pair (garbage
//                           collection marks one), a block marked for deletion 100 h ago (cleaner deletes it),
//                           a partial upload; before the 2nd Compact call 3 more real blocks and a duplicate pair arrive
//                   small : 3 real blocks and the duplicate pair
//        lister   = concurrent | recursive
//        call     = 1 | 2      which BucketCompactor.Compact call of the same compactor (2: after a clean first call)
//        sync     = ordinal of the metadata sync inside that call (every loop iteration syncs once)
//        readKind = listing | exists-meta | get-meta | get-deletion-mark | get-no-compact-mark ; n = ordinal among the
//                   reads of that kind in that sync ; outcome = failed | notfound | corrupt | badversion |
//                   body0 | bodyhalf | bodylast (Get returns nil and a reader that breaks after 0 / half / all-but-one bytes)
//   c33.multi <layout> <lister> <conc> <call> <sync> <readKind>:<n>:<outcome>,…
//        several reads of ONE sync end badly; conc = concurrency of the fetcher and of the marker filters (1 | 4)
//   answer: sync=failed compact=<err|ok> writes-after=<number>  |  sync=ok compact=n/a writes-after=n/a  |  not-reached
//
// oracle:
//   wrote-after-failed-sync       a mutating bucket call after a metadata sync returned an error, before Compact returned
//   compact-ok-after-failed-sync  Compact returned nil although a sync of it failed
//   read-failure-swallowed        a read of the sync failed (transient error) and the sync reported no error
//   wrote-during-sync             a mutating bucket call while a metadata sync was running

import (
	"bytes"
	"context"
	"encoding/json"
	"fmt"
	"io"
	"log/slog"
	"os"
	"path"
	"path/filepath"
	"sort"
	"strconv"
	"strings"
	"sync"
	"time"

	"github.com/go-kit/log"
	"github.com/oklog/ulid/v2"
	"github.com/prometheus/client_golang/prometheus"
	"github.com/prometheus/prometheus/model/labels"
	"github.com/prometheus/prometheus/tsdb"
	"github.com/thanos-io/objstore"

	"github.com/thanos-io/thanos/pkg/block"
	"github.com/thanos-io/thanos/pkg/block/metadata"
	"github.com/thanos-io/thanos/pkg/compact"
	"github.com/thanos-io/thanos/pkg/testutil/e2eutil"
	"github.com/thanos-io/thanos/verifharness/hlib"
)

func init() {
	props = append(props, &hlib.Prop{ID: "C33", Gen: genC33, Exec: execC33})
}

// ---------------------------------------------------------------- real block templates (built once per process)

type blockFiles map[string][]byte // object name (with the ULID prefix) -> content

var (
	c33Once      sync.Once
	c33Templates []blockFiles // 9 real blocks [i*1000,(i+1)*1000) of group {ext="A"}
)

func c33BuildTemplates() {
	dir, err := os.MkdirTemp("", "verif-c33-tpl-")
	must2(err)
	defer os.RemoveAll(dir)
	series := []labels.Labels{labels.FromStrings("a", "1"), labels.FromStrings("a", "2"), labels.FromStrings("a", "3", "b", "1")}
	for i := 0; i < 9; i++ {
		id, err := e2eutil.CreateBlock(context.Background(), dir, series, 20, int64(i)*1000, int64(i+1)*1000, labels.FromStrings("ext", "A"), 0, metadata.NoneFunc, nil)
		must2(err)
		bkt := objstore.NewInMemBucket()
		must2(block.Upload(context.Background(), log.NewNopLogger(), bkt, filepath.Join(dir, id.String()), metadata.NoneFunc))
		c33Templates = append(c33Templates, blockFiles(bkt.Objects()))
	}
}

func putFiles(bkt *objstore.InMemBucket, f blockFiles) {
	for name, b := range f {
		must2(bkt.Upload(context.Background(), name, bytes.NewReader(b)))
	}
}

func fakeBlock(bkt *objstore.InMemBucket, n int, ext string, minT, maxT int64, sources []int) ulid.ULID {
	id := testULID(n)
	m := c32Meta(id, 0, maxT)
	m.MinTime = minT
	m.Thanos.Labels = map[string]string{"ext": ext}
	m.Compaction.Sources = nil
	for _, s := range sources {
		m.Compaction.Sources = append(m.Compaction.Sources, testULID(s))
	}
	var buf bytes.Buffer
	must2(m.Write(&buf))
	ctx := context.Background()
	must2(bkt.Upload(ctx, path.Join(id.String(), block.MetaFilename), &buf))
	must2(bkt.Upload(ctx, path.Join(id.String(), block.IndexFilename), bytes.NewReader(make([]byte, 8))))
	must2(bkt.Upload(ctx, path.Join(id.String(), block.ChunksDirname, "000001"), bytes.NewReader(make([]byte, 8))))
	return id
}

func c33Fill(bkt *objstore.InMemBucket, layout string, stage int) {
	ctx := context.Background()
	switch {
	case stage == 1 && layout == "full":
		for i := 0; i < 6; i++ {
			putFiles(bkt, c33Templates[i])
		}
		fakeBlock(bkt, 101, "B", 100000, 101000, []int{101})
		fakeBlock(bkt, 102, "B", 100000, 102000, []int{101, 103})
		id := fakeBlock(bkt, 111, "C", 200000, 201000, []int{111})
		mark, _ := json.Marshal(metadata.DeletionMark{ID: id, Version: 1, DeletionTime: time.Now().Add(-100 * time.Hour).Unix()})
		must2(bkt.Upload(ctx, path.Join(id.String(), metadata.DeletionMarkFilename), bytes.NewReader(mark)))
		must2(bkt.Upload(ctx, path.Join(testULID(121).String(), block.ChunksDirname, "000001"), bytes.NewReader(make([]byte, 8)))) // partial upload
	case stage == 1 && layout == "small":
		for i := 0; i < 3; i++ {
			putFiles(bkt, c33Templates[i])
		}
		fakeBlock(bkt, 101, "B", 100000, 101000, []int{101})
		fakeBlock(bkt, 102, "B", 100000, 102000, []int{101, 103})
	case stage == 2:
		for i := 6; i < 9; i++ {
			putFiles(bkt, c33Templates[i])
		}
		fakeBlock(bkt, 131, "D", 300000, 301000, []int{131})
		fakeBlock(bkt, 132, "D", 300000, 302000, []int{131, 133})
	}
}

// ---------------------------------------------------------------- instrumented fetcher

type c33Event struct {
	kind string // sync-start sync-end-ok sync-end-err read mut fault
	what string
}

type c33Recorder struct {
	mu     sync.Mutex
	events []c33Event
	inSync bool
	call   int
	syncNo int
	counts map[string]int // readKind -> count in the current sync
	// fault plan: reads of sync fSync of call fCall
	fCall, fSync int
	faults       []c33Fault
	fired        bool
	perSync      []string // probe: counts of every finished sync
}

func (r *c33Recorder) add(kind, what string) {
	r.events = append(r.events, c33Event{kind, what})
}

type c33Fault struct {
	kind    string
	n       int
	outcome string
	done    bool
}

type c33Fetcher struct {
	inner block.MetadataFetcher
	rec   *c33Recorder
}

func (f *c33Fetcher) Fetch(ctx context.Context) (map[ulid.ULID]*metadata.Meta, map[ulid.ULID]error, error) {
	r := f.rec
	r.mu.Lock()
	r.syncNo++
	r.inSync = true
	r.counts = map[string]int{}
	r.add("sync-start", strconv.Itoa(r.syncNo))
	r.mu.Unlock()
	m, p, err := f.inner.Fetch(ctx)
	r.mu.Lock()
	r.inSync = false
	var cs []string
	for _, k := range []string{"listing", "exists-meta", "get-meta", "get-deletion-mark", "get-no-compact-mark"} {
		cs = append(cs, fmt.Sprintf("%s=%d", k, r.counts[k]))
	}
	r.perSync = append(r.perSync, fmt.Sprintf("c%ds%d:%s", r.call, r.syncNo, strings.Join(cs, ",")))
	if err != nil {
		r.add("sync-end-err", err.Error())
	} else {
		r.add("sync-end-ok", "")
	}
	r.mu.Unlock()
	return m, p, err
}

func (f *c33Fetcher) UpdateOnChange(fn func([]metadata.Meta, error)) { f.inner.UpdateOnChange(fn) }

func c33ReadKind(kind, name string) string {
	switch {
	case kind == "iter" && name == "":
		return "listing"
	case kind == "exists" && strings.HasSuffix(name, "/"+block.MetaFilename):
		return "exists-meta"
	case kind == "get" && strings.HasSuffix(name, "/"+block.MetaFilename):
		return "get-meta"
	case kind == "get" && strings.HasSuffix(name, "/"+metadata.DeletionMarkFilename):
		return "get-deletion-mark"
	case kind == "get" && strings.HasSuffix(name, "/"+metadata.NoCompactMarkFilename):
		return "get-no-compact-mark"
	}
	return ""
}

// intercept is the faultBucket hook: classifies the reads of a sync and fires the planned fault.
func (r *c33Recorder) intercept(kind, name string) string {
	r.mu.Lock()
	defer r.mu.Unlock()
	if !r.inSync {
		return ""
	}
	rk := c33ReadKind(kind, name)
	if rk == "" {
		return ""
	}
	r.counts[rk]++
	if r.call == r.fCall && r.syncNo == r.fSync {
		for i := range r.faults {
			f := &r.faults[i]
			if !f.done && f.kind == rk && r.counts[rk] == f.n {
				f.done = true
				r.fired = true
				r.add("fault", rk+" "+f.outcome)
				return f.outcome
			}
		}
	}
	return ""
}

// ---------------------------------------------------------------- one run

type c33Result struct {
	fired       bool
	syncFailed  bool // the faulted sync (or, without a fault, any sync) returned an error
	compactErr  bool
	writesAfter int
	probe       string
}

func c33Run(c *hlib.Ctx, layout, lister string, conc int, rec *c33Recorder) c33Result {
	c33Once.Do(c33BuildTemplates)
	ctx := context.Background()
	logger := log.NewNopLogger()
	inner := objstore.NewInMemBucket()
	c33Fill(inner, layout, 1)
	fb := newFaultBucket(inner)
	fb.arm(-1)
	fb.intercept = rec.intercept
	fb.afterMut = func(cr callRec) {
		rec.mu.Lock()
		if rec.inSync {
			rec.add("mut-in-sync", cr.Kind+" "+cr.Name)
		} else {
			rec.add("mut", cr.Kind+" "+cr.Name)
		}
		rec.mu.Unlock()
	}
	insBkt := objstore.WithNoopInstr(fb)
	ignoreDel := block.NewIgnoreDeletionMarkFilter(logger, insBkt, 24*time.Hour, conc)
	dedup := block.NewDeduplicateFilter(conc)
	noCompact := compact.NewGatherNoCompactionMarkFilter(logger, insBkt, conc)
	var l block.Lister
	if lister == "recursive" {
		l = block.NewRecursiveLister(logger, insBkt)
	} else {
		l = block.NewConcurrentLister(logger, insBkt)
	}
	mf, err := block.NewMetaFetcher(logger, conc, insBkt, l, "", nil, []block.MetadataFilter{ignoreDel, dedup, noCompact})
	must2(err)
	cnt := prometheus.NewCounter(prometheus.CounterOpts{Name: "x"})
	sy, err := compact.NewMetaSyncer(logger, nil, fb, &c33Fetcher{inner: mf, rec: rec}, dedup, ignoreDel, cnt, cnt, 0)
	must2(err)
	slogger := slog.New(slog.NewTextHandler(io.Discard, nil))
	comp, err := tsdb.NewLeveledCompactor(ctx, nil, slogger, []int64{1000, 3000}, nil, nil)
	must2(err)
	planner := compact.NewPlanner(logger, []int64{1000, 3000}, noCompact)
	grouper := compact.NewDefaultGrouper(logger, fb, false, false, nil, cnt, cnt, cnt, metadata.NoneFunc, 4, 4)
	cleaner := compact.NewBlocksCleaner(logger, fb, ignoreDel, 48*time.Hour, cnt, cnt)
	tmp, err := os.MkdirTemp("", "verif-c33-")
	must2(err)
	defer os.RemoveAll(tmp)
	bc, err := compact.NewBucketCompactor(logger, sy, grouper, planner, comp, filepath.Join(tmp, "compact"), fb, 2, true, cleaner)
	must2(err)

	var res c33Result
	calls := 1
	if rec.fCall == 2 || rec.fCall == 0 {
		calls = 2
	}
	for call := 1; call <= calls; call++ {
		if call == 2 {
			c33Fill(inner, layout, 2)
		}
		rec.mu.Lock()
		rec.call, rec.syncNo = call, 0
		start := len(rec.events)
		rec.mu.Unlock()
		cerr := bc.Compact(ctx)
		if cerr != nil && os.Getenv("VERIF_DEBUG") != "" {
			fmt.Fprintln(os.Stderr, "compact error:", cerr)
		}
		rec.mu.Lock()
		evs := append([]c33Event(nil), rec.events[start:]...)
		rec.mu.Unlock()
		// ---- oracle over the events of this call
		failedSync := false
		after := 0
		for _, e := range evs {
			switch e.kind {
			case "sync-end-err":
				failedSync = true
			case "mut-in-sync":
				c.Violation("wrote-during-sync", "mutating call during a metadata sync: "+e.what)
			case "mut":
				if failedSync {
					after++
					c.Violation("wrote-after-failed-sync", "mutating call after a failed metadata sync: "+e.what)
				}
			}
		}
		if failedSync && cerr == nil {
			c.Violation("compact-ok-after-failed-sync", "Compact returned nil although a metadata sync of this call failed")
		}
		// a transient failure of a sync read must fail that sync
		for i, e := range evs {
			if e.kind == "fault" && (strings.HasSuffix(e.what, " failed") || strings.Contains(e.what, " body")) {
				for _, e2 := range evs[i:] {
					if e2.kind == "sync-end-ok" {
						c.Violation("read-failure-swallowed", "read failed ("+e.what+") and the sync reported no error")
					}
					if strings.HasPrefix(e2.kind, "sync-end") {
						break
					}
				}
			}
		}
		if call == rec.fCall || rec.fCall == 0 {
			res.syncFailed = res.syncFailed || failedSync
			res.compactErr = res.compactErr || cerr != nil
			res.writesAfter += after
		} else if cerr != nil {
			// the clean first call must succeed, otherwise the scenario is not what the line says
			res.probe = "clean-call-failed: " + cerr.Error()
		}
	}
	res.fired = rec.fired
	if res.probe == "" {
		res.probe = strings.Join(rec.perSync, ";")
	}
	return res
}

func execC33(c *hlib.Ctx, tok []string) string {
	if len(tok) == 3 && tok[0] == "o.c33.probe" {
		if (tok[1] != "full" && tok[1] != "small") || (tok[2] != "concurrent" && tok[2] != "recursive") {
			return "bad-op"
		}
		rec := &c33Recorder{}
		res := c33Run(c, tok[1], tok[2], 1, rec)
		if res.syncFailed || res.compactErr {
			c.Violation("clean-run-failed", "a fault-free compaction failed")
		}
		return res.probe
	}
	validFault := func(kind, outcome string) bool {
		switch kind {
		case "listing", "exists-meta":
			return outcome == "failed"
		case "get-meta", "get-deletion-mark", "get-no-compact-mark":
			return outcome == "failed" || outcome == "notfound" || outcome == "corrupt" || outcome == "badversion" ||
				outcome == "body0" || outcome == "bodyhalf" || outcome == "bodylast"
		}
		return false
	}
	okCfg := func(layout, lister string) bool {
		return (layout == "full" || layout == "small") && (lister == "concurrent" || lister == "recursive")
	}
	var rec *c33Recorder
	var layout, lister string
	conc := 1
	switch {
	case len(tok) == 8 && tok[0] == "c33.fault":
		call, e1 := strconv.Atoi(tok[3])
		syncNo, e2 := strconv.Atoi(tok[4])
		n, e3 := strconv.Atoi(tok[6])
		if e1 != nil || e2 != nil || e3 != nil || call < 1 || call > 2 || syncNo < 1 || n < 1 || !okCfg(tok[1], tok[2]) || !validFault(tok[5], tok[7]) {
			return "bad-op"
		}
		layout, lister = tok[1], tok[2]
		rec = &c33Recorder{fCall: call, fSync: syncNo, faults: []c33Fault{{kind: tok[5], n: n, outcome: tok[7]}}}
	case len(tok) == 7 && tok[0] == "c33.multi":
		cc, e0 := strconv.Atoi(tok[3])
		call, e1 := strconv.Atoi(tok[4])
		syncNo, e2 := strconv.Atoi(tok[5])
		if e0 != nil || e1 != nil || e2 != nil || (cc != 1 && cc != 4) || call < 1 || call > 2 || syncNo < 1 || !okCfg(tok[1], tok[2]) {
			return "bad-op"
		}
		layout, lister, conc = tok[1], tok[2], cc
		rec = &c33Recorder{fCall: call, fSync: syncNo}
		for _, t := range hlib.Split(tok[6], ",") {
			p := strings.Split(t, ":")
			if len(p) != 3 {
				return "bad-op"
			}
			n, err := strconv.Atoi(p[1])
			if err != nil || n < 1 || !validFault(p[0], p[2]) {
				return "bad-op"
			}
			rec.faults = append(rec.faults, c33Fault{kind: p[0], n: n, outcome: p[2]})
		}
		if len(rec.faults) == 0 {
			return "bad-op"
		}
		c.Count(fmt.Sprintf("multi:faults=%d,conc=%d", len(rec.faults), conc))
	default:
		return "bad-op"
	}
	res := c33Run(c, layout, lister, conc, rec)
	if strings.HasPrefix(res.probe, "clean-call-failed") {
		return res.probe
	}
	if !res.fired {
		return "not-reached"
	}
	for _, f := range rec.faults {
		if f.done {
			c.Count("fault:" + f.kind + ":" + f.outcome)
		}
	}
	c.Count(fmt.Sprintf("fault:call%d-sync%d", rec.fCall, rec.fSync))
	s, k, w := "ok", "ok", "n/a"
	if res.syncFailed {
		s, w = "failed", strconv.Itoa(res.writesAfter)
	}
	if res.compactErr {
		k = "err"
	}
	if !res.syncFailed {
		// The sync succeeded on a view in which the faulted block counts as a partial upload / unmarked.  What
		// the compactor then does is outside C33 (e.g. a block hidden by a corrupt meta.json read reappears in
		// the next sync and overlaps the block compacted around it: "pre compaction overlap check" error) — recorded.
		if res.compactErr {
			c.Count("tolerated-fault-then-compact-error")
		}
		k = "n/a"
	}
	return fmt.Sprintf("sync=%s compact=%s writes-after=%s", s, k, w)
}

// ---------------------------------------------------------------- generator: every read of every sync

func genC33(c *hlib.Ctx) {
	type cfg struct{ layout, lister string }
	cfgs := []cfg{{"full", "concurrent"}}
	if c.Tier != "quick" {
		cfgs = append(cfgs, cfg{"full", "recursive"}, cfg{"small", "concurrent"}, cfg{"small", "recursive"})
	}
	for _, cf := range cfgs {
		probe := c.Do(fmt.Sprintf("o.c33.probe %s %s", cf.layout, cf.lister), true)
		// c1s1:listing=1,exists-meta=10,…;c1s2:…
		type sc struct {
			call, sync int
			counts     map[string]int
		}
		var syncs []sc
		for _, part := range strings.Split(probe, ";") {
			var x sc
			hd := strings.SplitN(part, ":", 2)
			if len(hd) != 2 {
				continue
			}
			if _, err := fmt.Sscanf(hd[0], "c%ds%d", &x.call, &x.sync); err != nil {
				continue
			}
			x.counts = map[string]int{}
			for _, kv := range strings.Split(hd[1], ",") {
				p := strings.SplitN(kv, "=", 2)
				if len(p) == 2 {
					x.counts[p[0]], _ = strconv.Atoi(p[1])
				}
			}
			syncs = append(syncs, x)
		}
		c.Count(fmt.Sprintf("syncs:%s-%s:%d", cf.layout, cf.lister, len(syncs)))
		kinds := []string{"listing", "exists-meta", "get-meta", "get-deletion-mark", "get-no-compact-mark"}
		for _, s := range syncs {
			for _, k := range kinds {
				cnt := s.counts[k]
				var ns []int
				for n := 1; n <= cnt; n++ {
					ns = append(ns, n)
				}
				// quick: first, a middle one, last of each kind; thorough: every read of the main
				// configuration, three of each kind for the other listers / layouts
				sample := c.Tier == "quick" || !(cf.layout == "full" && cf.lister == "concurrent")
				if sample && len(ns) > 3 {
					ns = []int{1, c.R.Range(2, cnt-1), cnt}
				}
				sort.Ints(ns)
				for _, n := range ns {
					outcomes := []string{"failed"}
					if k != "listing" && k != "exists-meta" && ((c.Tier != "quick" && (n == 1 || n == cnt || c.R.Chance(1, 4))) || (c.Tier == "quick" && c.R.Chance(1, 3))) {
						outcomes = append(outcomes, "notfound", "corrupt", "badversion")
					}
					if k != "listing" && k != "exists-meta" {
						// the body of the object breaks while it is read (for meta.json: always; markers: sampled)
						bodies := []string{"body0", "bodyhalf", "bodylast"}
						if c.Tier == "quick" {
							if k == "get-meta" || c.R.Chance(1, 3) {
								outcomes = append(outcomes, bodies[c.R.Intn(3)])
							}
						} else if k == "get-meta" || n == 1 || n == cnt || c.R.Chance(1, 4) {
							outcomes = append(outcomes, bodies...)
						}
					}
					for _, o := range outcomes {
						c.Do(fmt.Sprintf("c33.fault %s %s %d %d %s %d %s", cf.layout, cf.lister, s.call, s.sync, k, n, o), true)
					}
				}
			}
		}
		// several faults in one sync, and fetcher / filter concurrency 4
		if cf.layout != "full" {
			continue
		}
		allOutcomes := []string{"failed", "notfound", "corrupt", "badversion", "body0", "bodyhalf", "bodylast"}
		tolerated := []string{"notfound", "corrupt"}
		for _, s := range syncs {
			rounds := c.N(1, 8)
			if c.Tier == "quick" && cf.lister != "concurrent" {
				rounds = 0
			}
			for round := 0; round < rounds; round++ {
				nf := c.R.Range(2, 3)
				mode := c.R.Intn(3) // 0: all tolerated, 1: mixed, 2: any
				var fs []string
				used := map[string]bool{}
				for len(fs) < nf {
					k := kinds[c.R.Intn(len(kinds))]
					// later reads of the sync shrink when earlier faults turn blocks into partial ones: stay below
					limit := s.counts[k] - nf
					if k == "listing" || k == "exists-meta" || k == "get-meta" {
						limit = s.counts[k]
					}
					if limit < 1 {
						if len(used) > 20 {
							break
						}
						used[fmt.Sprint(len(used))] = true
						continue
					}
					n := c.R.Range(1, limit)
					key := fmt.Sprintf("%s:%d", k, n)
					if used[key] {
						continue
					}
					used[key] = true
					o := "failed"
					if k != "listing" && k != "exists-meta" {
						switch mode {
						case 0:
							o = tolerated[c.R.Intn(2)]
						default:
							o = allOutcomes[c.R.Intn(len(allOutcomes))]
						}
					} else if mode == 0 {
						continue
					}
					fs = append(fs, key+":"+o)
				}
				if len(fs) == 0 {
					continue
				}
				conc := []int{1, 4}[c.R.Intn(2)]
				if c.Tier == "quick" {
					conc = 4
				}
				c.Do(fmt.Sprintf("c33.multi %s %s %d %d %d %s", cf.layout, cf.lister, conc, s.call, s.sync, strings.Join(fs, ",")), true)
			}
			// single faults at concurrency 4: first read of each kind fails
			if c.Tier != "quick" {
				for _, k := range kinds {
					if s.counts[k] >= 1 {
						c.Do(fmt.Sprintf("c33.multi %s %s 4 %d %d %s:%d:failed", cf.layout, cf.lister, s.call, s.sync, k, c.R.Range(1, s.counts[k])), true)
					}
				}
			}
		}
	}
}
