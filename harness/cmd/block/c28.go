package main

// C28 — a block is visible in object storage only when all its files are.
//
// op (one self-contained scenario on ONE block, starting from an empty bucket):
//
//   blk.run <chunks> <index> <steps>          compared with the Lean model
//   o.blk.run <chunks> <index> <steps>        oracle only (concurrent chunk upload: order of puts not deterministic)
//
//   chunks = <name>:<size>,...  | -           segment files of the local block dir (names sorted)
//   index  = <size>
//   steps  = <proc>:<k>;...                   k = number of mutating bucket calls that still reach the
//                                             bucket in this run, then every call fails (crash); x = no crash
//   proc   = up     block.Upload(dir)                      (upc: with upload concurrency 4, o. ops only)
//            ship   shipper.Shipper.Sync (fresh shipper state, one local block)
//            rep    replicate: ensureBlockIsReplicated from an origin bucket holding the complete block
//            del    block.Delete
//            mark   block.MarkForDeletion
//            nocomp block.MarkForNoCompact
//
// answer:  <status>[<mutating calls that reached the bucket>] ... => <bucket listing>
//   status = ok | err ; call = put <name> <size> | put <name> (json files: no size) | del <name>
//   names are relative to the block directory ("." = the directory marker of the block itself)
//
// oracle (after EVERY mutating call that reached the bucket, on the underlying in-memory bucket):
//   visible-incomplete        meta.json present but a file it lists (or a local chunk/index file) is missing or has another size
//   mark-removed-before-files  a Delete run that started with a deletion mark removed the mark while other objects of the block remain

import (
	"context"
	"encoding/json"
	"fmt"
	"os"
	"path"
	"path/filepath"
	"sort"
	"strconv"
	"strings"

	"github.com/go-kit/log"
	"github.com/oklog/ulid/v2"
	"github.com/prometheus/client_golang/prometheus"
	"github.com/prometheus/prometheus/model/labels"
	"github.com/prometheus/prometheus/tsdb"
	"github.com/thanos-io/objstore"

	"github.com/thanos-io/thanos/pkg/block"
	"github.com/thanos-io/thanos/pkg/block/metadata"
	"github.com/thanos-io/thanos/pkg/replicate"
	"github.com/thanos-io/thanos/pkg/shipper"
	"github.com/thanos-io/thanos/verifharness/hlib"
)

func init() {
	props = append(props, &hlib.Prop{ID: "C28", Gen: genC28, Exec: execC28})
}

type segFile struct {
	name string
	size int64
}

// testULID gives a fixed, valid block id per block number (no clock, no entropy).
func testULID(n int) ulid.ULID {
	var e [10]byte
	e[9] = byte(n)
	e[8] = byte(n >> 8)
	var id ulid.ULID
	_ = id.SetTime(uint64(1000 + n))
	_ = id.SetEntropy(e[:])
	return id
}

type localBlockSpec struct {
	id         ulid.ULID
	segs       []segFile
	index      int64
	minT, maxT int64
	numSamples uint64
	level      int
	extLabels  map[string]string
}

// writeLocalBlock creates <dbdir>/<id>/{chunks/*,index,meta.json}; file contents are filler bytes
// (block.Upload, Shipper and the replicator never look inside index or chunks).
func writeLocalBlock(dbdir string, s localBlockSpec) (string, error) {
	bdir := filepath.Join(dbdir, s.id.String())
	if err := os.MkdirAll(filepath.Join(bdir, block.ChunksDirname), 0o755); err != nil {
		return "", err
	}
	for _, sf := range s.segs {
		if err := os.WriteFile(filepath.Join(bdir, block.ChunksDirname, sf.name), make([]byte, sf.size), 0o644); err != nil {
			return "", err
		}
	}
	if err := os.WriteFile(filepath.Join(bdir, block.IndexFilename), make([]byte, s.index), 0o644); err != nil {
		return "", err
	}
	m := metadata.Meta{
		BlockMeta: tsdb.BlockMeta{
			ULID: s.id, MinTime: s.minT, MaxTime: s.maxT, Version: metadata.TSDBVersion1,
			Stats:      tsdb.BlockStats{NumSamples: s.numSamples, NumSeries: 1, NumChunks: 1},
			Compaction: tsdb.BlockMetaCompaction{Level: s.level, Sources: []ulid.ULID{s.id}},
		},
		Thanos: metadata.Thanos{Labels: s.extLabels, Downsample: metadata.ThanosDownsample{Resolution: 0}, Source: metadata.TestSource},
	}
	if err := m.WriteToDir(log.NewNopLogger(), bdir); err != nil {
		return "", err
	}
	return bdir, nil
}

func parseSegs(s string) ([]segFile, bool) {
	var out []segFile
	for _, t := range hlib.Split(s, ",") {
		p := strings.SplitN(t, ":", 2)
		if len(p) != 2 || p[0] == "" || strings.ContainsAny(p[0], "/. ") {
			return nil, false
		}
		n, err := strconv.ParseInt(p[1], 10, 64)
		if err != nil || n < 0 || n > 1<<20 {
			return nil, false
		}
		out = append(out, segFile{p[0], n})
	}
	if !sort.SliceIsSorted(out, func(i, j int) bool { return out[i].name < out[j].name }) {
		return nil, false
	}
	for i := 1; i < len(out); i++ {
		if out[i].name == out[i-1].name {
			return nil, false
		}
	}
	return out, true
}

type step struct {
	proc string
	k    int // -1 = no crash
}

func parseSteps(s string) ([]step, bool) {
	var out []step
	for _, t := range hlib.Split(s, ";") {
		p := strings.SplitN(t, ":", 2)
		if len(p) != 2 {
			return nil, false
		}
		k := -1
		if p[1] != "x" {
			v, err := strconv.Atoi(p[1])
			if err != nil || v < 0 {
				return nil, false
			}
			k = v
		}
		switch p[0] {
		case "up", "upc", "ship", "rep", "del", "mark", "nocomp":
		default:
			return nil, false
		}
		out = append(out, step{p[0], k})
	}
	return out, len(out) > 0
}

func isJSONName(rel string) bool { return strings.HasSuffix(rel, ".json") }

func relName(id ulid.ULID, full string) string {
	rel := strings.TrimPrefix(full, id.String()+"/")
	if rel == "" {
		return "."
	}
	return rel
}

func showMut(id ulid.ULID, r callRec) string {
	rel := relName(id, r.Name)
	if r.Kind == "delete" {
		return "del " + rel
	}
	if isJSONName(rel) {
		return "put " + rel
	}
	return fmt.Sprintf("put %s %d", rel, r.Size)
}

func showListing(id ulid.ULID, objs map[string][]byte) string {
	var names []string
	for n := range objs {
		if strings.HasPrefix(n, id.String()+"/") {
			names = append(names, relName(id, n))
		}
	}
	sort.Strings(names)
	for i, n := range names {
		if !isJSONName(n) {
			names[i] = fmt.Sprintf("%s:%d", n, len(objs[id.String()+"/"+n]))
		}
	}
	return hlib.Join(names, " ")
}

// checkVisibleComplete is the C28 oracle for one block on one bucket state.
func checkVisibleComplete(id ulid.ULID, objs map[string][]byte, local *localBlockSpec) string {
	mb, ok := objs[path.Join(id.String(), block.MetaFilename)]
	if !ok {
		return ""
	}
	var m metadata.Meta
	if err := json.Unmarshal(mb, &m); err != nil {
		return "meta.json in the bucket does not parse: " + err.Error()
	}
	for _, f := range m.Thanos.Files {
		if f.RelPath == block.MetaFilename {
			continue
		}
		o, ok := objs[path.Join(id.String(), f.RelPath)]
		if !ok {
			return fmt.Sprintf("meta.json present but listed file %s is missing", f.RelPath)
		}
		if int64(len(o)) != f.SizeBytes {
			return fmt.Sprintf("meta.json present but listed file %s has %d bytes, recorded %d", f.RelPath, len(o), f.SizeBytes)
		}
	}
	if local != nil {
		want := map[string]int64{block.IndexFilename: local.index}
		for _, sf := range local.segs {
			want[path.Join(block.ChunksDirname, sf.name)] = sf.size
		}
		for rel, sz := range want {
			o, ok := objs[path.Join(id.String(), rel)]
			if !ok {
				return fmt.Sprintf("meta.json present but block file %s is missing", rel)
			}
			if int64(len(o)) != sz {
				return fmt.Sprintf("meta.json present but block file %s has %d bytes, local file has %d", rel, len(o), sz)
			}
		}
		if len(m.Thanos.Files) > 0 && len(m.Thanos.Files) != len(want)+1 {
			return fmt.Sprintf("meta.json lists %d files, the block has %d", len(m.Thanos.Files), len(want)+1)
		}
	}
	return ""
}

func execC28(c *hlib.Ctx, tok []string) string {
	if len(tok) != 4 || (tok[0] != "blk.run" && tok[0] != "o.blk.run") {
		return "bad-op"
	}
	segs, ok1 := parseSegs(tok[1])
	idx, err := strconv.ParseInt(tok[2], 10, 64)
	steps, ok3 := parseSteps(tok[3])
	if !ok1 || err != nil || idx < 0 || idx > 1<<20 || !ok3 {
		return "bad-op"
	}
	tmp, err := os.MkdirTemp("", "verif-c28-")
	if err != nil {
		panic(err)
	}
	defer os.RemoveAll(tmp)
	ctx := context.Background()
	logger := log.NewNopLogger()
	id := testULID(0)
	spec := localBlockSpec{id: id, segs: segs, index: idx, minT: 0, maxT: 1000, numSamples: 10, level: 1, extLabels: map[string]string{"ext": "a"}}
	dbdir := filepath.Join(tmp, "db")
	bdir, err := writeLocalBlock(dbdir, spec)
	if err != nil {
		panic(err)
	}
	// origin bucket of the replicator: the complete block
	origin := objstore.NewInMemBucket()
	if err := block.Upload(ctx, logger, origin, bdir, metadata.NoneFunc); err != nil {
		panic(err)
	}
	inner := objstore.NewInMemBucket()
	fb := newFaultBucket(inner)
	counter := prometheus.NewCounter(prometheus.CounterOpts{Name: "x"})

	markAtStart, inDelete := false, false
	fb.afterMut = func(rec callRec) {
		objs := inner.Objects()
		if msg := checkVisibleComplete(id, objs, &spec); msg != "" {
			c.Violation("visible-incomplete", fmt.Sprintf("after %s: %s", showMut(id, rec), msg))
		}
		if inDelete && markAtStart {
			if _, ok := objs[path.Join(id.String(), metadata.DeletionMarkFilename)]; !ok {
				for n := range objs {
					if strings.HasPrefix(n, id.String()+"/") {
						c.Violation("mark-removed-before-files", fmt.Sprintf("after %s: deletion mark gone, %s still there", showMut(id, rec), relName(id, n)))
						break
					}
				}
			}
		}
	}

	var parts []string
	for _, st := range steps {
		c.Count("step:" + st.proc)
		if st.k >= 0 {
			c.Count("step-crash")
		}
		_, markAtStart = inner.Objects()[path.Join(id.String(), metadata.DeletionMarkFilename)]
		inDelete = st.proc == "del"
		fb.arm(st.k)
		var err error
		switch st.proc {
		case "up":
			err = block.Upload(ctx, logger, fb, bdir, metadata.NoneFunc)
		case "upc":
			err = block.Upload(ctx, logger, fb, bdir, metadata.NoneFunc, objstore.WithUploadConcurrency(4))
		case "ship":
			_ = os.Remove(filepath.Join(dbdir, shipper.DefaultMetaFilename))
			root, rerr := os.OpenRoot(dbdir)
			if rerr != nil {
				panic(rerr)
			}
			sh := shipper.New(fb, root, shipper.WithSource(metadata.TestSource),
				shipper.WithLabels(func() labels.Labels { return labels.FromStrings("ext", "a") }),
				shipper.WithHashFunc(metadata.NoneFunc))
			_, err = sh.Sync(ctx)
			_ = sh.Close()
		case "rep":
			err = replicate.VerifReplicateBlock(ctx, objstore.WithNoopInstr(origin), fb, id)
		case "del":
			err = block.Delete(ctx, logger, fb, id)
		case "mark":
			err = block.MarkForDeletion(ctx, logger, fb, id, "verif", counter)
		case "nocomp":
			err = block.MarkForNoCompact(ctx, logger, fb, id, metadata.ManualNoCompactReason, "verif", counter)
		}
		var muts []string
		for _, r := range fb.log() {
			if r.Mut && !r.Failed {
				muts = append(muts, showMut(id, r))
			}
		}
		status := "ok"
		if err != nil {
			status = "err"
			c.Count("status:err")
		} else {
			c.Count("status:ok")
		}
		parts = append(parts, fmt.Sprintf("%s[%s]", status, strings.Join(muts, ",")))
	}
	fb.afterMut = nil
	// the property once more on the final state
	if msg := checkVisibleComplete(id, inner.Objects(), &spec); msg != "" {
		c.Violation("visible-incomplete", "final state: "+msg)
	}
	return strings.Join(parts, " ") + " => " + showListing(id, inner.Objects())
}

func genSegs(r *hlib.Rand, n int) string {
	var xs []string
	for i := 1; i <= n; i++ {
		xs = append(xs, fmt.Sprintf("%06d:%d", i, r.Range(1, 300)))
	}
	return hlib.Join(xs, ",")
}

func kstr(k int) string {
	if k < 0 {
		return "x"
	}
	return strconv.Itoa(k)
}

func genC28(c *hlib.Ctx) {
	r := c.R
	do := func(prefix string, nseg int, steps string) {
		c.Count(fmt.Sprintf("segments:%d", nseg))
		c.Do(fmt.Sprintf("%s %s %d %s", prefix, genSegs(r, nseg), r.Range(1, 500), steps), true)
	}
	segChoices := []int{1, 2, 3, 0, 5}
	rounds := c.N(1, 6)
	for round := 0; round < rounds; round++ {
		for _, n := range segChoices {
			full := n + 2 // mutating calls of a complete upload
			// every crash point of each uploader, alone and followed by a restart of each uploader / a delete
			for _, p := range []string{"up", "ship", "rep"} {
				for k := 0; k <= full; k++ {
					do("blk.run", n, fmt.Sprintf("%s:%d", p, k))
					for _, q := range []string{"up", "ship", "rep", "del"} {
						do("blk.run", n, fmt.Sprintf("%s:%d;%s:x", p, k, q))
					}
					// crash, crash again somewhere, then finish
					k2 := r.Intn(full + 1)
					do("blk.run", n, fmt.Sprintf("%s:%d;%s:%d;%s:x", p, k, r.Pick([]string{"up", "ship", "rep"}), k2, r.Pick([]string{"up", "ship", "rep"})))
				}
			}
			// every crash point of Delete on a complete, marked block (with and without a no-compact mark), then restart
			dfull := n + 2 + 1 + 2 // meta + files + mark + dir markers
			for k := 0; k <= dfull+1; k++ {
				do("blk.run", n, fmt.Sprintf("up:x;mark:x;del:%d", k))
				do("blk.run", n, fmt.Sprintf("up:x;mark:x;del:%d;del:x", k))
				do("blk.run", n, fmt.Sprintf("up:x;nocomp:x;mark:x;del:%d;del:x", k))
				do("blk.run", n, fmt.Sprintf("up:x;del:%d;del:x", k)) // unmarked block (partial-upload cleaner path)
				// Delete interrupted at EVERY crash point, then EVERY uploader on the same bucket (the block came
				// from a local upload or from the replicator): run to the end, and crashed somewhere then finished
				for _, first := range []string{"up", "rep"} {
					for _, q := range []string{"up", "ship", "rep"} {
						c.Count("delete-crash-then:" + q)
						do("blk.run", n, fmt.Sprintf("%s:x;mark:x;del:%d;%s:x", first, k, q))
						do("blk.run", n, fmt.Sprintf("%s:x;mark:x;del:%d;%s:%d;%s:x;del:x", first, k, q, r.Intn(full+1), r.Pick([]string{"up", "ship", "rep"})))
					}
				}
			}
			// Delete of a partial upload at every crash point
			for k := 0; k <= full; k++ {
				do("blk.run", n, fmt.Sprintf("up:%d;del:%d;del:x", k, r.Intn(dfull)))
			}
			// markers with crash
			do("blk.run", n, "up:x;mark:0;mark:x;mark:x;nocomp:0;nocomp:x;nocomp:x")
		}
	}
	// random scenarios
	procs := []string{"up", "ship", "rep", "del", "mark", "nocomp", "up", "rep", "del"}
	for i := 0; i < c.N(400, 6000); i++ {
		n := segChoices[r.Intn(len(segChoices))]
		var st []string
		for j := r.Range(2, 6); j > 0; j-- {
			k := -1
			if r.Chance(2, 3) {
				k = r.Intn(n + 6)
			}
			st = append(st, r.Pick(procs)+":"+kstr(k))
		}
		do("blk.run", n, strings.Join(st, ";"))
	}
	// concurrent chunk upload: oracle only
	for i := 0; i < c.N(100, 1500); i++ {
		n := r.Range(2, 5)
		k := r.Intn(n + 3)
		do("o.blk.run", n, fmt.Sprintf("upc:%d;%s:x", k, r.Pick([]string{"upc", "up", "del", "rep"})))
	}
}
