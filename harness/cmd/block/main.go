// Family binary "block": C28 C31 C32 C33 C35.
package main

import "github.com/thanos-io/thanos/verifharness/hlib"

var props []*hlib.Prop

func main() { hlib.Main(props) }
