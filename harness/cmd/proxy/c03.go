package main

import (
	"context"
	"fmt"
	"hash/fnv"
	"math"
	"runtime"
	"sort"
	"strconv"
	"strings"
	"sync"
	"time"

	"github.com/cespare/xxhash/v2"
	"github.com/gogo/protobuf/types"
	"github.com/prometheus/prometheus/model/labels"
	"google.golang.org/grpc/codes"
	"google.golang.org/grpc/status"

	"github.com/thanos-io/thanos/pkg/component"
	"github.com/thanos-io/thanos/pkg/losertree"
	"github.com/thanos-io/thanos/pkg/store"
	"github.com/thanos-io/thanos/pkg/store/labelpb"
	"github.com/thanos-io/thanos/pkg/store/storepb"
	"github.com/thanos-io/thanos/verifharness/hlib"
)

// C03 — StoreAPI fan-out merge returns each series once, sorted, with all chunks.
//
// grammar (byte strings hex encoded, `-` = empty list / empty string, `_` = empty label set):
//   field   := n | <ty>.<data>.<hash>            hash = z<xxhash(data)> when Chunk.Hash is 0, else Chunk.Hash
//                                                (the model strips the z: it only sees the effective hash)
//   chunk   := <mint>~<maxt>~<raw>~<count>~<sum>~<min>~<max>~<counter>
//   chunks  := chunk ('+' chunk)* | -
//   series  := <labels>@<chunks>                 labels := <name>=<value> (',' …)* | _
//   frame   := S<series> | W<msg> | H<payload> | B<series> ('&' <series>)* | B
//   sframe  := <0|1><frame>                      1 = the proxy-side shard matcher keeps the frame (computed by the generator
//                                                with the real ShardMatcher; ignored by Exec, which runs the real matcher)
//   store   := <supportsSharding><supportsWithout><openErr>[kind]:<n | r<k>[kind] | h<k>>:<recvMsg>,<timeoutMsg>,<openMsg>:<sframe (';' sframe)* | ->
//   kind    := p | g | d | u | w | c | e   the error value the failing call returns (kindErr in fake.go): plain (default), gRPC status,
//              context.DeadlineExceeded, io.ErrUnexpectedEOF, an error wrapping io.EOF (%w), a type with Is(io.EOF) = true, io.EOF itself
//                                                r<k>: the Recv after k delivered frames fails; h<k>: … hangs until the frame timeout;
//                                                the three messages are the warning texts the real code produces (inputs of the model)
//   stores  := store ('|' store)* | -
// ops:
//   lt.merge <maxVal> <ints (',') per sequence ('_' = empty), sequences separated by '|'>      pkg/losertree on integers
//       (an element is key*16 + sequence index and `less` compares keys only, so that tie-breaking is observable)
//       -> <merged ints> closed=<sequence indices in close order>
//   ring.run <maxBuffered> <a<k> | p (',' …)>        the ring buffer of lazyRespSet through hooks (append skipped when
//       -> <popped values> h=<ringHead> t=<ringTail>       full - the producer would block -, pop skipped when empty)
//   merge.dedup <frame (';' frame)*>               NewResponseDeduplicator over a fixed stream
//       -> <frames>
//   merge.series <lazy> <bufsize> <batch> <limit> <abort> <dedup> <sharded> <without names | -> <stores>     ProxyStore.Series
//       -> <ok|aborted|err-open> shape=<b<n>|s|x,…> series=<series (';')> warn=<sorted msgs> hints=<sorted payloads>
//
// oracle (merge.series, status ok, no limit, dedup on, every store label-sorted): the answer lists the label sets of
// the delivered series strictly increasing, each once, with exactly the distinct chunks the stores delivered for it,
// ordered by (MinTime, MaxTime); batches never exceed the batch size and flatten to the same list.

func init() {
	props = append(props, &hlib.Prop{ID: "C03", Gen: genC03, Exec: execC03})
}

var mergeShard = &storepb.ShardInfo{TotalShards: 2, ShardIndex: 0, By: true, Labels: []string{"b"}}

const hangTimeout = 150 * time.Millisecond

// ---------------------------------------------------------------- parsing

type pField struct {
	ty   int
	data []byte
	hash uint64 // as in Chunk.Hash (0 = unset)
}

type pChunk struct {
	mint, maxt int64
	f          [6]*pField // raw count sum min max counter
}

type pSeries struct {
	lbls   labels.Labels
	chunks []pChunk
}

type pFrame struct {
	kind   byte // S W H B
	series []pSeries
	msg    []byte
	keep   bool
}

type pStore struct {
	sharding, without, openErr bool
	recvErrAt, hangAt          int
	recvKind, openKind         byte // error kind of the failing Recv / Series() call
	frames                     []pFrame
}

func parseFieldTok(s string) (*pField, bool) {
	if s == "n" {
		return nil, true
	}
	p := strings.Split(s, ".")
	if len(p) != 3 {
		return nil, false
	}
	ty, err := strconv.Atoi(p[0])
	d, err2 := hlib.UnHex(p[1])
	if err != nil || err2 != nil {
		return nil, false
	}
	f := &pField{ty: ty, data: d}
	if strings.HasPrefix(p[2], "z") {
		return f, true
	}
	h, err := strconv.ParseUint(p[2], 10, 64)
	if err != nil {
		return nil, false
	}
	f.hash = h
	return f, true
}

func parseChunkTok(s string) (pChunk, bool) {
	p := strings.Split(s, "~")
	var c pChunk
	if len(p) != 8 {
		return c, false
	}
	var e1, e2 error
	c.mint, e1 = strconv.ParseInt(p[0], 10, 64)
	c.maxt, e2 = strconv.ParseInt(p[1], 10, 64)
	if e1 != nil || e2 != nil {
		return c, false
	}
	for i := 0; i < 6; i++ {
		f, ok := parseFieldTok(p[2+i])
		if !ok {
			return c, false
		}
		c.f[i] = f
	}
	return c, true
}

func parseSeriesTok(s string) (pSeries, bool) {
	p := strings.Split(s, "@")
	if len(p) != 2 {
		return pSeries{}, false
	}
	l, ok := parseLabelsTok(p[0])
	if !ok {
		return pSeries{}, false
	}
	ps := pSeries{lbls: l}
	for _, t := range hlib.Split(p[1], "+") {
		c, ok := parseChunkTok(t)
		if !ok {
			return pSeries{}, false
		}
		ps.chunks = append(ps.chunks, c)
	}
	return ps, true
}

func parseFrameTok(s string) (pFrame, bool) {
	if len(s) < 1 {
		return pFrame{}, false
	}
	f := pFrame{kind: s[0], keep: true}
	rest := s[1:]
	switch s[0] {
	case 'S':
		ps, ok := parseSeriesTok(rest)
		if !ok {
			return f, false
		}
		f.series = []pSeries{ps}
	case 'W', 'H':
		b, err := hlib.UnHex(rest)
		if err != nil {
			return f, false
		}
		f.msg = b
	case 'B':
		for _, t := range hlib.Split(rest, "&") {
			ps, ok := parseSeriesTok(t)
			if !ok {
				return f, false
			}
			f.series = append(f.series, ps)
		}
	default:
		return f, false
	}
	return f, true
}

func parseStoreTok(s string) (*pStore, bool) {
	p := strings.Split(s, ":")
	if len(p) != 4 || (len(p[0]) != 3 && len(p[0]) != 4) {
		return nil, false
	}
	st := &pStore{sharding: p[0][0] == '1', without: p[0][1] == '1', openErr: p[0][2] == '1', recvErrAt: -1, hangAt: -1, recvKind: 'p', openKind: 'p'}
	if len(p[0]) == 4 {
		if !isErrKind(p[0][3]) {
			return nil, false
		}
		st.openKind = p[0][3]
	}
	switch {
	case p[1] == "n":
	case strings.HasPrefix(p[1], "r"):
		num := p[1][1:]
		if len(num) > 0 && isErrKind(num[len(num)-1]) {
			st.recvKind = num[len(num)-1]
			num = num[:len(num)-1]
		}
		k, err := strconv.Atoi(num)
		if err != nil {
			return nil, false
		}
		st.recvErrAt = k
	case strings.HasPrefix(p[1], "h"):
		k, err := strconv.Atoi(p[1][1:])
		if err != nil {
			return nil, false
		}
		st.hangAt = k
	default:
		return nil, false
	}
	for _, t := range hlib.Split(p[3], ";") {
		if len(t) < 2 || (t[0] != '0' && t[0] != '1') {
			return nil, false
		}
		f, ok := parseFrameTok(t[1:])
		if !ok {
			return nil, false
		}
		f.keep = t[0] == '1'
		st.frames = append(st.frames, f)
	}
	return st, true
}

func (c pChunk) pb() storepb.AggrChunk {
	mk := func(f *pField) *storepb.Chunk {
		if f == nil {
			return nil
		}
		return &storepb.Chunk{Type: storepb.Chunk_Encoding(f.ty), Data: f.data, Hash: f.hash}
	}
	return storepb.AggrChunk{MinTime: c.mint, MaxTime: c.maxt, Raw: mk(c.f[0]), Count: mk(c.f[1]), Sum: mk(c.f[2]),
		Min: mk(c.f[3]), Max: mk(c.f[4]), Counter: mk(c.f[5])}
}

func (s pSeries) pb() *storepb.Series {
	out := &storepb.Series{Labels: labelpb.ZLabelsFromPromLabels(s.lbls)}
	for _, c := range s.chunks {
		out.Chunks = append(out.Chunks, c.pb())
	}
	return out
}

func (f pFrame) pb() *storepb.SeriesResponse {
	switch f.kind {
	case 'S':
		return storepb.NewSeriesResponse(f.series[0].pb())
	case 'W':
		return &storepb.SeriesResponse{Result: &storepb.SeriesResponse_Warning{Warning: string(f.msg)}}
	case 'H':
		return storepb.NewHintsSeriesResponse(&types.Any{TypeUrl: "verif", Value: f.msg})
	}
	var ss []*storepb.Series
	for _, s := range f.series {
		ss = append(ss, s.pb())
	}
	return storepb.NewBatchResponse(ss)
}

// ---------------------------------------------------------------- canonical output

func showChunkPB(c storepb.AggrChunk) string {
	f := func(x *storepb.Chunk) string {
		if x == nil {
			return "n"
		}
		return fmt.Sprintf("%d.%s", int(x.Type), hlib.Hex(x.Data))
	}
	return strings.Join([]string{strconv.FormatInt(c.MinTime, 10), strconv.FormatInt(c.MaxTime, 10), f(c.Raw), f(c.Count), f(c.Sum), f(c.Min), f(c.Max), f(c.Counter)}, "~")
}

func showZLabels(l []labelpb.ZLabel) string {
	if len(l) == 0 {
		return "_"
	}
	var out []string
	for _, x := range l {
		out = append(out, hlib.HexS(x.Name)+"="+hlib.HexS(x.Value))
	}
	return strings.Join(out, ",")
}

func showSeriesPB(s *storepb.Series) string {
	var cs []string
	for _, c := range s.Chunks {
		cs = append(cs, showChunkPB(c))
	}
	return showZLabels(s.Labels) + "@" + hlib.Join(cs, "+")
}

func showFramePB(r *storepb.SeriesResponse) string {
	switch {
	case r.GetSeries() != nil:
		return "S" + showSeriesPB(r.GetSeries())
	case r.GetBatch() != nil:
		var ss []string
		for _, s := range r.GetBatch().Series {
			ss = append(ss, showSeriesPB(s))
		}
		return "B" + strings.Join(ss, "&")
	case r.GetHints() != nil:
		return "H" + hlib.Hex(r.GetHints().Value)
	}
	return "W" + hlib.HexS(r.GetWarning())
}

func flattenPB(rs []*storepb.SeriesResponse) []*storepb.Series {
	var out []*storepb.Series
	for _, r := range rs {
		if s := r.GetSeries(); s != nil {
			out = append(out, s)
		}
		if b := r.GetBatch(); b != nil {
			out = append(out, b.Series...)
		}
	}
	return out
}

func showOutcomePB(rs []*storepb.SeriesResponse, sortSeries bool) string {
	var shape, ser, warn, hints []string
	for _, r := range rs {
		switch {
		case r.GetSeries() != nil:
			shape = append(shape, "s")
		case r.GetBatch() != nil:
			shape = append(shape, fmt.Sprintf("b%d", len(r.GetBatch().Series)))
		case r.GetHints() != nil:
			shape = append(shape, "x")
			hints = append(hints, hlib.Hex(r.GetHints().Value))
		default:
			shape = append(shape, "x")
			warn = append(warn, hlib.HexS(r.GetWarning()))
		}
	}
	for _, s := range flattenPB(rs) {
		ser = append(ser, showSeriesPB(s))
	}
	sort.Strings(warn)
	sort.Strings(hints)
	if sortSeries {
		// without deduplication the order among series with equal labels depends on sort.Slice internals
		sort.Strings(ser)
	}
	return fmt.Sprintf("shape=%s series=%s warn=%s hints=%s", hlib.Join(shape, ","), hlib.Join(ser, ";"), hlib.Join(warn, ","), hlib.Join(hints, ","))
}

// ---------------------------------------------------------------- running the real proxy

type mergeReq struct {
	lazy                bool
	buf, batch, limit   int
	abort, dedup, shard bool
	without             []string
	stores              []*pStore
}

func parseMergeReq(tok []string) (*mergeReq, bool) {
	if len(tok) != 10 {
		return nil, false
	}
	rq := &mergeReq{}
	b := func(s string) bool { return s == "1" }
	for _, i := range []int{1, 5, 6, 7} {
		if tok[i] != "0" && tok[i] != "1" {
			return nil, false
		}
	}
	rq.lazy, rq.abort, rq.dedup, rq.shard = b(tok[1]), b(tok[5]), b(tok[6]), b(tok[7])
	var e1, e2, e3 error
	rq.buf, e1 = strconv.Atoi(tok[2])
	rq.batch, e2 = strconv.Atoi(tok[3])
	rq.limit, e3 = strconv.Atoi(tok[4])
	if e1 != nil || e2 != nil || e3 != nil {
		return nil, false
	}
	for _, w := range hlib.Split(tok[8], ",") {
		rq.without = append(rq.without, hlib.UnHexS(w))
	}
	for _, t := range hlib.Split(tok[9], "|") {
		st, ok := parseStoreTok(t)
		if !ok {
			return nil, false
		}
		rq.stores = append(rq.stores, st)
	}
	return rq, true
}

func storeName(i int) string { return fmt.Sprintf("s%d", i) }

// buildProxy makes a real ProxyStore over the scripted fake clients of the request.
func buildProxy(rq *mergeReq, sched uint64) *store.ProxyStore {
	hasHang := false
	var clients []store.Client
	for i, st := range rq.stores {
		fc := &fakeClient{name: storeName(i), mint: math.MinInt64, maxt: math.MaxInt64, shardable: st.sharding, withoutReplica: st.without,
			recvErrAt: st.recvErrAt, hangAt: st.hangAt, recvErr: kindErr(st.recvKind, errInjected.Error())}
		if st.openErr {
			fc.openErr = kindErr(st.openKind, errOpen.Error())
		}
		if st.hangAt >= 0 {
			hasHang = true
		}
		if sched%4 == 0 {
			fc.jitter = sched*31 + uint64(i) + 1
		}
		for _, f := range st.frames {
			fc.frames = append(fc.frames, f.pb())
		}
		clients = append(clients, fc)
	}
	timeout := 20 * time.Second
	if hasHang {
		timeout = hangTimeout
	}
	strategy := store.EagerRetrieval
	if rq.lazy {
		strategy = store.LazyRetrieval
	}
	opts := []store.ProxyStoreOption{store.WithLazyRetrievalMaxBufferedResponsesForProxy(rq.buf)}
	if !rq.dedup {
		opts = append(opts, store.WithoutDedup())
	}
	return store.NewProxyStore(nil, nil, func() []store.Client { return clients }, component.Query, labels.EmptyLabels(), timeout, strategy, opts...)
}

// runProxy executes the request on a real ProxyStore over fake clients.
func runProxy(rq *mergeReq, sched uint64) (status string, resps []*storepb.SeriesResponse) {
	// schedule variation: a quarter of the requests run with per-frame receive delays derived from the
	// op line, half of those on a single P
	if sched%8 == 0 {
		defer runtime.GOMAXPROCS(runtime.GOMAXPROCS(1))
	}
	p := buildProxy(rq, sched)
	req := &storepb.SeriesRequest{MinTime: 0, MaxTime: 100, Limit: int64(rq.limit), ResponseBatchSize: int64(rq.batch),
		Matchers:             []storepb.LabelMatcher{{Type: storepb.LabelMatcher_RE, Name: "b", Value: ".*"}, {Type: storepb.LabelMatcher_NEQ, Name: "zz", Value: "q"}},
		WithoutReplicaLabels: rq.without, PartialResponseStrategy: storepb.PartialResponseStrategy_WARN}
	if rq.abort {
		req.PartialResponseStrategy = storepb.PartialResponseStrategy_ABORT
	}
	if rq.shard {
		req.ShardInfo = mergeShard
	}
	srv := &collectServer{ctx: context.Background()}
	err := p.Series(req, srv)
	switch {
	case err == nil:
		status = "ok"
	case status_code(err) == codes.Aborted:
		status = "aborted"
	case err == store.ErrorNoStoresAvailable:
		status = "unavailable"
	case strings.Contains(err.Error(), "fetch series for "):
		status = "err-open"
	default:
		status = "err:" + err.Error()
	}
	return status, srv.resps
}

func status_code(err error) codes.Code { return status.Code(err) }

// ---------------------------------------------------------------- the independent oracle

type chunkKey string

func keyOf(c storepb.AggrChunk) chunkKey { return chunkKey(showChunkPB(c)) }

// delivered lists, per store, the series frames the proxy is given before the failure point
// (batches unpacked, proxy-side sharding applied with the real matcher, replica labels removed when
// the store cannot do it), plus whether the store failed.
func delivered(rq *mergeReq) (series []*storepb.Series, sortedInputs bool, failed []bool, populated2dup bool) {
	per, sortedInputs, failed := deliveredPerStore(rq)
	for _, p := range per {
		series = append(series, p...)
	}
	return series, sortedInputs, failed, false
}

func deliveredPerStore(rq *mergeReq) (per [][]*storepb.Series, sortedInputs bool, failed []bool) {
	sortedInputs = true
	per = make([][]*storepb.Series, len(rq.stores))
	var sm *storepb.ShardMatcher
	if rq.shard {
		pl := &sync.Pool{New: func() any { b := make([]byte, 0, 64); return &b }}
		sm = mergeShard.Matcher(pl)
	}
	failed = make([]bool, len(rq.stores))
	for si, st := range rq.stores {
		if st.openErr {
			failed[si] = true
			continue
		}
		var mine []*storepb.Series
		n := 0
		for i, f := range st.frames {
			if st.recvErrAt == i || st.hangAt == i {
				break
			}
			n = i + 1
			switch f.kind {
			case 'S':
				s := f.series[0].pb()
				if rq.shard && !st.sharding && !sm.MatchesZLabels(s.Labels) {
					continue
				}
				mine = append(mine, s)
			case 'B':
				for _, x := range f.series {
					mine = append(mine, x.pb())
				}
			}
		}
		// a Recv that returns io.EOF itself is the end of the stream, not a failure
		if (st.recvErrAt >= 0 && st.recvErrAt <= n && st.recvKind != 'e') || (st.hangAt >= 0 && st.hangAt <= n) {
			failed[si] = true
		}
		resort := !st.without && len(rq.without) > 0
		if resort {
			for _, s := range mine {
				b := labels.NewBuilder(labelpb.ZLabelsToPromLabels(s.Labels))
				for _, w := range rq.without {
					b.Del(w)
				}
				s.Labels = labelpb.ZLabelsFromPromLabels(b.Labels())
			}
		} else {
			for i := 1; i < len(mine); i++ {
				if labels.Compare(labelpb.ZLabelsToPromLabels(mine[i-1].Labels), labelpb.ZLabelsToPromLabels(mine[i].Labels)) > 0 {
					sortedInputs = false
				}
			}
		}
		per[si] = mine
	}
	return per, sortedInputs, failed
}

func populated(c storepb.AggrChunk) int {
	n := 0
	for _, f := range []*storepb.Chunk{c.Raw, c.Count, c.Sum, c.Min, c.Max, c.Counter} {
		if f != nil {
			n++
		}
	}
	return n
}

// hasKeyCollision: the deduplicator identifies a chunk by the hashes of its populated fields; two different
// chunks under one key (a hash collision, or equal data under different time ranges) are outside the
// property (hypothesis KeyInj of the theorems).
func hasKeyCollision(in []*storepb.Series) bool {
	keyed := map[string]chunkKey{}
	for _, s := range in {
		for _, ch := range s.Chunks {
			k := showZLabels(s.Labels) + "|"
			for i, f := range []*storepb.Chunk{ch.Raw, ch.Count, ch.Max, ch.Min, ch.Sum, ch.Counter} {
				if f == nil {
					continue
				}
				h := f.Hash
				if h == 0 {
					h = xxhash.Sum64(f.Data)
				}
				k += fmt.Sprintf("%d:%d,", i, h)
			}
			if prev, ok := keyed[k]; ok && prev != keyOf(ch) {
				return true
			}
			keyed[k] = keyOf(ch)
		}
	}
	return false
}

// oracleMerge checks the C03 property on the collected responses.
func oracleMerge(c *hlib.Ctx, rq *mergeReq, resps []*storepb.SeriesResponse) {
	in, sortedInputs, _, _ := delivered(rq)
	if !sortedInputs {
		c.Count("oracle:unsorted-input-skipped")
		return
	}
	if hasKeyCollision(in) {
		c.Count("oracle:key-collision-skipped")
		return
	}
	c.Count("oracle:merge-checked")
	want := map[string]map[chunkKey]int{} // labels -> chunk -> copies delivered
	for _, s := range in {
		k := showZLabels(s.Labels)
		if want[k] == nil {
			want[k] = map[chunkKey]int{}
		}
		for _, ch := range s.Chunks {
			want[k][keyOf(ch)]++
		}
	}
	out := flattenPB(resps)
	seen := map[string]bool{}
	for i, s := range out {
		k := showZLabels(s.Labels)
		if i > 0 && labels.Compare(labelpb.ZLabelsToPromLabels(out[i-1].Labels), labelpb.ZLabelsToPromLabels(s.Labels)) >= 0 {
			c.Violation("series-unsorted-or-repeated", fmt.Sprintf("series %d (%s) does not sort after series %d (%s)", i, k, i-1, showZLabels(out[i-1].Labels)))
		}
		seen[k] = true
		w, ok := want[k]
		if !ok {
			c.Violation("series-not-delivered-by-any-store", "the answer contains "+k)
			continue
		}
		got := map[chunkKey]int{}
		for j, ch := range s.Chunks {
			got[keyOf(ch)]++
			if j > 0 {
				p := s.Chunks[j-1]
				if p.MinTime > ch.MinTime || (p.MinTime == ch.MinTime && p.MaxTime > ch.MaxTime) {
					c.Violation("chunks-not-ordered-by-time", fmt.Sprintf("series %s: chunk %d [%d,%d] after [%d,%d]", k, j, ch.MinTime, ch.MaxTime, p.MinTime, p.MaxTime))
				}
			}
		}
		for ck := range w {
			if got[ck] == 0 {
				c.Violation("chunk-lost", fmt.Sprintf("series %s: chunk %s delivered by a store is not in the answer", k, ck))
			}
		}
		for _, ch := range s.Chunks {
			ck := keyOf(ch)
			switch {
			case w[ck] == 0:
				c.Violation("chunk-invented", fmt.Sprintf("series %s: chunk %s was delivered by no store", k, ck))
			case got[ck] > 1:
				class := "chunk-kept-more-than-once"
				if populated(ch) >= 2 && got[ck] <= populated(ch) && got[ck] <= w[ck] {
					// F03b: an aggregated chunk with k populated fields survives up to k times
					class = "aggr-chunk-kept-once-per-field"
				}
				c.Violation(class, fmt.Sprintf("series %s: chunk %s is %d times in the answer (%d copies delivered, %d populated fields)", k, ck, got[ck], w[ck], populated(ch)))
				got[ck] = 1 // report once
			}
		}
	}
	for k := range want {
		if !seen[k] {
			c.Violation("series-lost", "no series "+k+" in the answer")
		}
	}
	if rq.batch > 1 {
		for _, r := range resps {
			if b := r.GetBatch(); b != nil && (len(b.Series) > rq.batch || len(b.Series) == 0) {
				c.Violation("batch-size", fmt.Sprintf("batch of %d series with batch size %d", len(b.Series), rq.batch))
			}
			if r.GetSeries() != nil {
				c.Violation("batch-size", "unbatched series with batch size > 1")
			}
		}
	} else {
		for _, r := range resps {
			if r.GetBatch() != nil {
				c.Violation("batch-size", "batch frame although batching is off")
			}
		}
	}
}

// ---------------------------------------------------------------- Exec

type intSeq struct {
	xs  []uint64
	i   int
	idx int
}

func (s *intSeq) Next() bool { s.i++; return s.i <= len(s.xs) }

type sliceStream struct {
	rs []*storepb.SeriesResponse
	i  int
}

func (s *sliceStream) Next() bool                  { s.i++; return s.i <= len(s.rs) }
func (s *sliceStream) At() *storepb.SeriesResponse { return s.rs[s.i-1] }

func execC03(c *hlib.Ctx, tok []string) string {
	if len(tok) == 0 {
		return "bad-op"
	}
	switch tok[0] {
	case "lt.merge":
		if len(tok) != 3 {
			return "bad-op"
		}
		mx, err := strconv.ParseUint(tok[1], 10, 64)
		if err != nil {
			return "bad-op"
		}
		var seqs []*intSeq
		for i, t := range hlib.Split(tok[2], "|") {
			s := &intSeq{idx: i}
			if t != "_" {
				for _, x := range hlib.ParseInts(t, ",") {
					s.xs = append(s.xs, uint64(x))
				}
			}
			seqs = append(seqs, s)
		}
		var closed []string
		less := func(a, b uint64) bool {
			if a == mx && b != mx {
				return false
			}
			if a != mx && b == mx {
				return true
			}
			if a == mx && b == mx {
				return true
			}
			return a/16 < b/16 // elements are key*16 + sequence index: ties between sequences stay visible
		}
		t := losertree.New[uint64, *intSeq](seqs, mx, func(s *intSeq) uint64 { return s.xs[s.i-1] }, less, func(s *intSeq) { closed = append(closed, strconv.Itoa(s.idx)) })
		var out []string
		var prev uint64
		total := 0
		for _, s := range seqs {
			total += len(s.xs)
		}
		sortedIn := true
		for _, s := range seqs {
			for i := 1; i < len(s.xs); i++ {
				if s.xs[i-1]/16 > s.xs[i]/16 {
					sortedIn = false
				}
			}
		}
		for t.Next() {
			v := t.At()
			if sortedIn && len(out) > 0 && v/16 < prev/16 {
				c.Violation("losertree-output-unsorted", fmt.Sprintf("%d after %d", v, prev))
			}
			prev = v
			out = append(out, strconv.FormatUint(v, 10))
			if len(out) > total+5 {
				break
			}
		}
		if len(out) != total {
			c.Violation("losertree-lost-or-invented", fmt.Sprintf("%d elements in, %d out", total, len(out)))
		}
		return hlib.Join(out, ",") + " closed=" + hlib.Join(closed, ",")
	case "ring.run":
		if len(tok) != 3 {
			return "bad-op"
		}
		size, err := strconv.Atoi(tok[1])
		if err != nil || size < 0 || size > 64 {
			return "bad-op"
		}
		rb := store.VerifNewRingBuffer(size)
		var popped []string
		var queue []string // the oracle: a FIFO of capacity size
		for _, op := range hlib.Split(tok[2], ",") {
			switch {
			case op == "p":
				if rb.IsEmpty() != (len(queue) == 0) {
					c.Violation("ring-empty-test", fmt.Sprintf("isEmpty=%v with %d queued", rb.IsEmpty(), len(queue)))
				}
				if rb.IsEmpty() {
					continue
				}
				v := rb.Pop().GetWarning()
				popped = append(popped, v)
				if len(queue) == 0 || queue[0] != v {
					c.Violation("ring-not-fifo", fmt.Sprintf("popped %s, queue %v", v, queue))
				} else {
					queue = queue[1:]
				}
			case strings.HasPrefix(op, "a"):
				if rb.IsFull() != (len(queue) == size) {
					c.Violation("ring-full-test", fmt.Sprintf("isFull=%v with %d queued of %d", rb.IsFull(), len(queue), size))
				}
				if rb.IsFull() {
					continue // the producer would block here
				}
				rb.Append(&storepb.SeriesResponse{Result: &storepb.SeriesResponse_Warning{Warning: op[1:]}})
				queue = append(queue, op[1:])
			default:
				return "bad-op"
			}
		}
		h, t := rb.HeadTail()
		return fmt.Sprintf("%s h=%d t=%d", hlib.Join(popped, ","), h, t)
	case "merge.dedup":
		if len(tok) != 2 {
			return "bad-op"
		}
		var rs []*storepb.SeriesResponse
		for _, t := range hlib.Split(tok[1], ";") {
			f, ok := parseFrameTok(t)
			if !ok {
				return "bad-op"
			}
			rs = append(rs, f.pb())
		}
		d := store.NewResponseDeduplicator(&sliceStream{rs: rs})
		var out []string
		for d.Next() {
			out = append(out, showFramePB(d.At()))
			if len(out) > len(rs)+5 {
				break
			}
		}
		return hlib.Join(out, ";")
	case "merge.series":
		rq, ok := parseMergeReq(tok)
		if !ok {
			return "bad-op"
		}
		hsh := fnv.New64a()
		hsh.Write([]byte(strings.Join(tok, " ")))
		sched := hsh.Sum64()
		if sched%4 == 0 {
			c.Count("schedule:jittered-receivers")
		}
		st, resps := runProxy(rq, sched)
		// a frame timeout that fires on a store that is not scripted to hang is scheduling noise: retry
		for try := 0; try < 3 && spuriousTimeout(rq, resps); try++ {
			c.Count("retry:spurious-timeout")
			st, resps = runProxy(rq, sched)
		}
		if st == "ok" && rq.limit == 0 && rq.dedup {
			oracleMerge(c, rq, resps)
		}
		if c.Prop.ID == "C06" {
			oracleFailures(c, rq, st, resps)
		}
		if st != "ok" {
			return st // what was sent before a failing call is not part of any property
		}
		return st + " " + showOutcomePB(resps, !rq.dedup)
	}
	return "bad-op"
}

func spuriousTimeout(rq *mergeReq, resps []*storepb.SeriesResponse) bool {
	for _, r := range resps {
		w := r.GetWarning()
		if !strings.Contains(w, "failed to receive any data") {
			continue
		}
		ok := false
		for i, st := range rq.stores {
			if st.hangAt >= 0 && strings.Contains(w, "from "+storeName(i)+":") {
				ok = true
			}
		}
		if !ok {
			return true
		}
	}
	return false
}

// ---------------------------------------------------------------- generator

type gField struct {
	ty      int
	data    []byte
	hashSet bool   // Chunk.Hash is set (to custom, or to xxhash(data))
	custom  uint64 // != 0: this value instead of xxhash
}

type gChunk struct {
	mint, maxt int64
	f          [6]*gField
}

func (f *gField) tok() string {
	if f == nil {
		return "n"
	}
	h := xxhash.Sum64(f.data)
	if f.custom != 0 {
		h = f.custom
	}
	if !f.hashSet {
		return fmt.Sprintf("%d.%s.z%d", f.ty, hlib.Hex(f.data), h)
	}
	return fmt.Sprintf("%d.%s.%d", f.ty, hlib.Hex(f.data), h)
}

func (c gChunk) tok() string {
	p := []string{strconv.FormatInt(c.mint, 10), strconv.FormatInt(c.maxt, 10)}
	for _, f := range c.f {
		p = append(p, f.tok())
	}
	return strings.Join(p, "~")
}

type gLabel struct{ n, v string }

func labelsTok(ls []gLabel) string {
	if len(ls) == 0 {
		return "_"
	}
	var out []string
	for _, l := range ls {
		out = append(out, hlib.HexS(l.n)+"="+hlib.HexS(l.v))
	}
	return strings.Join(out, ",")
}

func seriesTok(ls []gLabel, cs []gChunk) string {
	var c []string
	for _, x := range cs {
		c = append(c, x.tok())
	}
	return labelsTok(ls) + "@" + hlib.Join(c, "+")
}

func cmpGLabels(a, b []gLabel) int {
	for i := 0; i < len(a) && i < len(b); i++ {
		if a[i].n != b[i].n {
			if a[i].n < b[i].n {
				return -1
			}
			return 1
		}
		if a[i].v != b[i].v {
			if a[i].v < b[i].v {
				return -1
			}
			return 1
		}
	}
	return len(a) - len(b)
}

// protoChunks makes the pool of distinct chunks of one logical series.
func protoChunks(c *hlib.Ctx, n int, aggr bool, collisions bool) []gChunk {
	r := c.R
	var out []gChunk
	uniq := map[string]bool{}
	data := func() []byte {
		for {
			d := r.Bytes(r.Range(2, 4)) // real chunks start with a 2-byte sample count; SeriesStatsCounter reads it
			if !uniq[string(d)] {
				uniq[string(d)] = true
				return d
			}
		}
	}
	for i := 0; i < n; i++ {
		mint := r.I64Range(0, 6) * 10
		ch := gChunk{mint: mint, maxt: mint + r.I64Range(0, 3)*5}
		mkf := func() *gField {
			f := &gField{ty: r.Intn(3), data: data(), hashSet: r.Bool()}
			if collisions && r.Chance(1, 2) {
				f.hashSet, f.custom = true, uint64(r.Range(1, 3))
			}
			return f
		}
		if aggr && r.Chance(2, 3) {
			k := 0
			for j := 1; j < 6; j++ {
				if r.Chance(1, 2) {
					ch.f[j] = mkf()
					k++
					// sometimes share a field with an earlier aggregated chunk (same count chunk, different sum)
					if len(out) > 0 && r.Chance(1, 5) {
						if o := out[r.Intn(len(out))].f[j]; o != nil {
							ch.f[j] = o
						}
					}
				}
			}
			if k == 0 {
				ch.f[1] = mkf()
			}
			if k <= 1 {
				// a single-field chunk that shares its data with another prototype would be the same chunk
				// under another time range: not a thing real stores produce
				for j := 1; j < 6; j++ {
					if ch.f[j] != nil {
						ch.f[j] = mkf()
					}
				}
			}
			c.Count(fmt.Sprintf("chunk:aggr-fields%d", k))
		} else {
			ch.f[0] = mkf()
			c.Count("chunk:raw")
		}
		out = append(out, ch)
	}
	return out
}

type gStoreCfg struct {
	sharding, without, openErr bool
	recvKind, openKind         byte
	fail                       string
	frames                     []string // without the keep bit
	keep                       []bool
}

func realKeep(sm *storepb.ShardMatcher, ls []gLabel) bool {
	var l []labels.Label
	for _, x := range ls {
		l = append(l, labels.Label{Name: x.n, Value: x.v})
	}
	return sm.MatchesZLabels(labelpb.ZLabelsFromPromLabels(labels.New(l...)))
}

func warnMsgs(i int, hang bool) string { return warnMsgsKind(i, 'p', 'p') }

func warnMsgsKind(i int, recvKind, openKind byte) string {
	name := storeName(i)
	recv := "receive series from " + name + ": " + kindErr(recvKind, errInjected.Error()).Error()
	to := fmt.Sprintf("failed to receive any data in %s from %s: context canceled", hangTimeout, name)
	open := "fetch series for Store Gateway " + name + ": " + kindErr(openKind, errOpen.Error()).Error()
	return hlib.HexS(recv) + "," + hlib.HexS(to) + "," + hlib.HexS(open)
}

// genMergeCase builds one merge.series line.  failures: probability (in 1/100) that a store fails.
func genMergeCase(c *hlib.Ctx, failPct int, allowLimit bool) string {
	return genMergeCaseOpt(c, mergeGenOpt{failPct: failPct, allowLimit: allowLimit})
}

type mergeGenOpt struct {
	failPct     int
	allowLimit  bool
	alwaysDedup bool // the proxy-side deduplicator is on (the querier's proxy)
	barrenPct   int  // probability (in 1/100) that no store holds any series
	earlyFail   bool // failures happen before the first frame
}

func genMergeCaseOpt(c *hlib.Ctx, o mergeGenOpt) string {
	failPct, allowLimit := o.failPct, o.allowLimit
	r := c.R
	lazy := r.Bool()
	buf := []int{1, 2, 7}[r.Intn(3)]
	batch := []int{0, 1, 2, 3, 64}[r.Intn(5)]
	abort := r.Chance(1, 4)
	dedup := !r.Chance(1, 20) || o.alwaysDedup
	shard := r.Chance(1, 5)
	withoutOn := r.Chance(2, 5)
	aggr := r.Chance(1, 2)
	collisions := r.Chance(1, 25)
	if collisions {
		c.Count("case:hash-collisions(oracle off)")
	}
	limit := 0
	// replica label names: "a" sorts before every series label, "m" between them (b, c, d < m < x, z),
	// "zr" after all of them; sometimes several replica labels
	replicaNames := [][]string{{"a"}, {"m"}, {"m"}, {"zr"}, {"a", "m"}, {"m", "zr"}}[r.Intn(6)]
	if withoutOn {
		c.Count("shape:replica-labels-" + strings.Join(replicaNames, "+"))
	}
	// logical series: label sets over b, c, d, x, z
	nLogical := r.Range(0, 6)
	if o.barrenPct > 0 && r.Intn(100) < o.barrenPct {
		nLogical = 0
		c.Count("case:no-store-holds-a-series")
	}
	var logical [][]gLabel
	seenL := map[string]bool{}
	addLogical := func(l []gLabel) {
		k := labelsTok(l)
		if !seenL[k] {
			seenL[k] = true
			logical = append(logical, l)
		}
	}
	for tries := 0; len(logical) < nLogical && tries < 40; tries++ {
		var l []gLabel
		if r.Chance(9, 10) {
			l = append(l, gLabel{"b", strconv.Itoa(r.Range(1, 3))})
		}
		if r.Chance(2, 3) {
			l = append(l, gLabel{"c", strconv.Itoa(r.Range(1, 3))})
		}
		if r.Chance(1, 6) {
			l = append(l, gLabel{"d", strconv.Itoa(r.Range(1, 2))})
		}
		if r.Chance(1, 5) {
			l = append(l, gLabel{"x", strconv.Itoa(r.Range(1, 2))})
		}
		addLogical(l)
		// label-set shapes around the replica label
		switch r.Intn(6) {
		case 0:
			// prefix pair: the same set plus one extra label that sorts after all of its labels
			// (before or after the replica label name, depending on the replica label drawn)
			var cands []string
			for _, n := range []string{"c", "d", "x", "z"} {
				if len(l) == 0 || n > l[len(l)-1].n {
					cands = append(cands, n)
				}
			}
			if len(cands) > 0 {
				addLogical(append(append([]gLabel{}, l...), gLabel{cands[r.Intn(len(cands))], strconv.Itoa(r.Range(1, 2))}))
				c.Count("shape:prefix-pair")
			}
		case 1:
			// sets that differ only in their last label: one name before "m", one after
			if len(l) > 0 && l[len(l)-1].n < "d" {
				addLogical(append(append([]gLabel{}, l...), gLabel{"d", "1"}))
				addLogical(append(append([]gLabel{}, l...), gLabel{"x", "1"}))
				c.Count("shape:differ-around-replica-label")
			}
		}
	}
	protos := make([][]gChunk, len(logical))
	for i := range logical {
		protos[i] = protoChunks(c, r.Range(0, 5), aggr, collisions)
	}
	pl := &sync.Pool{New: func() any { b := make([]byte, 0, 64); return &b }}
	sm := mergeShard.Matcher(pl)
	nStores := r.Range(0, 5)
	if r.Chance(1, 30) {
		nStores = r.Range(6, 9)
	}
	c.Count(fmt.Sprintf("case:stores%d", nStores))
	var storeToks []string
	multiNonSeries := false
	for si := 0; si < nStores; si++ {
		st := gStoreCfg{sharding: r.Chance(1, 2), without: r.Chance(2, 3), fail: "n"}
		// which series does the store hold, under which replica values
		type held struct {
			l  []gLabel
			cs []gChunk
		}
		var hs []held
		replicas := []string{""}
		if withoutOn && !st.without {
			// constant across the store's whole response, or varying
			replicas = [][]string{{"1"}, {"1"}, {"2"}, {"1", "2"}, {"2", "3"}}[r.Intn(5)]
			if len(replicas) == 1 {
				c.Count("shape:replica-value-constant-in-store")
			} else {
				c.Count("shape:replica-value-varies-in-store")
			}
		}
		for _, rep := range replicas {
			for li, l := range logical {
				if !r.Chance(3, 5) {
					continue
				}
				ll := append([]gLabel{}, l...)
				if rep != "" {
					for _, rn := range replicaNames {
						ll = append(ll, gLabel{rn, rep})
					}
					sort.SliceStable(ll, func(i, j int) bool { return ll[i].n < ll[j].n })
				}
				var cs []gChunk
				for _, p := range protos[li] {
					if r.Chance(3, 5) {
						cs = append(cs, p)
						if r.Chance(1, 12) {
							cs = append(cs, p) // the same chunk twice in one series
						}
					}
				}
				r2 := r.Perm(len(cs))
				sh := make([]gChunk, len(cs))
				for i, j := range r2 {
					sh[i] = cs[j]
				}
				// possibly split the series across 2-3 frames
				parts := 1
				if len(sh) >= 2 && r.Chance(1, 3) {
					parts = r.Range(2, 3)
					c.Count("series:split-across-frames")
				}
				for p := 0; p < parts; p++ {
					lo, hi := len(sh)*p/parts, len(sh)*(p+1)/parts
					hs = append(hs, held{ll, sh[lo:hi]})
				}
			}
		}
		sort.SliceStable(hs, func(i, j int) bool { return cmpGLabels(hs[i].l, hs[j].l) < 0 })
		if collisions && len(hs) > 8 {
			hs = hs[:8] // sort.Slice is an insertion sort up to 12 elements; with colliding keys the order matters
		}
		batching := r.Chance(1, 3)
		nonSeries := 0
		for i := 0; i < len(hs); {
			if batching && r.Chance(2, 3) {
				n := r.Range(0, 3)
				if i+n > len(hs) {
					n = len(hs) - i
				}
				var ss []string
				for _, h := range hs[i : i+n] {
					ss = append(ss, seriesTok(h.l, h.cs))
				}
				st.frames = append(st.frames, "B"+strings.Join(ss, "&"))
				st.keep = append(st.keep, true)
				c.Count("frame:batch")
				i += n
			} else {
				st.frames = append(st.frames, "S"+seriesTok(hs[i].l, hs[i].cs))
				st.keep = append(st.keep, realKeep(sm, hs[i].l))
				c.Count("frame:series")
				i++
			}
			if r.Chance(1, 25) {
				st.frames = append(st.frames, "W"+hlib.HexS(fmt.Sprintf("store warning %d-%d", si, i)))
				st.keep = append(st.keep, true)
				nonSeries++
				c.Count("frame:store-warning")
			}
		}
		if r.Chance(1, 6) {
			st.frames = append(st.frames, "H"+hlib.Hex([]byte{byte(si), byte(r.Intn(200))}))
			st.keep = append(st.keep, true)
			nonSeries++
			c.Count("frame:hints")
		}
		st.recvKind, st.openKind = 'p', 'p'
		if r.Intn(100) < failPct {
			// which error value the failing call returns
			kind := byte('p')
			if r.Chance(3, 5) {
				kind = "gduwce"[r.Intn(6)]
			}
			c.Count("failure:kind-" + string(kind))
			switch r.Intn(6) {
			case 0:
				st.openErr = true
				st.openKind = kind
				c.Count("failure:open")
			case 1:
				st.fail = fmt.Sprintf("h%d", r.Intn(len(st.frames)+1))
				if o.earlyFail {
					st.fail = "h0"
				}
				nonSeries++
				c.Count("failure:hang")
			default:
				st.fail = fmt.Sprintf("r%d", r.Intn(len(st.frames)+1))
				if o.earlyFail {
					st.fail = "r0"
				}
				if kind != 'p' {
					st.fail += string(kind)
					st.recvKind = kind
				}
				nonSeries++
				c.Count("failure:recv")
			}
		}
		if nonSeries > 1 {
			multiNonSeries = true
		}
		var fr []string
		for i, f := range st.frames {
			k := "1"
			if !st.keep[i] {
				k = "0"
			}
			fr = append(fr, k+f)
		}
		b := func(x bool) string {
			if x {
				return "1"
			}
			return "0"
		}
		ok := ""
		if st.openKind != 'p' {
			ok = string(st.openKind)
		}
		storeToks = append(storeToks, fmt.Sprintf("%s%s%s%s:%s:%s:%s", b(st.sharding), b(st.without), b(st.openErr), ok, st.fail, warnMsgsKind(si, st.recvKind, st.openKind), hlib.Join(fr, ";")))
	}
	if allowLimit && dedup && !multiNonSeries && r.Chance(1, 10) {
		limit = r.Range(1, 4)
		c.Count("case:limit")
	}
	b := func(x bool) string {
		if x {
			return "1"
		}
		return "0"
	}
	without := "-"
	if withoutOn {
		var ws []string
		for _, rn := range replicaNames {
			ws = append(ws, hlib.HexS(rn))
		}
		without = strings.Join(ws, ",")
		c.Count("case:without-replica-labels")
	}
	if lazy {
		c.Count("case:lazy")
	} else {
		c.Count("case:eager")
	}
	if shard {
		c.Count("case:sharded")
	}
	if abort {
		c.Count("case:abort")
	}
	c.Count(fmt.Sprintf("case:batch%d", batch))
	return fmt.Sprintf("merge.series %s %d %d %d %s %s %s %s %s", b(lazy), buf, batch, limit, b(abort), b(dedup), b(shard), without, hlib.Join(storeToks, "|"))
}

func genLtMerge(c *hlib.Ctx) string {
	r := c.R
	n := r.Range(0, 9)
	mx := uint64(100000)
	var seqs []string
	sorted := !r.Chance(1, 4)
	for i := 0; i < n; i++ {
		k := r.Range(0, 6)
		var xs []int64
		for j := 0; j < k; j++ {
			xs = append(xs, int64(r.Intn(12)*16+i))
		}
		if sorted {
			sort.Slice(xs, func(a, b int) bool { return xs[a] < xs[b] })
		}
		if k == 0 {
			seqs = append(seqs, "_")
		} else {
			seqs = append(seqs, hlib.Ints(xs, ","))
		}
	}
	c.Count(fmt.Sprintf("lt:sequences%d", n))
	if !sorted {
		c.Count("lt:unsorted-input")
	}
	return fmt.Sprintf("lt.merge %d %s", mx, hlib.Join(seqs, "|"))
}

func genDedupStream(c *hlib.Ctx) string {
	r := c.R
	n := r.Range(0, 8)
	protos := protoChunks(c, 4, true, false)
	var frames []string
	lv := 1
	for i := 0; i < n; i++ {
		switch r.Intn(8) {
		case 0:
			frames = append(frames, "W"+hlib.HexS(fmt.Sprintf("w%d", i)))
		case 1:
			frames = append(frames, "H"+hlib.Hex([]byte{byte(i)}))
		default:
			if r.Chance(1, 2) {
				lv++
			}
			if r.Chance(1, 10) {
				lv-- // not sorted: the deduplicator only merges neighbours
			}
			var cs []gChunk
			for _, p := range protos {
				if r.Chance(1, 2) {
					cs = append(cs, p)
				}
			}
			frames = append(frames, "S"+seriesTok([]gLabel{{"b", strconv.Itoa(lv)}}, cs))
		}
	}
	return "merge.dedup " + hlib.Join(frames, ";")
}

func genRing(c *hlib.Ctx) string {
	r := c.R
	size := []int{0, 1, 2, 3, 7}[r.Intn(5)]
	var ops []string
	for k := r.Range(0, 30); k > 0; k-- {
		if r.Chance(3, 5) {
			ops = append(ops, fmt.Sprintf("a%d", r.Intn(1000)))
		} else {
			ops = append(ops, "p")
		}
	}
	c.Count(fmt.Sprintf("ring:size%d", size))
	return fmt.Sprintf("ring.run %d %s", size, hlib.Join(ops, ","))
}

func genC03(c *hlib.Ctx) {
	n := c.N(1500, 40000)
	for i := 0; i < n; i++ {
		c.Do(genMergeCase(c, 4, true), true)
		if i%3 == 0 {
			c.Do(genLtMerge(c), true)
			c.Do(genDedupStream(c), true)
			c.Do(genRing(c), true)
		}
	}
}
