package main

import (
	"fmt"
	"strings"

	"github.com/thanos-io/thanos/pkg/store/storepb"
	"github.com/thanos-io/thanos/verifharness/hlib"
)

// C06 — partial-response strategy is honoured under store failures.
//
// Same op as C03 (grammar in c03.go):
//   merge.series <lazy> <bufsize> <batch> <limit> <abort> <dedup> <sharded> <without names | -> <stores>
// with the failure fields of the stores exercised: <openErr> = the Series() call itself fails,
// r<k> = the Recv after k delivered frames fails, h<k> = it hangs until the frame timeout.
//
// and, one level up, q.select (c06q.go): the real querier over the real proxy over the same fake stores.
//
// oracle (limit 0): abort strategy + some queried store fails (or sends a warning) => the call fails;
// warn strategy => the call succeeds, every failed store has at least one warning naming it, and every
// series (with every chunk) delivered by the stores that did not fail is in the answer.

func init() {
	props = append(props, &hlib.Prop{ID: "C06", Gen: genC06, Exec: execC06})
}

func oracleFailures(c *hlib.Ctx, rq *mergeReq, st string, resps []*storepb.SeriesResponse) {
	if rq.limit != 0 {
		return
	}
	per, _, failed := deliveredPerStore(rq)
	anyFailed, storeWarn := false, false
	for i, f := range failed {
		if f {
			anyFailed = true
			c.Count("oracle:failed-store")
		}
		for k, fr := range rq.stores[i].frames {
			// a warning frame the store itself sends before its failure point
			if fr.kind == 'W' && len(fr.msg) > 0 && !rq.stores[i].openErr &&
				(rq.stores[i].recvErrAt < 0 || k < rq.stores[i].recvErrAt) && (rq.stores[i].hangAt < 0 || k < rq.stores[i].hangAt) {
				storeWarn = true
			}
		}
	}
	if rq.abort {
		c.Count("oracle:abort-checked")
		if anyFailed && (st == "ok") {
			c.Violation("abort-strategy-succeeded-despite-failure", "a queried store failed but Series returned no error")
		}
		if !anyFailed && !storeWarn && st != "ok" && !(st == "unavailable" && len(rq.stores) == 0) {
			c.Violation("abort-strategy-failed-without-failure", "no store failed but Series returned "+st)
		}
		return
	}
	c.Count("oracle:warn-checked")
	if st != "ok" {
		c.Violation("warn-strategy-failed", "Series returned "+st+" under the warn strategy")
		return
	}
	var warns []string
	for _, r := range resps {
		if w := r.GetWarning(); w != "" {
			warns = append(warns, w)
		}
	}
	for i, f := range failed {
		if !f {
			continue
		}
		found := false
		for _, w := range warns {
			if strings.Contains(w, " "+storeName(i)+":") {
				found = true
			}
		}
		if !found {
			c.Violation("no-warning-for-failed-store", fmt.Sprintf("store %s failed, warnings: %q", storeName(i), warns))
		}
	}
	// what the healthy stores delivered must be in the answer
	have := map[string]map[chunkKey]bool{}
	for _, s := range flattenPB(resps) {
		k := showZLabels(s.Labels)
		if have[k] == nil {
			have[k] = map[chunkKey]bool{}
		}
		for _, ch := range s.Chunks {
			have[k][keyOf(ch)] = true
		}
	}
	var all []*storepb.Series
	for _, ss := range per {
		all = append(all, ss...)
	}
	collide := hasKeyCollision(all)
	for i, ss := range per {
		if failed[i] {
			continue
		}
		for _, s := range ss {
			k := showZLabels(s.Labels)
			if have[k] == nil {
				c.Violation("series-of-healthy-store-lost", fmt.Sprintf("store %s delivered %s, not in the answer", storeName(i), k))
				continue
			}
			if !rq.dedup || collide {
				continue
			}
			for _, ch := range s.Chunks {
				if !have[k][keyOf(ch)] {
					c.Violation("chunk-of-healthy-store-lost", fmt.Sprintf("store %s delivered chunk %s of %s, not in the answer", storeName(i), keyOf(ch), k))
				}
			}
		}
	}
}

func execC06(c *hlib.Ctx, tok []string) string {
	if len(tok) > 0 && tok[0] == "q.select" {
		return execSelect(c, tok)
	}
	return execC03(c, tok)
}

func genC06(c *hlib.Ctx) {
	n := c.N(700, 8000)
	for i := 0; i < n; i++ {
		c.Do(genMergeCase(c, 35, false), true)
	}
	// the same through the querier; a good share of the cases has an answer without any series
	n = c.N(400, 6000)
	for i := 0; i < n; i++ {
		o := mergeGenOpt{failPct: 40}
		switch c.R.Intn(4) {
		case 0:
			o.barrenPct = 100
		case 1:
			o.earlyFail, o.failPct = true, 70
		}
		c.Do(genSelectCase(c, o), true)
	}
}
