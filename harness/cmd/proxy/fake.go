package main

import (
	"context"
	"errors"
	"fmt"
	"io"
	"strings"
	"sync"
	"time"

	"github.com/prometheus/prometheus/model/labels"
	"google.golang.org/grpc"
	"google.golang.org/grpc/codes"
	"google.golang.org/grpc/metadata"
	"google.golang.org/grpc/status"

	"github.com/thanos-io/thanos/pkg/info/infopb"
	"github.com/thanos-io/thanos/pkg/store/labelpb"
	"github.com/thanos-io/thanos/pkg/store/storepb"
)

// fakeClient is a scripted store.Client: it advertises label sets / a time range, records every
// Series request it gets, and streams a fixed list of frames with optional failure points.
type fakeClient struct {
	storepb.StoreClient // LabelNames / LabelValues are never called

	name           string
	extSets        []labels.Labels
	mint, maxt     int64
	shardable      bool
	withoutReplica bool
	local          bool
	filterNot      bool

	frames    []*storepb.SeriesResponse
	jitter    uint64 // != 0: Recv sleeps 0-300µs, derived from this seed and the frame index (schedule variation)
	openErr   error
	recvErrAt int // >= 0: the Recv after that many delivered frames fails with recvErr (errInjected when nil)
	recvErr   error
	hangAt    int // >= 0: the Recv after that many delivered frames blocks until the context ends

	mu      sync.Mutex
	calls   int
	lastReq *storepb.SeriesRequest
}

var errInjected = errors.New("injected failure")
var errOpen = errors.New("injected open failure")

// eofLike is an error type that is not io.EOF and wraps nothing, but claims Is(io.EOF).
type eofLike struct{ msg string }

func (e eofLike) Error() string        { return e.msg + " (eof-like)" }
func (e eofLike) Is(target error) bool { return target == io.EOF }

func isErrKind(k byte) bool { return strings.IndexByte("pgduwce", k) >= 0 }

// kindErr is the error value of a scripted failure: p plain, g gRPC status, d context deadline,
// u io.ErrUnexpectedEOF, w wraps io.EOF with %w, c custom type with Is(io.EOF), e io.EOF itself.
func kindErr(kind byte, base string) error {
	switch kind {
	case 'g':
		return status.Error(codes.Unavailable, base)
	case 'd':
		return context.DeadlineExceeded
	case 'u':
		return io.ErrUnexpectedEOF
	case 'w':
		return fmt.Errorf("%s: %w", base, io.EOF)
	case 'c':
		return eofLike{base}
	case 'e':
		return io.EOF
	}
	return errors.New(base)
}

func (c *fakeClient) LabelSets() []labels.Labels                 { return c.extSets }
func (c *fakeClient) TimeRange() (int64, int64)                  { return c.mint, c.maxt }
func (c *fakeClient) TSDBInfos() []infopb.TSDBInfo               { return nil }
func (c *fakeClient) SupportsSharding() bool                     { return c.shardable }
func (c *fakeClient) SupportsWithoutReplicaLabels() bool         { return c.withoutReplica }
func (c *fakeClient) String() string                             { return c.name }
func (c *fakeClient) Addr() (string, bool)                       { return c.name, c.local }
func (c *fakeClient) Matches(_ []*labels.Matcher) bool           { return !c.filterNot }
func (c *fakeClient) queried() bool                              { c.mu.Lock(); defer c.mu.Unlock(); return c.calls > 0 }
func (c *fakeClient) request() *storepb.SeriesRequest            { c.mu.Lock(); defer c.mu.Unlock(); return c.lastReq }

func (c *fakeClient) Series(ctx context.Context, in *storepb.SeriesRequest, _ ...grpc.CallOption) (storepb.Store_SeriesClient, error) {
	c.mu.Lock()
	c.calls++
	c.lastReq = in
	c.mu.Unlock()
	if c.openErr != nil {
		return nil, c.openErr
	}
	// frames are deep-copied per call: the proxy rewrites labels in place (sortWithoutLabels)
	fr := make([]*storepb.SeriesResponse, len(c.frames))
	for i, f := range c.frames {
		fr[i] = copyFrame(f)
	}
	return &fakeSeriesClient{ctx: ctx, frames: fr, recvErrAt: c.recvErrAt, recvErr: c.recvErr, hangAt: c.hangAt, jitter: c.jitter}, nil
}

func copySeries(s *storepb.Series) *storepb.Series {
	if s == nil {
		return nil
	}
	return &storepb.Series{Labels: labelpb.DeepCopy(s.Labels), Chunks: append([]storepb.AggrChunk(nil), s.Chunks...)}
}

func copyFrame(f *storepb.SeriesResponse) *storepb.SeriesResponse {
	switch {
	case f.GetSeries() != nil:
		return storepb.NewSeriesResponse(copySeries(f.GetSeries()))
	case f.GetBatch() != nil:
		b := make([]*storepb.Series, len(f.GetBatch().Series))
		for i, s := range f.GetBatch().Series {
			b[i] = copySeries(s)
		}
		return storepb.NewBatchResponse(b)
	}
	return f
}

type fakeSeriesClient struct {
	ctx       context.Context
	frames    []*storepb.SeriesResponse
	i         int
	recvErrAt int
	recvErr   error
	hangAt    int
	jitter    uint64
}

func (c *fakeSeriesClient) Recv() (*storepb.SeriesResponse, error) {
	if c.jitter != 0 {
		z := (c.jitter + uint64(c.i)*0x9e3779b97f4a7c15) * 0xbf58476d1ce4e5b9
		time.Sleep(time.Duration((z>>33)%300) * time.Microsecond)
	}
	if c.hangAt >= 0 && c.i == c.hangAt {
		<-c.ctx.Done()
		return nil, c.ctx.Err()
	}
	if c.recvErrAt >= 0 && c.i == c.recvErrAt {
		if c.recvErr != nil {
			return nil, c.recvErr
		}
		return nil, errInjected
	}
	if err := c.ctx.Err(); err != nil {
		return nil, err
	}
	if c.i >= len(c.frames) {
		return nil, io.EOF
	}
	f := c.frames[c.i]
	c.i++
	return f, nil
}

func (c *fakeSeriesClient) Header() (metadata.MD, error) { return nil, nil }
func (c *fakeSeriesClient) Trailer() metadata.MD         { return nil }
func (c *fakeSeriesClient) CloseSend() error             { return nil }
func (c *fakeSeriesClient) Context() context.Context     { return c.ctx }
func (c *fakeSeriesClient) SendMsg(any) error            { return nil }
func (c *fakeSeriesClient) RecvMsg(any) error            { return nil }

// collectServer is a Store_SeriesServer that keeps everything it is sent.
type collectServer struct {
	ctx   context.Context
	mu    sync.Mutex
	resps []*storepb.SeriesResponse
}

func (s *collectServer) Send(r *storepb.SeriesResponse) error {
	s.mu.Lock()
	s.resps = append(s.resps, r)
	s.mu.Unlock()
	return nil
}
func (s *collectServer) Context() context.Context     { return s.ctx }
func (s *collectServer) SetHeader(metadata.MD) error  { return nil }
func (s *collectServer) SendHeader(metadata.MD) error { return nil }
func (s *collectServer) SetTrailer(metadata.MD)       {}
func (s *collectServer) SendMsg(any) error            { return nil }
func (s *collectServer) RecvMsg(any) error            { return nil }
