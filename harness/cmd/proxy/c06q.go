package main

import (
	"context"
	"fmt"
	"hash/fnv"
	"runtime"
	"sort"
	"strconv"
	"strings"
	"time"

	"github.com/go-kit/log"
	"github.com/prometheus/prometheus/model/labels"
	"github.com/prometheus/prometheus/storage"

	"github.com/thanos-io/thanos/pkg/dedup"
	"github.com/thanos-io/thanos/pkg/query"
	"github.com/thanos-io/thanos/pkg/store/storepb"
	"github.com/thanos-io/thanos/verifharness/hlib"
)

// C06 one level up — the request as the user of the Query API sees it.
//
//   q.select <lazy> <bufsize> <batch> <abort> <deduplicate> <sharded> <replica label names | -> <stores>
//     the real querier (query.NewQueryableCreator(...)(...).Querier(0,100).Select) over the real
//     ProxyStore (deduplicator on, as in cmd/thanos/query.go) over scripted fake store clients
//     (store grammar in c03.go)
//     -> err | ok n=<number of series; with replica deduplication only 0 or +> warn=<sorted set of msgs>
//
// oracle: warn strategy => Select succeeds, every failed store is named by at least one annotation (so
// there is at least one whenever a store failed — also when the answer has no series at all), and when a
// healthy store delivered a series the answer is not empty; abort strategy => a failed store makes Select
// fail, and without any failure / store warning it succeeds.

type selectReq struct {
	mergeReq
	deduplicate bool
	replicas    []string
}

func parseSelectReq(tok []string) (*selectReq, bool) {
	if len(tok) != 9 {
		return nil, false
	}
	// reuse the merge.series parser: merge.series lazy buf batch limit abort dedup sharded without stores
	m, ok := parseMergeReq([]string{"merge.series", tok[1], tok[2], tok[3], "0", tok[4], "1", tok[6], tok[7], tok[8]})
	if !ok || (tok[5] != "0" && tok[5] != "1") {
		return nil, false
	}
	q := &selectReq{mergeReq: *m, deduplicate: tok[5] == "1", replicas: m.without}
	if !(q.deduplicate && len(q.replicas) > 0) {
		q.mergeReq.without = nil // isDedupEnabled() is false: the request carries no WithoutReplicaLabels
	}
	return q, true
}

type selectAnswer struct {
	err   error
	n     int
	warns []string
}

func runSelect(q *selectReq, sched uint64) selectAnswer {
	if sched%8 == 0 {
		defer runtime.GOMAXPROCS(runtime.GOMAXPROCS(1))
	}
	p := buildProxy(&q.mergeReq, sched)
	var shard *storepb.ShardInfo
	if q.shard {
		shard = mergeShard
	}
	creator := query.NewQueryableCreator(log.NewNopLogger(), nil, p, 4, time.Minute, dedup.AlgorithmPenalty, q.batch)
	queryable := creator(q.deduplicate, q.replicas, nil, 0, !q.abort, false, shard, query.NoopSeriesStatsReporter)
	qr, err := queryable.Querier(0, 100)
	if err != nil {
		return selectAnswer{err: err}
	}
	defer qr.Close()
	ms := []*labels.Matcher{labels.MustNewMatcher(labels.MatchRegexp, "b", ".*"), labels.MustNewMatcher(labels.MatchNotEqual, "zz", "q")}
	set := qr.Select(context.Background(), true, &storage.SelectHints{Start: 0, End: 100}, ms...)
	var a selectAnswer
	for set.Next() {
		a.n++ // the samples are C04's subject: no iterator is created
	}
	a.err = set.Err()
	for w := range set.Warnings() {
		a.warns = append(a.warns, w)
	}
	sort.Strings(a.warns)
	return a
}

func spuriousSelectTimeout(q *selectReq, a selectAnswer) bool {
	var rs []*storepb.SeriesResponse
	for _, w := range a.warns {
		rs = append(rs, storepb.NewWarnSeriesResponse(fmt.Errorf("%s", w)))
	}
	return spuriousTimeout(&q.mergeReq, rs)
}

func execSelect(c *hlib.Ctx, tok []string) string {
	q, ok := parseSelectReq(tok)
	if !ok {
		return "bad-op"
	}
	hsh := fnv.New64a()
	hsh.Write([]byte(strings.Join(tok, " ")))
	sched := hsh.Sum64()
	a := runSelect(q, sched)
	for try := 0; try < 3 && a.err == nil && spuriousSelectTimeout(q, a); try++ {
		c.Count("retry:spurious-timeout")
		a = runSelect(q, sched)
	}
	oracleSelect(c, q, a)
	if a.err != nil {
		return "err"
	}
	dedupOn := q.deduplicate && len(q.replicas) > 0
	n := strconv.Itoa(a.n)
	if dedupOn && a.n > 0 {
		n = "+"
	}
	var ws []string
	for _, w := range a.warns {
		ws = append(ws, hlib.HexS(w))
	}
	sort.Strings(ws)
	return fmt.Sprintf("ok n=%s warn=%s", n, hlib.Join(ws, ","))
}

func oracleSelect(c *hlib.Ctx, q *selectReq, a selectAnswer) {
	rq := &q.mergeReq
	per, _, failed := deliveredPerStore(rq)
	anyFailed, storeWarn, healthySeries := false, false, false
	for i, f := range failed {
		if f {
			anyFailed = true
			c.Count("oracle:q:failed-store")
		} else if len(per[i]) > 0 {
			healthySeries = true
		}
		for k, fr := range rq.stores[i].frames {
			if fr.kind == 'W' && len(fr.msg) > 0 && !rq.stores[i].openErr &&
				(rq.stores[i].recvErrAt < 0 || k < rq.stores[i].recvErrAt) && (rq.stores[i].hangAt < 0 || k < rq.stores[i].hangAt) {
				storeWarn = true
			}
		}
	}
	if rq.abort {
		c.Count("oracle:q:abort-checked")
		if anyFailed && a.err == nil {
			c.Violation("querier-abort-strategy-succeeded-despite-failure", "a queried store failed but Select returned no error")
		}
		if !anyFailed && !storeWarn && a.err != nil && len(rq.stores) > 0 {
			c.Violation("querier-abort-strategy-failed-without-failure", "no store failed but Select returned "+a.err.Error())
		}
		return
	}
	c.Count("oracle:q:warn-checked")
	if a.err != nil {
		c.Violation("querier-warn-strategy-failed", "Select returned "+a.err.Error()+" under the warn strategy")
		return
	}
	if a.n == 0 {
		c.Count("oracle:q:warn-checked-with-zero-series")
		if anyFailed {
			c.Count("oracle:q:zero-series-and-failed-store")
		}
	}
	if anyFailed && len(a.warns) == 0 {
		c.Violation("querier-no-warning-despite-failed-store", fmt.Sprintf("a store failed, Select succeeded with %d series and no annotation", a.n))
	}
	for i, f := range failed {
		if !f {
			continue
		}
		found := false
		for _, w := range a.warns {
			if strings.Contains(w, " "+storeName(i)+":") {
				found = true
			}
		}
		if !found && len(a.warns) > 0 {
			c.Violation("querier-no-warning-for-failed-store", fmt.Sprintf("store %s failed, annotations: %q", storeName(i), a.warns))
		}
	}
	if healthySeries && a.n == 0 {
		c.Violation("querier-series-of-healthy-store-lost", "a healthy store delivered a series, the answer is empty")
	}
}

// genSelectCase turns a generated merge case into a q.select line.
func genSelectCase(c *hlib.Ctx, o mergeGenOpt) string {
	o.alwaysDedup = true
	t := strings.Split(genMergeCaseOpt(c, o), " ")
	// merge.series lazy buf batch limit abort dedup sharded without stores
	qd := "0"
	if c.R.Chance(1, 2) {
		qd = "1"
		c.Count("case:q:deduplicate")
	}
	return strings.Join([]string{"q.select", t[1], t[2], t[3], t[5], qd, t[7], t[8], t[9]}, " ")
}
