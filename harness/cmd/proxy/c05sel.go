package main

import (
	"context"
	"fmt"
	"math"
	"os"
	"sort"
	"strconv"
	"strings"

	"github.com/prometheus/common/model"
	"github.com/prometheus/prometheus/model/labels"
	"github.com/prometheus/prometheus/model/relabel"
	"github.com/prometheus/prometheus/tsdb"
	"go.uber.org/atomic"
	"google.golang.org/grpc/codes"
	"google.golang.org/grpc/status"

	"github.com/thanos-io/thanos/pkg/component"
	"github.com/thanos-io/thanos/pkg/info/infopb"
	"github.com/thanos-io/thanos/pkg/store"
	"github.com/thanos-io/thanos/pkg/store/labelpb"
	"github.com/thanos-io/thanos/pkg/store/storepb"
	"github.com/thanos-io/thanos/verifharness/hlib"
)

// C05 with a TSDB selector (pkg/store/tsdb_selector.go; `--selector.relabel-config` of the querier).
//
//   selspec  := n | rule (';' rule)*          rule := k:<label name>:<regex> | d:<label name>:<regex>   (keep / drop)
//   keepbits := per store one 0/1 per label set ('|' between stores, '-' for a store without label sets):
//               relabel.Process keeps the label set (computed by the generator with the real relabel package;
//               an input of the model, not read by Exec)
//   prune.sel <mint> <maxt> <matchers> <selspec> <keepbits> <abort> <clients>        ProxyStore.Series + recording clients
//       -> none | invalid | unavailable | ok <queried idx> <forwarded request matchers> <matchers for the selected label sets, sorted>
//   o.prune.e2esel <qmint> <qmaxt> <matchers> <selspec> <store ('|' store)*>          (oracle only)
//       store := tsdb ('&' tsdb)* ; tsdb := <external labels>:<raw series ('/' …) | ->
//       every store is a real ProxyStore over real TSDBStores (the shape of a multi-tenant receiver)
//
// oracle: a series served under a label set the selector keeps, selected by the request in range, comes from a
// store that was sent the request with matchers that still select it (prune.sel) / is in the answer (e2esel).

func parseSelSpec(s string) ([]*relabel.Config, bool) {
	if s == "n" {
		return nil, true
	}
	var out []*relabel.Config
	for _, t := range strings.Split(s, ";") {
		p := strings.Split(t, ":")
		if len(p) != 3 || (p[0] != "k" && p[0] != "d") {
			return nil, false
		}
		re, err := relabel.NewRegexp(hlib.UnHexS(p[2]))
		if err != nil {
			return nil, false
		}
		act := relabel.Keep
		if p[0] == "d" {
			act = relabel.Drop
		}
		out = append(out, &relabel.Config{SourceLabels: model.LabelNames{model.LabelName(hlib.UnHexS(p[1]))}, Separator: ";", Regex: re, Action: act})
	}
	return out, true
}

func selKeeps(cfg []*relabel.Config, ls labels.Labels) bool {
	if cfg == nil {
		return true
	}
	_, keep := relabel.Process(ls, cfg...)
	return keep
}

func extNamesOf(sets [][]labels.Labels) map[string]bool {
	out := map[string]bool{}
	for _, ss := range sets {
		for _, ls := range ss {
			ls.Range(func(l labels.Label) { out[l.Name] = true })
		}
	}
	return out
}

func execPruneSel(c *hlib.Ctx, tok []string) string {
	if len(tok) != 8 {
		return "bad-op"
	}
	mint, e1 := strconv.ParseInt(tok[1], 10, 64)
	maxt, e2 := strconv.ParseInt(tok[2], 10, 64)
	ms, ok1 := parseMatchersTok(tok[3])
	cfg, ok2 := parseSelSpec(tok[4])
	cls, ok3 := parseClientsTok(tok[7])
	if e1 != nil || e2 != nil || !ok1 || !ok2 || !ok3 || (tok[6] != "0" && tok[6] != "1") {
		return "bad-op"
	}
	clients := make([]store.Client, len(cls))
	var allSets [][]labels.Labels
	for i, cl := range cls {
		clients[i] = cl
		allSets = append(allSets, cl.extSets)
	}
	opts := []store.ProxyStoreOption{}
	if cfg != nil {
		opts = append(opts, store.WithTSDBSelector(store.NewTSDBSelector(cfg)))
	}
	p := store.NewProxyStore(nil, nil, func() []store.Client { return clients }, component.Query, labels.EmptyLabels(), 0, store.EagerRetrieval, opts...)
	strat := storepb.PartialResponseStrategy_WARN
	if tok[6] == "1" {
		strat = storepb.PartialResponseStrategy_ABORT
	}
	srv := &collectServer{ctx: context.Background()}
	err := p.Series(&storepb.SeriesRequest{MinTime: mint, MaxTime: maxt, Matchers: pbMatchers(ms), PartialResponseStrategy: strat}, srv)
	if err != nil {
		if status.Code(err) == codes.InvalidArgument {
			return "invalid"
		}
		if err == store.ErrorNoStoresAvailable {
			return "unavailable"
		}
		return "err:" + err.Error()
	}
	extNames := extNamesOf(allSets)
	var idx []string
	kept, extra := "", ""
	for i, cl := range cls {
		var fwd []*labels.Matcher
		if cl.queried() {
			idx = append(idx, strconv.Itoa(i))
			rm := cl.request().Matchers
			if len(rm) < len(ms) {
				c.Violation("selector-forwarded-fewer-matchers", fmt.Sprintf("%d request matchers, %d forwarded", len(ms), len(rm)))
				continue
			}
			kept = showPbMatchers(rm[:len(ms)])
			var ex []string
			for _, m := range rm[len(ms):] {
				ex = append(ex, showPbMatchers([]storepb.LabelMatcher{m}))
			}
			sort.Strings(ex)
			extra = hlib.Join(ex, ";")
			var e error
			fwd, e = storepb.MatchersToPromMatchers(rm...)
			if e != nil {
				return "err:forwarded-matchers"
			}
		}
		if cl.filterNot || !contractOK(cl) {
			continue
		}
		for _, e := range cl.extSets {
			if !selKeeps(cfg, e) {
				continue
			}
			for _, r := range cl.raw {
				s := rawSeries{lbls: labelpb.ExtendSortedLabels(r.lbls, e), ts: r.ts}
				clash := false
				for n := range extNames {
					if !e.Has(n) && s.lbls.Get(n) != "" {
						clash = true
					}
				}
				if clash {
					c.Count("sel:series-label-under-external-name(skipped)")
					continue
				}
				if !selectedBy(promMatchers(ms), mint, maxt, s) {
					continue
				}
				c.Count("sel:kept-store-holds-selected-series")
				if !cl.queried() {
					c.Violation("selector-kept-store-not-queried", fmt.Sprintf("store %d serves %s under the kept label set %s, selected by the query, but was not sent the request", i, s.lbls.String(), e.String()))
				} else if !selectedBy(fwd, mint, maxt, s) {
					c.Violation("selector-matchers-exclude-kept-series", fmt.Sprintf("store %d serves %s under the kept label set %s, selected by the query, but the forwarded matchers %v reject it", i, s.lbls.String(), e.String(), fwd))
				}
			}
		}
	}
	if len(idx) == 0 {
		return "none"
	}
	return "ok " + strings.Join(idx, ",") + " " + kept + " " + extra
}

// ---------------------------------------------------------------- end to end on real stores

func execPruneE2ESel(c *hlib.Ctx, tok []string) string {
	if len(tok) != 6 {
		return "bad-op"
	}
	qmint, e1 := strconv.ParseInt(tok[1], 10, 64)
	qmaxt, e2 := strconv.ParseInt(tok[2], 10, 64)
	ms, ok := parseMatchersTok(tok[3])
	cfg, ok2 := parseSelSpec(tok[4])
	if e1 != nil || e2 != nil || !ok || !ok2 {
		return "bad-op"
	}
	base, err := os.MkdirTemp("", "verif-c05s-")
	if err != nil {
		return "err:tmp"
	}
	defer os.RemoveAll(base)
	var dbs []*tsdb.DB
	defer func() {
		for _, db := range dbs {
			_ = db.Close()
		}
	}()
	type inner struct {
		cl  *tsdbClient
		ext labels.Labels
	}
	var outer []store.Client
	var inners []inner
	n := 0
	for si, st := range hlib.Split(tok[5], "|") {
		var local []store.Client
		for _, t := range strings.Split(st, "&") {
			p := strings.Split(t, ":")
			if len(p) != 2 {
				return "bad-op"
			}
			ext, ok := parseLabelsTok(p[0])
			if !ok {
				return "bad-op"
			}
			opts := tsdb.DefaultOptions()
			opts.RetentionDuration = math.MaxInt64
			db, err := tsdb.Open(fmt.Sprintf("%s/%d", base, n), nil, nil, opts, nil)
			n++
			if err != nil {
				return "err:tsdb-open"
			}
			dbs = append(dbs, db)
			app := db.Appender(context.Background())
			for _, sr := range hlib.Split(p[1], "/") {
				q := strings.Split(sr, "@")
				if len(q) != 2 {
					return "bad-op"
				}
				l, ok := parseLabelsTok(q[0])
				if !ok || l.IsEmpty() {
					return "bad-op"
				}
				ts := hlib.ParseInts(q[1], "+")
				sort.Slice(ts, func(a, b int) bool { return ts[a] < ts[b] })
				for k, x := range ts {
					if k > 0 && ts[k-1] == x {
						continue
					}
					if _, err := app.Append(0, l, x, 1); err != nil {
						return "err:append"
					}
				}
			}
			if err := app.Commit(); err != nil {
				return "err:commit"
			}
			ts := store.NewTSDBStore(nil, db, component.Receive, ext)
			tc := &tsdbClient{StoreClient: storepb.ServerAsClient(ts, *atomic.NewBool(false)), st: ts, name: fmt.Sprintf("s%d-%d", si, n)}
			local = append(local, tc)
			inners = append(inners, inner{tc, ext})
		}
		lc := local
		ip := store.NewProxyStore(nil, nil, func() []store.Client { return lc }, component.Receive, labels.EmptyLabels(), 0, store.EagerRetrieval)
		outer = append(outer, &proxyClient{StoreClient: storepb.ServerAsClient(ip, *atomic.NewBool(false)), p: ip, name: fmt.Sprintf("s%d", si)})
	}
	opts := []store.ProxyStoreOption{}
	if cfg != nil {
		opts = append(opts, store.WithTSDBSelector(store.NewTSDBSelector(cfg)))
	}
	req := func() *storepb.SeriesRequest {
		return &storepb.SeriesRequest{MinTime: qmint, MaxTime: qmaxt, Matchers: pbMatchers(ms), PartialResponseStrategy: storepb.PartialResponseStrategy_WARN}
	}
	p := store.NewProxyStore(nil, nil, func() []store.Client { return outer }, component.Query, labels.EmptyLabels(), 0, store.EagerRetrieval, opts...)
	srv := &collectServer{ctx: context.Background()}
	if err := p.Series(req(), srv); err != nil {
		return "err:" + err.Error()
	}
	got := map[string]bool{}
	for _, l := range seriesLabelSets(srv.resps) {
		got[l] = true
	}
	want := map[string]bool{}
	for _, in := range inners {
		if !selKeeps(cfg, in.ext) {
			c.Count("e2esel:tsdb-dropped-by-selector")
			continue
		}
		c.Count("e2esel:tsdb-kept-by-selector")
		cs, err := in.cl.StoreClient.Series(context.Background(), req())
		if err != nil {
			return "err:direct"
		}
		var rs []*storepb.SeriesResponse
		for {
			r, err := cs.Recv()
			if err != nil {
				break
			}
			rs = append(rs, r)
		}
		for _, l := range seriesLabelSets(rs) {
			want[l] = true
			if !got[l] {
				c.Violation("selector-kept-tsdb-data-missing", fmt.Sprintf("the TSDB with external labels %s is kept by the selector and answers %s to the request, the querier's answer does not have it", in.ext.String(), l))
			}
		}
	}
	if len(want) > 0 {
		c.Count("e2esel:kept-tsdb-has-data")
	}
	for l := range got {
		if !want[l] {
			// not C05 (nothing is lost): the generated matchers cannot express "this label must be absent" for
			// a name no selected label set has, so a dropped TSDB {region="b2",tenant="c"} next to a kept
			// {tenant="c"} still answers.  Counted, not a violation.
			c.Count("e2esel:series-of-a-dropped-tsdb-in-answer(observation)")
		}
	}
	return fmt.Sprintf("n=%d", len(got))
}

// proxyClient exposes a ProxyStore (a receiver with several TSDBs) as a store.Client.
type proxyClient struct {
	storepb.StoreClient
	p    *store.ProxyStore
	name string
}

func (c *proxyClient) LabelSets() []labels.Labels {
	return labelpb.ZLabelSetsToPromLabelSets(c.p.LabelSet()...)
}
func (c *proxyClient) TimeRange() (int64, int64)          { return c.p.TimeRange() }
func (c *proxyClient) TSDBInfos() []infopb.TSDBInfo       { return c.p.TSDBInfos() }
func (c *proxyClient) SupportsSharding() bool              { return true }
func (c *proxyClient) SupportsWithoutReplicaLabels() bool  { return true }
func (c *proxyClient) String() string                      { return c.name }
func (c *proxyClient) Addr() (string, bool)                { return c.name, true }
func (c *proxyClient) Matches(_ []*labels.Matcher) bool    { return true }

// ---------------------------------------------------------------- generators

var (
	selExtNames = []string{"tenant", "region"}
	selExtVals  = []string{"a", "b1", "b2", "c"}
	selRawNames = []string{"__name__", "job", "x"}
	selRegex    = []string{"a", "b1", "b2", "b.*", "a|c", ".*", "zzz", "b1|b2"}
)

func genSelSpec(c *hlib.Ctx) string {
	r := c.R
	if r.Chance(1, 6) {
		c.Count("sel:default-selector")
		return "n"
	}
	var rules []string
	for k := r.Range(1, 2); k > 0; k-- {
		act := "k"
		if r.Bool() {
			act = "d"
		}
		rules = append(rules, fmt.Sprintf("%s:%s:%s", act, hlib.HexS(selExtNames[r.Intn(2)]), hlib.HexS(selRegex[r.Intn(len(selRegex))])))
	}
	return strings.Join(rules, ";")
}

// selMetaVals are external label values with regular-expression metacharacters
var selMetaVals = []string{"a+b", "x(1)", "c.d", "e|f", "g*", "^$", "h[1]", "back\\slash", "q?"}

func genSelExtSet(r *hlib.Rand) [][2]string {
	v := selExtVals[r.Intn(len(selExtVals))]
	if r.Chance(1, 10) {
		v = selMetaVals[r.Intn(len(selMetaVals))]
	}
	ls := [][2]string{{"tenant", v}}
	if r.Chance(1, 3) {
		ls = append([][2]string{{"region", selExtVals[r.Intn(len(selExtVals))]}}, ls...)
	}
	return ls
}

func genSelRaw(r *hlib.Rand, base int64) gSeries {
	s := gSeries{lbls: [][2]string{{"__name__", []string{"up", "cpu"}[r.Intn(2)]}}}
	if r.Bool() {
		s.lbls = append(s.lbls, [2]string{"job", []string{"x", "y"}[r.Intn(2)]})
	}
	for j := r.Range(1, 2); j > 0; j-- {
		s.ts = append(s.ts, base+r.I64Range(0, 30))
	}
	return s
}

func genSelMatchers(c *hlib.Ctx) []gMatcher {
	r := c.R
	var ms []gMatcher
	switch r.Intn(4) {
	case 0:
		ms = append(ms, gMatcher{ty: 0, name: "__name__", value: []string{"up", "cpu"}[r.Intn(2)]})
	case 1:
		ms = append(ms, gMatcher{ty: 2, name: "__name__", value: ".+"})
	case 2:
		ms = append(ms, gMatcher{ty: 1, name: "job", value: "zz"})
	default:
		ms = append(ms, gMatcher{ty: 2, name: "__name__", value: "up|cpu"}, gMatcher{ty: 3, name: "job", value: "y"})
	}
	if r.Chance(1, 3) { // a matcher on an external label as well
		ms = append(ms, gMatcher{ty: []int{0, 2, 1}[r.Intn(3)], name: "tenant", value: []string{"a", "b1", "b.*", "c"}[r.Intn(4)]})
	}
	return ms
}

func keepBits(cfg []*relabel.Config, sets [][][2]string) string {
	if len(sets) == 0 {
		return "-"
	}
	var b strings.Builder
	for _, s := range sets {
		var ls []labels.Label
		for _, l := range s {
			ls = append(ls, labels.Label{Name: l[0], Value: l[1]})
		}
		if selKeeps(cfg, labels.New(ls...)) {
			b.WriteByte('1')
		} else {
			b.WriteByte('0')
		}
	}
	return b.String()
}

func genPruneSel(c *hlib.Ctx) string {
	r := c.R
	spec := genSelSpec(c)
	cfg, _ := parseSelSpec(spec)
	n := r.Range(1, 4)
	var cls []gClient
	var bits []string
	for i := 0; i < n; i++ {
		cl := gClient{filterOK: true, addr: fmt.Sprintf("s%d", i), mint: r.I64Range(0, 40)}
		cl.maxt = cl.mint + r.I64Range(10, 60)
		if r.Chance(1, 8) {
			cl.mint, cl.maxt = math.MinInt64, math.MaxInt64
		}
		seen := map[string]bool{}
		for k := r.Range(1, 3); k > 0; k-- {
			e := genSelExtSet(r)
			if !seen[showLabelSet(e)] {
				seen[showLabelSet(e)] = true
				cl.sets = append(cl.sets, e)
			}
		}
		base := cl.mint
		if base < 0 {
			base = 0
		}
		for k := r.Range(0, 3); k > 0; k-- {
			cl.raw = append(cl.raw, genSelRaw(r, base))
		}
		b := keepBits(cfg, cl.sets)
		switch {
		case !strings.Contains(b, "0"):
			c.Count("sel:store-all-kept")
		case !strings.Contains(b, "1"):
			c.Count("sel:store-none-kept")
		default:
			c.Count("sel:store-some-kept")
		}
		bits = append(bits, b)
		cls = append(cls, cl)
	}
	ms := genSelMatchers(c)
	uni := universeOf(cls, nil)
	uni = append(uni, "up", "cpu")
	var ctoks []string
	for _, cl := range cls {
		ctoks = append(ctoks, showClient(cl))
	}
	qmint := r.I64Range(0, 60)
	qmaxt := qmint + r.I64Range(5, 80)
	abort := "0"
	if r.Chance(1, 4) {
		abort = "1"
	}
	return fmt.Sprintf("prune.sel %d %d %s %s %s %s %s", qmint, qmaxt, showMatchers(ms, uni), spec, strings.Join(bits, "|"), abort, strings.Join(ctoks, "|"))
}

func genPruneE2ESel(c *hlib.Ctx) string {
	r := c.R
	spec := genSelSpec(c)
	n := r.Range(1, 3)
	var stores []string
	var cls []gClient
	for i := 0; i < n; i++ {
		var tsdbs []string
		seen := map[string]bool{}
		for k := r.Range(1, 3); k > 0; k-- {
			e := genSelExtSet(r)
			if seen[showLabelSet(e)] {
				continue
			}
			seen[showLabelSet(e)] = true
			cl := gClient{sets: [][][2]string{e}}
			var raw []string
			rs := map[string]bool{}
			for j := r.Range(0, 2); j > 0; j-- {
				s := genSelRaw(r, r.I64Range(1, 60))
				if rs[showLabelSet(s.lbls)] {
					continue
				}
				rs[showLabelSet(s.lbls)] = true
				cl.raw = append(cl.raw, s)
				raw = append(raw, showLabelSet(s.lbls)+"@"+hlib.Ints(s.ts, "+"))
			}
			cls = append(cls, cl)
			tsdbs = append(tsdbs, showLabelSet(e)+":"+hlib.Join(raw, "/"))
		}
		stores = append(stores, strings.Join(tsdbs, "&"))
	}
	ms := genSelMatchers(c)
	uni := append(universeOf(cls, nil), "up", "cpu")
	qmint := r.I64Range(0, 40)
	qmaxt := qmint + r.I64Range(20, 80)
	return fmt.Sprintf("o.prune.e2esel %d %d %s %s %s", qmint, qmaxt, showMatchers(ms, uni), spec, strings.Join(stores, "|"))
}
