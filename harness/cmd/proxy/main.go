// Family binary "proxy": C03 C05 C06 C17.
package main

import "github.com/thanos-io/thanos/verifharness/hlib"

var props []*hlib.Prop

func main() { hlib.Main(props) }
