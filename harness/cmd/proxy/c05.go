package main

import (
	"context"
	"fmt"
	"math"
	"sort"
	"strconv"
	"strings"

	"github.com/prometheus/prometheus/model/labels"
	"google.golang.org/grpc/codes"
	"google.golang.org/grpc/status"

	"github.com/thanos-io/thanos/pkg/component"
	"github.com/thanos-io/thanos/pkg/store"
	"github.com/thanos-io/thanos/pkg/store/labelpb"
	"github.com/thanos-io/thanos/pkg/store/storepb"
	"github.com/thanos-io/thanos/verifharness/hlib"
)

// C05 — store pruning never skips a store that holds matching data.
//
// grammar (strings hex encoded, `-` = empty list / empty string, `_` = empty label set):
//   matcher  := <ty>:<name>:<value>:<acc>     ty 0 "=" 1 "!=" 2 "=~" 3 "!~"; acc = the values of the case's universe
//                                             accepted by the regex, each as 'v'<hex> (',' separated), '-' for = / !=
//   matchers := matcher (';' matcher)* | '-'
//   dbg      := matchers ('/' matchers)* | '-'          store debug matchers (context key StoreMatcherKey)
//   labels   := <name>=<value> (',' …)* | '_'
//   sets     := labels ('/' labels)* | '-'
//   series   := labels '@' <t> ('+' <t>)*               a raw series the store holds (before external labels)
//   client   := <mint>:<maxt>:<filterOK>:<isLocal>:<addr>:<sets>:<series ('/' series)* | '-'>
//   clients  := client ('|' client)* | '-'
// ops:
//   prune.lsm    <matchers> <sets>                                  -> 1 | 0                 store.LabelSetsMatch
//   prune.store  <mint> <maxt> <matchers> <dbg> <client>            -> ok|time|local|addr|extlabels|filter   storeMatches (hook)
//   prune.ext    <matchers> <labels>                                -> nomatch | ok <kept>   matchesExternalLabels (hook)
//   o.prune.e2e  … real TSDB stores behind the proxy, see c05e2e.go (oracle only)
//   prune.sel / o.prune.e2esel … the same with a TSDB selector, see c05sel.go
//   prune.series <mint> <maxt> <matchers> <sel> <abort> <dbg> <clients>
//                 -> none | invalid | unavailable | ok <queried idx,…> <matchers forwarded>  ProxyStore.Series with recording clients
// oracle (independent of the model, uses the real prometheus matchers and labelpb.ExtendSortedLabels):
//   a store that was skipped for its time range / external labels serves no series selected by the query.

func init() {
	props = append(props, &hlib.Prop{ID: "C05", Gen: genC05, Exec: execC05})
}

type rawSeries struct {
	lbls labels.Labels
	ts   []int64
}

type pClient struct {
	*fakeClient
	raw []rawSeries
}

type pMatcher struct {
	m   *labels.Matcher
	pb  storepb.LabelMatcher
	acc []string // as given on the line (only used to re-emit)
}

func parseMatcherTok(s string) (pMatcher, bool) {
	p := strings.Split(s, ":")
	if len(p) != 4 {
		return pMatcher{}, false
	}
	ty, err := strconv.Atoi(p[0])
	if err != nil || ty < 0 || ty > 3 {
		return pMatcher{}, false
	}
	name, value := hlib.UnHexS(p[1]), hlib.UnHexS(p[2])
	mt := []labels.MatchType{labels.MatchEqual, labels.MatchNotEqual, labels.MatchRegexp, labels.MatchNotRegexp}[ty]
	m, err := labels.NewMatcher(mt, name, value)
	if err != nil {
		return pMatcher{}, false
	}
	pt := []storepb.LabelMatcher_Type{storepb.LabelMatcher_EQ, storepb.LabelMatcher_NEQ, storepb.LabelMatcher_RE, storepb.LabelMatcher_NRE}[ty]
	return pMatcher{m: m, pb: storepb.LabelMatcher{Type: pt, Name: name, Value: value}}, true
}

func parseMatchersTok(s string) ([]pMatcher, bool) {
	var out []pMatcher
	for _, t := range hlib.Split(s, ";") {
		m, ok := parseMatcherTok(t)
		if !ok {
			return nil, false
		}
		out = append(out, m)
	}
	return out, true
}

func promMatchers(ms []pMatcher) []*labels.Matcher {
	out := make([]*labels.Matcher, len(ms))
	for i, m := range ms {
		out[i] = m.m
	}
	return out
}

func pbMatchers(ms []pMatcher) []storepb.LabelMatcher {
	out := make([]storepb.LabelMatcher, len(ms))
	for i, m := range ms {
		out[i] = m.pb
	}
	return out
}

func parseDbgTok(s string) ([][]*labels.Matcher, bool) {
	var out [][]*labels.Matcher
	for _, t := range hlib.Split(s, "/") {
		ms, ok := parseMatchersTok(t)
		if !ok {
			return nil, false
		}
		out = append(out, promMatchers(ms))
	}
	return out, true
}

func parseLabelsTok(s string) (labels.Labels, bool) {
	if s == "_" {
		return labels.EmptyLabels(), true
	}
	var ls []labels.Label
	for _, t := range hlib.Split(s, ",") {
		p := strings.Split(t, "=")
		if len(p) != 2 {
			return labels.EmptyLabels(), false
		}
		ls = append(ls, labels.Label{Name: hlib.UnHexS(p[0]), Value: hlib.UnHexS(p[1])})
	}
	return labels.New(ls...), true
}

func parseSetsTok(s string) ([]labels.Labels, bool) {
	var out []labels.Labels
	for _, t := range hlib.Split(s, "/") {
		l, ok := parseLabelsTok(t)
		if !ok {
			return nil, false
		}
		out = append(out, l)
	}
	return out, true
}

func parseClientTok(s string, idx int) (*pClient, bool) {
	p := strings.Split(s, ":")
	if len(p) != 7 {
		return nil, false
	}
	mint, e1 := strconv.ParseInt(p[0], 10, 64)
	maxt, e2 := strconv.ParseInt(p[1], 10, 64)
	if e1 != nil || e2 != nil || (p[2] != "0" && p[2] != "1") || (p[3] != "0" && p[3] != "1") {
		return nil, false
	}
	sets, ok := parseSetsTok(p[5])
	if !ok {
		return nil, false
	}
	c := &pClient{fakeClient: &fakeClient{name: hlib.UnHexS(p[4]), extSets: sets, mint: mint, maxt: maxt,
		filterNot: p[2] == "0", local: p[3] == "1", recvErrAt: -1, hangAt: -1, withoutReplica: true, shardable: true}}
	for _, t := range hlib.Split(p[6], "/") {
		q := strings.Split(t, "@")
		if len(q) != 2 {
			return nil, false
		}
		l, ok := parseLabelsTok(q[0])
		if !ok {
			return nil, false
		}
		c.raw = append(c.raw, rawSeries{lbls: l, ts: hlib.ParseInts(q[1], "+")})
	}
	_ = idx
	return c, true
}

func parseClientsTok(s string) ([]*pClient, bool) {
	var out []*pClient
	for i, t := range hlib.Split(s, "|") {
		c, ok := parseClientTok(t, i)
		if !ok {
			return nil, false
		}
		out = append(out, c)
	}
	return out, true
}

func showPbMatchers(ms []storepb.LabelMatcher) string {
	var out []string
	for _, m := range ms {
		ty := map[storepb.LabelMatcher_Type]int{storepb.LabelMatcher_EQ: 0, storepb.LabelMatcher_NEQ: 1, storepb.LabelMatcher_RE: 2, storepb.LabelMatcher_NRE: 3}[m.Type]
		out = append(out, fmt.Sprintf("%d:%s:%s", ty, hlib.HexS(m.Name), hlib.HexS(m.Value)))
	}
	return hlib.Join(out, ";")
}

func showPromMatchers(ms []*labels.Matcher) string {
	var out []string
	for _, m := range ms {
		ty := map[labels.MatchType]int{labels.MatchEqual: 0, labels.MatchNotEqual: 1, labels.MatchRegexp: 2, labels.MatchNotRegexp: 3}[m.Type]
		out = append(out, fmt.Sprintf("%d:%s:%s", ty, hlib.HexS(m.Name), hlib.HexS(m.Value)))
	}
	return hlib.Join(out, ";")
}

func reasonEnum(ok bool, reason string) string {
	switch {
	case ok:
		return "ok"
	case strings.HasPrefix(reason, "does not have data within this time period"):
		return "time"
	case strings.HasPrefix(reason, "the store is not remote"):
		return "local"
	case strings.HasPrefix(reason, "__address__"):
		return "addr"
	case strings.HasPrefix(reason, "external labels"):
		return "extlabels"
	case strings.HasPrefix(reason, "store does not match filter"):
		return "filter"
	}
	return "other:" + reason
}

// ---- the property oracle -------------------------------------------------------------------

// servedBy lists what the store serves: every raw series extended by one of its label sets.
func servedBy(c *pClient) []rawSeries {
	if len(c.extSets) == 0 {
		return c.raw
	}
	var out []rawSeries
	for _, e := range c.extSets {
		for _, r := range c.raw {
			out = append(out, rawSeries{lbls: labelpb.ExtendSortedLabels(r.lbls, e), ts: r.ts})
		}
	}
	return out
}

func selectedBy(ms []*labels.Matcher, mint, maxt int64, s rawSeries) bool {
	for _, m := range ms {
		if !m.Matches(s.lbls.Get(m.Name)) {
			return false
		}
	}
	for _, t := range s.ts {
		if mint <= t && t <= maxt {
			return true
		}
	}
	return false
}

// contractOK: the advertised time range bounds the store's data (the store's side of the contract).
func contractOK(c *pClient) bool {
	for _, r := range c.raw {
		for _, t := range r.ts {
			if t < c.mint || t > c.maxt {
				return false
			}
		}
	}
	return true
}

func carries(l labels.Labels, sel labels.Labels) bool {
	ok := true
	sel.Range(func(x labels.Label) {
		if x.Value != "" && l.Get(x.Name) != x.Value {
			ok = false
		}
	})
	return ok
}

// oraclePruned checks one skipped store; `why` is the reason the implementation gave ("" when only
// the fact of not being queried is known).
func oraclePruned(c *hlib.Ctx, cl *pClient, why string, ms []*labels.Matcher, mint, maxt int64, sel labels.Labels) {
	if !contractOK(cl) {
		c.Count("oracle:contract-broken-skipped")
		return
	}
	for _, s := range servedBy(cl) {
		if !carries(s.lbls, sel) {
			continue
		}
		if selectedBy(ms, mint, maxt, s) {
			class := "pruned-store-holds-data"
			switch why {
			case "time":
				class = "pruned-by-time-holds-data"
			case "extlabels":
				class = "pruned-by-labels-holds-data"
			}
			c.Violation(class, fmt.Sprintf("store %q skipped (%s) but serves %s with samples %v selected by the query", cl.name, why, s.lbls.String(), s.ts))
			return
		}
	}
	c.Count("oracle:pruned-store-checked")
}

func execC05(c *hlib.Ctx, tok []string) string {
	if len(tok) == 0 {
		return "bad-op"
	}
	switch tok[0] {
	case "o.prune.e2e":
		return execPruneE2E(c, tok)
	case "o.prune.e2esel":
		return execPruneE2ESel(c, tok)
	case "prune.sel":
		return execPruneSel(c, tok)
	case "prune.lsm":
		if len(tok) != 3 {
			return "bad-op"
		}
		ms, ok1 := parseMatchersTok(tok[1])
		sets, ok2 := parseSetsTok(tok[2])
		if !ok1 || !ok2 {
			return "bad-op"
		}
		if store.LabelSetsMatch(promMatchers(ms), sets...) {
			return "1"
		}
		return "0"
	case "prune.store":
		if len(tok) != 6 {
			return "bad-op"
		}
		mint, e1 := strconv.ParseInt(tok[1], 10, 64)
		maxt, e2 := strconv.ParseInt(tok[2], 10, 64)
		ms, ok1 := parseMatchersTok(tok[3])
		dbg, ok2 := parseDbgTok(tok[4])
		cl, ok3 := parseClientTok(tok[5], 0)
		if e1 != nil || e2 != nil || !ok1 || !ok2 || !ok3 {
			return "bad-op"
		}
		ctx := context.Background()
		if len(dbg) > 0 {
			ctx = context.WithValue(ctx, store.StoreMatcherKey, dbg)
		}
		ok, reason := store.VerifStoreMatches(ctx, cl, mint, maxt, promMatchers(ms)...)
		r := reasonEnum(ok, reason)
		if r == "time" || r == "extlabels" {
			oraclePruned(c, cl, r, promMatchers(ms), mint, maxt, labels.EmptyLabels())
		}
		return r
	case "prune.ext":
		if len(tok) != 3 {
			return "bad-op"
		}
		ms, ok1 := parseMatchersTok(tok[1])
		ext, ok2 := parseLabelsTok(tok[2])
		if !ok1 || !ok2 {
			return "bad-op"
		}
		match, kept, err := store.VerifMatchesExternalLabels(pbMatchers(ms), ext)
		if err != nil {
			return "invalid"
		}
		if !match {
			return "nomatch"
		}
		return "ok " + showPromMatchers(kept)
	case "prune.series":
		if len(tok) != 8 {
			return "bad-op"
		}
		mint, e1 := strconv.ParseInt(tok[1], 10, 64)
		maxt, e2 := strconv.ParseInt(tok[2], 10, 64)
		ms, ok1 := parseMatchersTok(tok[3])
		sel, ok2 := parseLabelsTok(tok[4])
		dbg, ok3 := parseDbgTok(tok[6])
		cls, ok4 := parseClientsTok(tok[7])
		if e1 != nil || e2 != nil || !ok1 || !ok2 || !ok3 || !ok4 || (tok[5] != "0" && tok[5] != "1") {
			return "bad-op"
		}
		ctx := context.Background()
		if len(dbg) > 0 {
			ctx = context.WithValue(ctx, store.StoreMatcherKey, dbg)
		}
		clients := make([]store.Client, len(cls))
		for i, cl := range cls {
			clients[i] = cl
		}
		p := store.NewProxyStore(nil, nil, func() []store.Client { return clients }, component.Query, sel, 0, store.EagerRetrieval)
		strat := storepb.PartialResponseStrategy_WARN
		if tok[5] == "1" {
			strat = storepb.PartialResponseStrategy_ABORT
		}
		srv := &collectServer{ctx: ctx}
		err := p.Series(&storepb.SeriesRequest{MinTime: mint, MaxTime: maxt, Matchers: pbMatchers(ms), PartialResponseStrategy: strat}, srv)
		if err != nil {
			if status.Code(err) == codes.InvalidArgument {
				return "invalid"
			}
			if err == store.ErrorNoStoresAvailable {
				return "unavailable"
			}
			return "err:" + err.Error()
		}
		var idx []string
		fwd := ""
		for i, cl := range cls {
			if cl.queried() {
				idx = append(idx, strconv.Itoa(i))
				f := showPbMatchers(cl.request().Matchers)
				if fwd != "" && fwd != f {
					c.Violation("forwarded-matchers-differ", "two stores got different matchers: "+fwd+" vs "+f)
				}
				fwd = f
			} else if !cl.filterNot && len(dbg) == 0 {
				// skipped because of the time range, the external labels or the proxy's selector labels
				oraclePruned(c, cl, "", promMatchers(ms), mint, maxt, sel)
			}
		}
		if len(idx) == 0 {
			return "none"
		}
		// the forwarded matchers must select the same series of a queried store as the original ones
		fm, okf := parseMatchersTok(addAcc(fwd))
		if okf {
			for _, cl := range cls {
				if !cl.queried() {
					continue
				}
				for _, s := range servedBy(cl) {
					if carries(s.lbls, sel) && selectedBy(promMatchers(ms), mint, maxt, s) != selectedBy(promMatchers(fm), mint, maxt, s) {
						c.Violation("dropped-matcher-changes-selection", fmt.Sprintf("series %s: original and forwarded matchers disagree", s.lbls.String()))
					}
				}
			}
		}
		return "ok " + strings.Join(idx, ",") + " " + fwd
	}
	return "bad-op"
}

// addAcc turns the 3-field matcher output format back into the 4-field input format.
func addAcc(s string) string {
	var out []string
	for _, t := range hlib.Split(s, ";") {
		out = append(out, t+":-")
	}
	return hlib.Join(out, ";")
}

// ---- generator -------------------------------------------------------------------------------

var (
	c05Names  = []string{"a", "b", "c", "__name__", "replica", "__address__"}
	c05Values = []string{"x", "y", "xy", "z", ""}
	c05Regex  = []string{"x|y", ".*", ".+", "x.*", "", "y?", "[^x]*", "xy|z", "(x|y)+", "s[0-9]"}
	c05Addrs  = []string{"s0", "s1", "s2", "local"}
)

type gMatcher struct {
	ty          int
	name, value string
}

type gClient struct {
	mint, maxt int64
	filterOK   bool
	local      bool
	addr       string
	sets       [][][2]string
	raw        []gSeries
}

type gSeries struct {
	lbls [][2]string
	ts   []int64
}

func genLabelSet(r *hlib.Rand, names []string, maxN int, allowEmptyValue bool) [][2]string {
	n := r.Intn(maxN + 1)
	perm := r.Perm(len(names))
	var out [][2]string
	for i := 0; i < n && i < len(perm); i++ {
		v := c05Values[r.Intn(len(c05Values)-1)]
		if allowEmptyValue && r.Chance(1, 12) {
			v = ""
		}
		out = append(out, [2]string{names[perm[i]], v})
	}
	sort.Slice(out, func(i, j int) bool { return out[i][0] < out[j][0] })
	return out
}

func showLabelSet(ls [][2]string) string {
	if len(ls) == 0 {
		return "_"
	}
	var out []string
	for _, l := range ls {
		out = append(out, hlib.HexS(l[0])+"="+hlib.HexS(l[1]))
	}
	return strings.Join(out, ",")
}

func genMatcher(c *hlib.Ctx) gMatcher {
	r := c.R
	m := gMatcher{ty: r.Intn(4), name: c05Names[r.Intn(5)]}
	if r.Chance(1, 15) {
		m.name = "__address__"
	}
	if m.ty < 2 {
		m.value = c05Values[r.Intn(len(c05Values))]
	} else {
		m.value = c05Regex[r.Intn(len(c05Regex))]
	}
	c.Count(fmt.Sprintf("matcher:type%d", m.ty))
	if m.value == "" {
		c.Count("matcher:empty-value")
	}
	return m
}

// showMatchers emits matchers with the regex truth table over the universe of the case.
func showMatchers(ms []gMatcher, universe []string) string {
	var out []string
	for _, m := range ms {
		acc := "-"
		if m.ty >= 2 {
			pm, err := labels.NewMatcher(labels.MatchRegexp, m.name, m.value)
			if err != nil {
				panic(err)
			}
			// values are sent as "v"+hex so that the empty string ("v") is distinct from the empty list ("-")
			var a []string
			for _, v := range universe {
				if pm.Matches(v) {
					a = append(a, "v"+strings.TrimPrefix(hlib.HexS(v), "-"))
				}
			}
			acc = hlib.Join(a, ",")
		}
		out = append(out, fmt.Sprintf("%d:%s:%s:%s", m.ty, hlib.HexS(m.name), hlib.HexS(m.value), acc))
	}
	return hlib.Join(out, ";")
}

func genClient(c *hlib.Ctx, i int) gClient {
	r := c.R
	cl := gClient{filterOK: !r.Chance(1, 15), local: r.Chance(1, 10), addr: c05Addrs[r.Intn(len(c05Addrs))]}
	switch r.Intn(10) {
	case 0:
		cl.mint, cl.maxt = math.MaxInt64, math.MinInt64 // uninitialised TSDB
		c.Count("client:range-uninitialised")
	case 1:
		cl.mint, cl.maxt = math.MinInt64, math.MaxInt64
		c.Count("client:range-unbounded")
	default:
		cl.mint = r.I64Range(-20, 60)
		cl.maxt = cl.mint + r.I64Range(0, 50)
	}
	nsets := r.Intn(4)
	c.Count(fmt.Sprintf("client:labelsets%d", nsets))
	for k := 0; k < nsets; k++ {
		cl.sets = append(cl.sets, genLabelSet(r, c05Names[:5], 3, true))
	}
	if cl.mint <= cl.maxt {
		for k := r.Intn(4); k > 0; k-- {
			s := gSeries{lbls: genLabelSet(r, c05Names[:5], 3, false)}
			for j := r.Range(1, 3); j > 0; j-- {
				s.ts = append(s.ts, r.I64Range(cl.mint, min64(cl.maxt, cl.mint+100)))
			}
			cl.raw = append(cl.raw, s)
		}
	}
	return cl
}

func min64(a, b int64) int64 {
	if a < b {
		return a
	}
	return b
}

func showClient(cl gClient) string {
	var sets, raw []string
	for _, s := range cl.sets {
		sets = append(sets, showLabelSet(s))
	}
	for _, s := range cl.raw {
		raw = append(raw, showLabelSet(s.lbls)+"@"+hlib.Ints(s.ts, "+"))
	}
	b := func(x bool) string {
		if x {
			return "1"
		}
		return "0"
	}
	return fmt.Sprintf("%d:%d:%s:%s:%s:%s:%s", cl.mint, cl.maxt, b(cl.filterOK), b(cl.local), hlib.HexS(cl.addr), hlib.Join(sets, "/"), hlib.Join(raw, "/"))
}

func universeOf(cls []gClient, sel [][2]string) []string {
	set := map[string]bool{"": true}
	for _, v := range c05Values {
		set[v] = true
	}
	for _, a := range c05Addrs {
		set[a] = true
	}
	for _, cl := range cls {
		for _, s := range cl.sets {
			for _, l := range s {
				set[l[1]] = true
			}
		}
		for _, s := range cl.raw {
			for _, l := range s.lbls {
				set[l[1]] = true
			}
		}
	}
	for _, l := range sel {
		set[l[1]] = true
	}
	return hlib.SortedKeys(set)
}

func genC05(c *hlib.Ctx) {
	r := c.R
	n := c.N(4000, 150000)
	for i := 0; i < n; i++ {
		var ms []gMatcher
		for k := r.Range(0, 4); k > 0; k-- {
			ms = append(ms, genMatcher(c))
		}
		var cls []gClient
		for k := r.Range(0, 4); k > 0; k-- {
			cls = append(cls, genClient(c, k))
		}
		var sel [][2]string
		if r.Chance(1, 3) {
			sel = genLabelSet(r, c05Names[:5], 2, true)
			// a proxy's stores carry its selector labels: add them to every label set / raw series
			for ci := range cls {
				for si := range cls[ci].sets {
					cls[ci].sets[si] = withLabels(cls[ci].sets[si], sel)
				}
				if len(cls[ci].sets) == 0 {
					for si := range cls[ci].raw {
						cls[ci].raw[si].lbls = withLabels(cls[ci].raw[si].lbls, sel)
					}
				}
			}
		}
		uni := universeOf(cls, sel)
		mtok := showMatchers(ms, uni)
		qmint := r.I64Range(-30, 70)
		qmaxt := qmint + r.I64Range(0, 120)
		if r.Chance(1, 4) {
			qmaxt = qmint + r.I64Range(0, 5) // narrow ranges: boundary cases of the time test
		}
		if r.Chance(1, 20) {
			qmint, qmaxt = math.MinInt64, math.MaxInt64
		}
		dbg := "-"
		if r.Chance(1, 8) {
			var d []string
			for k := r.Range(1, 2); k > 0; k-- {
				var dm []gMatcher
				for j := r.Range(1, 2); j > 0; j-- {
					m := gMatcher{ty: r.Intn(4), name: "__address__"}
					if r.Chance(1, 4) {
						m.name = "a"
					}
					if m.ty < 2 {
						m.value = c05Addrs[r.Intn(len(c05Addrs))]
					} else {
						m.value = []string{"s.*", "s0|s1", "local", ".*"}[r.Intn(4)]
					}
					dm = append(dm, m)
				}
				d = append(d, showMatchers(dm, uni))
			}
			dbg = strings.Join(d, "/")
			c.Count("dbg-matchers")
		}
		var ctoks []string
		for _, cl := range cls {
			ctoks = append(ctoks, showClient(cl))
		}
		// per-store decisions and the label-set test on its own
		for _, ct := range ctoks {
			ans := c.Do(fmt.Sprintf("prune.store %d %d %s %s %s", qmint, qmaxt, mtok, dbg, ct), true)
			c.Count("store:" + ans)
		}
		if len(cls) > 0 {
			var sets []string
			for _, s := range cls[0].sets {
				sets = append(sets, showLabelSet(s))
			}
			c.Count("lsm:" + c.Do(fmt.Sprintf("prune.lsm %s %s", mtok, hlib.Join(sets, "/")), true))
		}
		ext := genLabelSet(r, c05Names[:5], 3, true)
		if len(sel) > 0 {
			ext = sel
		}
		ans := c.Do(fmt.Sprintf("prune.ext %s %s", mtok, showLabelSet(ext)), true)
		c.Count("ext:" + strings.Fields(ans)[0])
		abort := "0"
		if r.Bool() {
			abort = "1"
		}
		ans = c.Do(fmt.Sprintf("prune.series %d %d %s %s %s %s %s", qmint, qmaxt, mtok, showLabelSet(sel), abort, dbg, hlib.Join(ctoks, "|")), true)
		c.Count("series:" + strings.Fields(ans)[0])
	}
	// TSDB selector: recording clients (compared with the model) and real multi-TSDB stores (oracle only)
	nsel := c.N(1500, 40000)
	for i := 0; i < nsel; i++ {
		ans := c.Do(genPruneSel(c), true)
		c.Count("sel:" + strings.Fields(ans)[0])
	}
	nes := c.N(30, 400)
	for i := 0; i < nes; i++ {
		ans := c.Do(genPruneE2ESel(c), true)
		if strings.HasPrefix(ans, "err") {
			c.Count("e2esel:" + ans)
		}
	}
	// end to end on real TSDB stores (oracle only)
	ne := c.N(80, 800)
	for i := 0; i < ne; i++ {
		ans := c.Do(genPruneE2E(c), true)
		if strings.HasPrefix(ans, "err") {
			c.Count("e2e:" + ans)
		}
	}
}

func withLabels(ls [][2]string, add [][2]string) [][2]string {
	m := map[string]string{}
	for _, l := range ls {
		m[l[0]] = l[1]
	}
	for _, l := range add {
		if l[1] != "" {
			m[l[0]] = l[1]
		}
	}
	var out [][2]string
	for _, k := range hlib.SortedKeys(m) {
		out = append(out, [2]string{k, m[k]})
	}
	return out
}
