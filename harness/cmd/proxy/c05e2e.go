package main

import (
	"context"
	"fmt"
	"math"
	"os"
	"sort"
	"strconv"
	"strings"
	"sync"

	"github.com/prometheus/prometheus/model/labels"
	"github.com/prometheus/prometheus/tsdb"
	"go.uber.org/atomic"
	"google.golang.org/grpc"

	"github.com/thanos-io/thanos/pkg/component"
	"github.com/thanos-io/thanos/pkg/info/infopb"
	"github.com/thanos-io/thanos/pkg/store"
	"github.com/thanos-io/thanos/pkg/store/labelpb"
	"github.com/thanos-io/thanos/pkg/store/storepb"
	"github.com/thanos-io/thanos/verifharness/hlib"
)

// C05, end to end on real stores (oracle-only op: the model does not see it).
//
//   o.prune.e2e <qmint> <qmaxt> <matchers> <store ('|' store)*>
//       store := <external labels>:<raw series ('/' …) | ->          (grammar of labels / series as in c05.go)
//   -> q=<indices of the stores the proxy queried> n=<series in the proxy's answer>
//
// Every store is a real store.TSDBStore over a real tsdb.DB (temp dir) holding the raw series; the
// proxy sees it through its real LabelSet() / TimeRange().  The same request is also sent to every
// store directly.  Oracle: a store the proxy did not query returns nothing when asked directly, and
// the proxy's answer has exactly the label sets of the union of the direct answers.

type tsdbClient struct {
	storepb.StoreClient
	st    *store.TSDBStore
	name  string
	mu    sync.Mutex
	calls int
}

func (c *tsdbClient) LabelSets() []labels.Labels {
	return labelpb.ZLabelSetsToPromLabelSets(c.st.LabelSet()...)
}
func (c *tsdbClient) TimeRange() (int64, int64)           { return c.st.TimeRange() }
func (c *tsdbClient) TSDBInfos() []infopb.TSDBInfo        { return c.st.TSDBInfos() }
func (c *tsdbClient) SupportsSharding() bool              { return true }
func (c *tsdbClient) SupportsWithoutReplicaLabels() bool  { return true }
func (c *tsdbClient) String() string                      { return c.name }
func (c *tsdbClient) Addr() (string, bool)                { return c.name, true }
func (c *tsdbClient) Matches(ms []*labels.Matcher) bool   { return c.st.Matches(ms) }
func (c *tsdbClient) Series(ctx context.Context, in *storepb.SeriesRequest, o ...grpc.CallOption) (storepb.Store_SeriesClient, error) {
	c.mu.Lock()
	c.calls++
	c.mu.Unlock()
	return c.StoreClient.Series(ctx, in, o...)
}

func seriesLabelSets(rs []*storepb.SeriesResponse) []string {
	var out []string
	for _, s := range flattenPB(rs) {
		out = append(out, labelpb.ZLabelsToPromLabels(s.Labels).String())
	}
	sort.Strings(out)
	return out
}

func execPruneE2E(c *hlib.Ctx, tok []string) string {
	if len(tok) != 5 {
		return "bad-op"
	}
	qmint, e1 := strconv.ParseInt(tok[1], 10, 64)
	qmaxt, e2 := strconv.ParseInt(tok[2], 10, 64)
	ms, ok := parseMatchersTok(tok[3])
	if e1 != nil || e2 != nil || !ok {
		return "bad-op"
	}
	base, err := os.MkdirTemp("", "verif-c05-")
	if err != nil {
		return "err:tmp"
	}
	defer os.RemoveAll(base)
	var clients []*tsdbClient
	var dbs []*tsdb.DB
	defer func() {
		for _, db := range dbs {
			_ = db.Close()
		}
	}()
	for i, t := range hlib.Split(tok[4], "|") {
		p := strings.Split(t, ":")
		if len(p) != 2 {
			return "bad-op"
		}
		ext, ok := parseLabelsTok(p[0])
		if !ok {
			return "bad-op"
		}
		opts := tsdb.DefaultOptions()
		opts.RetentionDuration = math.MaxInt64
		db, err := tsdb.Open(fmt.Sprintf("%s/%d", base, i), nil, nil, opts, nil)
		if err != nil {
			return "err:tsdb-open"
		}
		dbs = append(dbs, db)
		app := db.Appender(context.Background())
		for _, st := range hlib.Split(p[1], "/") {
			q := strings.Split(st, "@")
			if len(q) != 2 {
				return "bad-op"
			}
			l, ok := parseLabelsTok(q[0])
			if !ok || l.IsEmpty() {
				return "bad-op"
			}
			ts := hlib.ParseInts(q[1], "+")
			sort.Slice(ts, func(a, b int) bool { return ts[a] < ts[b] })
			for k, x := range ts {
				if k > 0 && ts[k-1] == x {
					continue
				}
				if _, err := app.Append(0, l, x, 1); err != nil {
					return "err:append:" + err.Error()
				}
			}
		}
		if err := app.Commit(); err != nil {
			return "err:commit"
		}
		st := store.NewTSDBStore(nil, db, component.Rule, ext)
		clients = append(clients, &tsdbClient{StoreClient: storepb.ServerAsClient(st, *atomic.NewBool(false)), st: st, name: fmt.Sprintf("s%d", i)})
	}
	cl := make([]store.Client, len(clients))
	for i, x := range clients {
		cl[i] = x
	}
	req := func() *storepb.SeriesRequest {
		return &storepb.SeriesRequest{MinTime: qmint, MaxTime: qmaxt, Matchers: pbMatchers(ms), PartialResponseStrategy: storepb.PartialResponseStrategy_WARN}
	}
	p := store.NewProxyStore(nil, nil, func() []store.Client { return cl }, component.Query, labels.EmptyLabels(), 0, store.EagerRetrieval)
	srv := &collectServer{ctx: context.Background()}
	if err := p.Series(req(), srv); err != nil {
		return "err:" + err.Error()
	}
	var queried []string
	wasQueried := make([]bool, len(clients))
	for i, x := range clients {
		if x.calls > 0 {
			queried = append(queried, strconv.Itoa(i))
			wasQueried[i] = true
		}
	}
	union := map[string]bool{}
	for i, x := range clients {
		cs, err := x.StoreClient.Series(context.Background(), req())
		if err != nil {
			return "err:direct:" + err.Error()
		}
		var rs []*storepb.SeriesResponse
		for {
			r, err := cs.Recv()
			if err != nil {
				break
			}
			rs = append(rs, r)
		}
		direct := seriesLabelSets(rs)
		for _, l := range direct {
			union[l] = true
		}
		if !wasQueried[i] {
			c.Count("e2e:store-pruned")
			if len(direct) > 0 {
				c.Violation("pruned-real-store-returns-series", fmt.Sprintf("TSDBStore %d (labels %v, range %v) was not queried by the proxy but answers %v to the same request", i, x.LabelSets(), fmt.Sprint(x.TimeRange()), direct))
			}
		} else {
			c.Count("e2e:store-queried")
			if len(direct) > 0 {
				c.Count("e2e:queried-store-has-data")
			}
		}
	}
	got := map[string]bool{}
	for _, l := range seriesLabelSets(srv.resps) {
		got[l] = true
	}
	for l := range union {
		if !got[l] {
			c.Violation("proxy-answer-misses-series-of-a-store", "a store answers "+l+" to the request, the proxy's answer does not have it")
		}
	}
	for l := range got {
		if !union[l] {
			c.Violation("proxy-answer-has-series-no-store-returns", l)
		}
	}
	return fmt.Sprintf("q=%s n=%d", hlib.Join(queried, ","), len(got))
}

// genPruneE2E emits one o.prune.e2e line.
func genPruneE2E(c *hlib.Ctx) string {
	r := c.R
	var ms []gMatcher
	for k := r.Range(1, 3); k > 0; k-- {
		m := genMatcher(c)
		if m.name == "__address__" {
			m.name = "a"
		}
		ms = append(ms, m)
	}
	n := r.Range(1, 3)
	var cls []gClient
	var toks []string
	for i := 0; i < n; i++ {
		ext := genLabelSet(r, c05Names[:5], 2, false)
		base := r.I64Range(1, 150)
		cl := gClient{sets: [][][2]string{ext}}
		for k := r.Range(0, 3); k > 0; k-- {
			s := gSeries{lbls: genLabelSet(r, c05Names[:4], 3, false)}
			if len(s.lbls) == 0 {
				s.lbls = [][2]string{{"a", "x"}}
			}
			for j := r.Range(1, 3); j > 0; j-- {
				s.ts = append(s.ts, base+r.I64Range(0, 40))
			}
			cl.raw = append(cl.raw, s)
		}
		// two raw series with equal labels would be one series in the TSDB: keep the first
		seen := map[string]bool{}
		var raw []string
		for _, s := range cl.raw {
			k := showLabelSet(s.lbls)
			if seen[k] {
				continue
			}
			seen[k] = true
			raw = append(raw, k+"@"+hlib.Ints(s.ts, "+"))
		}
		cls = append(cls, cl)
		toks = append(toks, showLabelSet(ext)+":"+hlib.Join(raw, "/"))
	}
	// half of the time aim the matchers (and the time range) at a series some store really serves
	qmint := r.I64Range(0, 160)
	qmaxt := qmint + r.I64Range(0, 80)
	if r.Bool() {
		ci := r.Intn(len(cls))
		if len(cls[ci].raw) > 0 {
			s := cls[ci].raw[r.Intn(len(cls[ci].raw))]
			pool := append(append([][2]string{}, s.lbls...), cls[ci].sets[0]...)
			ms = ms[:0]
			for k := r.Range(1, 2); k > 0; k-- {
				l := pool[r.Intn(len(pool))]
				switch r.Intn(3) {
				case 0:
					ms = append(ms, gMatcher{ty: 0, name: l[0], value: l[1]})
				case 1:
					ms = append(ms, gMatcher{ty: 2, name: l[0], value: l[1] + "|zz"})
				default:
					ms = append(ms, gMatcher{ty: 1, name: l[0], value: "zz"})
				}
			}
			qmint = s.ts[0] - r.I64Range(0, 10)
			qmaxt = s.ts[0] + r.I64Range(0, 10)
			c.Count("e2e:aimed-at-a-served-series")
		}
	}
	uni := universeOf(cls, nil)
	return fmt.Sprintf("o.prune.e2e %d %d %s %s", qmint, qmaxt, showMatchers(ms, uni), strings.Join(toks, "|"))
}
