package main

import (
	"context"
	"fmt"
	"runtime"
	"runtime/debug"
	"sort"
	"strconv"
	"strings"
	"sync"

	"github.com/prometheus/prometheus/model/labels"

	"github.com/thanos-io/thanos/pkg/component"
	"github.com/thanos-io/thanos/pkg/pool"
	"github.com/thanos-io/thanos/pkg/store"
	"github.com/thanos-io/thanos/pkg/store/labelpb"
	"github.com/thanos-io/thanos/pkg/store/storepb"
	"github.com/thanos-io/thanos/verifharness/hlib"
)

// C17 — pooled buffers are released exactly once and pool budgets hold.
//
// ops:
//   bpool.run <min> <max> <num> <den> <maxTotal> <script>      pool.BucketedPool[byte] (factor = num/den)
//       script := op (',' op)* ; op := g<sz>:n | g<sz>:<cap>   Get(sz); the annotation says what the bucket's
//                                                              sync.Pool handed back (n = nothing, it allocated)
//                                    | p<k>                    Put what the k-th Get of the script returned
//                                    | f<cap>                  Put a slice of capacity cap (grown by append / foreign)
//       -> hang | per op: ok:<cap>:<used> | ex:<used> | <used>   (',' separated)
//   pool.own <script>                                          ShardInfo.Matcher / ShardMatcher.Close on one sync.Pool
//       script := ev (',' ev)* ; ev := o<m>:<id of the buffer the pool handed out> | c<m>
//       -> ids=<buffer id per open> free=<sorted ids of the buffers left in the pool>
//   pool.series <lazy|eager> <nstores> <openErr idx,…|-> <abort>  ProxyStore.Series with ShardInfo over fake stores
//   pool.series2 <lazy|eager> <nstores> <openErr|-> <abort> <recvErr store idx,…|-> <limit>   … with Recv failures and a Limit
//       -> puts=<times the buffer taken for store i was put back | x (never taken)>
//
// sync.Pool is third-party, nondeterministic in general: the process runs with GOMAXPROCS(1) and the
// collector off during an op, which makes Get/Put deterministic; the generator records what the pool
// handed out in the op line and the model follows those choices.
//
// oracle: a buffer handed to a matcher while another live matcher holds it / a buffer present twice
// in the pool; UsedBytes() above the configured maximum; UsedBytes() != 0 after every buffer came back.

func init() {
	props = append(props, &hlib.Prop{ID: "C17", Gen: genC17, Exec: execC17})
}

var c17once sync.Once

func c17setup() {
	c17once.Do(func() {
		runtime.GOMAXPROCS(1)
		debug.SetGCPercent(-1)
	})
}

var c17ops int

func c17gc() {
	c17ops++
	if c17ops%2000 == 0 {
		runtime.GC() // between ops only: pools of finished ops are garbage
	}
}

// ---------------------------------------------------------------- BucketedPool

type bpoolRun struct {
	p        *pool.BucketedPool[byte]
	maxTotal uint64
	got      []*[]byte
	live     map[*[]byte]bool
	clean    bool // no foreign / double puts so far: every byte checked out is in `live`
}

func bpoolSizes(min, max, num, den int) ([]int, bool) {
	factor := float64(num) / float64(den)
	var sizes []int
	for s := min; s <= max; {
		sizes = append(sizes, s)
		n := int(float64(s) * factor)
		if n <= s {
			return nil, false // the constructor's loop would never end
		}
		s = n
	}
	return sizes, true
}

func newBpoolRun(min, max, num, den int, maxTotal uint64) (*bpoolRun, string) {
	if min < 1 || max < 1 || den < 1 || num < den {
		return nil, "bad-op"
	}
	if _, ok := bpoolSizes(min, max, num, den); !ok {
		return nil, "hang"
	}
	p, err := pool.NewBucketedPool[byte](min, max, float64(num)/float64(den), maxTotal)
	if err != nil {
		return nil, "err"
	}
	return &bpoolRun{p: p, maxTotal: maxTotal, live: map[*[]byte]bool{}, clean: true}, ""
}

// do executes one script op (the annotation after ':' is ignored) and returns the answer cell, the
// capacity a successful Get returned (-1 otherwise).
func (b *bpoolRun) do(c *hlib.Ctx, op string) (string, int) {
	switch op[0] {
	case 'g':
		f := strings.Split(op[1:], ":")
		sz, err := strconv.Atoi(f[0])
		if err != nil {
			return "bad", -1
		}
		before := b.p.UsedBytes()
		buf, gerr := b.p.Get(sz)
		b.got = append(b.got, buf)
		used := b.p.UsedBytes()
		if c != nil && b.maxTotal > 0 && used > b.maxTotal && used > before {
			class := "budget-exceeded"
			if gerr == nil && before+uint64(sz) <= b.maxTotal && cap(*buf) > sz {
				class = "budget-exceeded-by-bucket-rounding"
			}
			c.Violation(class, fmt.Sprintf("Get(%d) with %d used of max %d: UsedBytes() = %d", sz, before, b.maxTotal, used))
		}
		if gerr != nil {
			return fmt.Sprintf("ex:%d", used), -1
		}
		b.live[buf] = true
		return fmt.Sprintf("ok:%d:%d", cap(*buf), used), cap(*buf)
	case 'p':
		k, err := strconv.Atoi(op[1:])
		if err != nil || k < 0 || k >= len(b.got) {
			return strconv.FormatUint(b.p.UsedBytes(), 10), -1
		}
		if b.got[k] != nil && !b.live[b.got[k]] {
			b.clean = false // double put
		}
		delete(b.live, b.got[k])
		b.p.Put(b.got[k])
	case 'f':
		n, err := strconv.Atoi(op[1:])
		if err != nil {
			return "bad", -1
		}
		b.clean = false
		s := make([]byte, 0, n)
		b.p.Put(&s)
	default:
		return "bad", -1
	}
	used := b.p.UsedBytes()
	if c != nil && b.clean && len(b.live) == 0 && used != 0 {
		c.Violation("used-nonzero-after-all-returned", fmt.Sprintf("every buffer was put back, UsedBytes() = %d", used))
	}
	return strconv.FormatUint(used, 10), -1
}

// ---------------------------------------------------------------- shard matcher buffers

type ownRun struct {
	pl       *sync.Pool
	ids      map[*[]byte]int
	next     int
	matchers map[int]*storepb.ShardMatcher
	live     map[int]int // matcher -> buffer id, while opened and not closed
}

func newOwnRun() *ownRun {
	o := &ownRun{ids: map[*[]byte]int{}, matchers: map[int]*storepb.ShardMatcher{}, live: map[int]int{}}
	o.pl = &sync.Pool{New: func() any {
		b := make([]byte, 0, 64)
		p := &b
		o.ids[p] = o.next
		o.next++
		return p
	}}
	return o
}

var c17shard = &storepb.ShardInfo{TotalShards: 2, ShardIndex: 0, By: true, Labels: []string{"a"}}

func (o *ownRun) open(c *hlib.Ctx, m int) int {
	sm := c17shard.Matcher(o.pl)
	id := o.ids[storepb.VerifShardMatcherBuf(sm)]
	if c != nil {
		for other, b := range o.live {
			if b == id {
				c.Violation("shard-buffer-shared-by-live-matchers", fmt.Sprintf("matcher %d was handed buffer %d which matcher %d still uses", m, id, other))
			}
		}
	}
	// use it, as the receivers do
	sm.MatchesZLabels(labelpb.ZLabelsFromPromLabels(labels.FromStrings("a", strconv.Itoa(m))))
	o.matchers[m] = sm
	o.live[m] = id
	return id
}

func (o *ownRun) close(m int) {
	if sm, ok := o.matchers[m]; ok {
		sm.Close()
		delete(o.live, m)
	}
}

// drain empties the pool and returns the sorted ids it held.
func (o *ownRun) drain(c *hlib.Ctx) []int {
	var out []int
	for {
		n := o.next
		p := o.pl.Get().(*[]byte)
		if o.next != n {
			break // New ran: the pool was empty
		}
		out = append(out, o.ids[p])
		if len(out) > 10000 {
			break
		}
	}
	sort.Ints(out)
	if c != nil {
		for i := 1; i < len(out); i++ {
			if out[i] == out[i-1] {
				c.Violation("shard-buffer-double-put", fmt.Sprintf("buffer %d is in the pool more than once: %v", out[i], out))
				break
			}
		}
	}
	return out
}

func showInts(xs []int) string {
	s := make([]string, len(xs))
	for i, x := range xs {
		s[i] = strconv.Itoa(x)
	}
	return hlib.Join(s, ",")
}

func execC17(c *hlib.Ctx, tok []string) string {
	c17setup()
	defer c17gc()
	if len(tok) == 0 {
		return "bad-op"
	}
	switch tok[0] {
	case "bpool.run":
		if len(tok) != 7 {
			return "bad-op"
		}
		var v [5]int
		for i := 0; i < 5; i++ {
			x, err := strconv.Atoi(tok[1+i])
			if err != nil || x < 0 {
				return "bad-op"
			}
			v[i] = x
		}
		b, msg := newBpoolRun(v[0], v[1], v[2], v[3], uint64(v[4]))
		if b == nil {
			return msg
		}
		var out []string
		for _, op := range hlib.Split(tok[6], ",") {
			if op == "" {
				return "bad-op"
			}
			a, _ := b.do(c, op)
			out = append(out, a)
		}
		return hlib.Join(out, ",")
	case "pool.own":
		if len(tok) != 2 {
			return "bad-op"
		}
		o := newOwnRun()
		var ids []int
		for _, ev := range hlib.Split(tok[1], ",") {
			if len(ev) < 2 {
				return "bad-op"
			}
			m, err := strconv.Atoi(strings.Split(ev[1:], ":")[0])
			if err != nil {
				return "bad-op"
			}
			switch ev[0] {
			case 'o':
				ids = append(ids, o.open(c, m))
			case 'c':
				o.close(m)
			default:
				return "bad-op"
			}
		}
		return "ids=" + showInts(ids) + " free=" + showInts(o.drain(c))
	case "pool.series", "pool.series2":
		if (tok[0] == "pool.series" && len(tok) != 5) || (tok[0] == "pool.series2" && len(tok) != 7) {
			return "bad-op"
		}
		recvErr := map[int]bool{}
		limit := int64(0)
		if tok[0] == "pool.series2" {
			for _, x := range hlib.ParseInts(tok[5], ",") {
				recvErr[int(x)] = true
			}
			l, err := strconv.ParseInt(tok[6], 10, 64)
			if err != nil {
				return "bad-op"
			}
			limit = l
		}
		n, err := strconv.Atoi(tok[2])
		if err != nil || n < 0 || n > 16 {
			return "bad-op"
		}
		openErr := map[int]bool{}
		for _, x := range hlib.ParseInts(tok[3], ",") {
			openErr[int(x)] = true
		}
		strategy := store.EagerRetrieval
		if tok[1] == "lazy" {
			strategy = store.LazyRetrieval
		}
		var clients []store.Client
		for i := 0; i < n; i++ {
			fc := &fakeClient{name: fmt.Sprintf("s%d", i), mint: 0, maxt: 100, recvErrAt: -1, hangAt: -1,
				withoutReplica: true, shardable: i%2 == 0}
			for k := 0; k < 1+i%3; k++ {
				fc.frames = append(fc.frames, storepb.NewSeriesResponse(&storepb.Series{
					Labels: labelpb.ZLabelsFromPromLabels(labels.FromStrings("a", fmt.Sprintf("%d", k), "s", fc.name))}))
			}
			if openErr[i] {
				fc.openErr = errOpen
			}
			if recvErr[i] {
				fc.recvErrAt = i % 2 // fails before the first or after the first frame
			}
			clients = append(clients, fc)
		}
		p := store.NewProxyStore(nil, nil, func() []store.Client { return clients }, component.Query, labels.EmptyLabels(), 0, strategy)
		pl := store.VerifProxyBuffers(p)
		o := newOwnRun()
		pl.New = o.pl.New
		o.pl = pl
		strat := storepb.PartialResponseStrategy_WARN
		if tok[4] == "1" {
			strat = storepb.PartialResponseStrategy_ABORT
		}
		srv := &collectServer{ctx: context.Background()}
		_ = p.Series(&storepb.SeriesRequest{MinTime: 0, MaxTime: 100, PartialResponseStrategy: strat, Limit: limit,
			Matchers:  []storepb.LabelMatcher{{Type: storepb.LabelMatcher_RE, Name: "a", Value: ".+"}},
			ShardInfo: c17shard}, srv)
		taken := o.next // buffers are taken in store order from an empty pool: buffer i belongs to store i
		free := o.drain(c)
		cnt := make([]int, n)
		for _, id := range free {
			if id < n {
				cnt[id]++
			}
		}
		cells := make([]string, n)
		for i := range cells {
			if i >= taken {
				cells[i] = "x"
			} else {
				cells[i] = strconv.Itoa(cnt[i])
			}
		}
		return "puts=" + hlib.Join(cells, ",")
	}
	return "bad-op"
}

// ---------------------------------------------------------------- generator

func genC17(c *hlib.Ctx) {
	c17setup()
	r := c.R
	// (b) BucketedPool scripts
	nb := c.N(1500, 60000)
	for i := 0; i < nb; i++ {
		min := []int{1, 2, 3, 10, 16}[r.Intn(5)]
		max := min * []int{1, 4, 16, 64, 100}[r.Intn(5)]
		num, den := 2, 1
		switch r.Intn(6) {
		case 0:
			num = 3
		case 1:
			num, den = 3, 2
		case 2:
			num, den = 5, 2
		}
		sizes, ok := bpoolSizes(min, max, num, den)
		if !ok {
			c.Count("bpool:hang-config")
			c.Do(fmt.Sprintf("bpool.run %d %d %d %d 0 -", min, max, num, den), true)
			continue
		}
		top := sizes[len(sizes)-1]
		maxTotal := 0
		if !r.Chance(1, 5) {
			maxTotal = r.Range(1, 4*top)
		}
		b, _ := newBpoolRun(min, max, num, den, uint64(maxTotal))
		var ops []string
		gets := 0
		disciplined := r.Chance(2, 3)
		if disciplined {
			c.Count("bpool:disciplined-script")
		} else {
			c.Count("bpool:script-with-foreign-or-double-puts")
		}
		var liveIdx []int
		for k := r.Range(1, 24); k > 0; k-- {
			switch x := r.Intn(10); {
			case x < 5 || gets == 0:
				var sz int
				switch r.Intn(4) {
				case 0:
					sz = sizes[r.Intn(len(sizes))] // exactly a bucket size
				case 1:
					sz = sizes[r.Intn(len(sizes))] + 1 // just above a bucket
				case 2:
					sz = r.Range(0, top+top/2+2)
				default:
					sz = r.Range(1, top)
				}
				op := fmt.Sprintf("g%d", sz)
				ans, cp := b.do(nil, op)
				choice := "n"
				if cp >= 0 {
					// what did the bucket hand back?  a fresh slice has the bucket size (or sz when oversize)
					fresh := sz
					for _, s := range sizes {
						if sz <= s {
							fresh = s
							break
						}
					}
					if cp != fresh {
						choice = strconv.Itoa(cp)
						c.Count("bpool:get-reused-odd-cap")
					}
					liveIdx = append(liveIdx, gets)
					if sz > top {
						c.Count("bpool:get-oversize")
					}
				} else if strings.HasPrefix(ans, "ex") {
					c.Count("bpool:get-exhausted")
				}
				gets++
				ops = append(ops, op+":"+choice)
			case x < 9 && len(liveIdx) > 0:
				j := r.Intn(len(liveIdx))
				k := liveIdx[j]
				liveIdx = append(liveIdx[:j], liveIdx[j+1:]...)
				op := fmt.Sprintf("p%d", k)
				b.do(nil, op)
				ops = append(ops, op)
			case !disciplined:
				var op string
				if r.Bool() {
					op = fmt.Sprintf("f%d", r.Range(0, top+5))
					c.Count("bpool:foreign-put")
				} else {
					op = fmt.Sprintf("p%d", r.Intn(gets))
					c.Count("bpool:maybe-double-put")
				}
				b.do(nil, op)
				ops = append(ops, op)
			}
		}
		// return everything that is still out, so that "usage returns to zero" is exercised
		if r.Chance(3, 4) {
			for _, k := range liveIdx {
				op := fmt.Sprintf("p%d", k)
				b.do(nil, op)
				ops = append(ops, op)
			}
			c.Count("bpool:all-returned")
		}
		if maxTotal > 0 {
			c.Count("bpool:bounded")
		} else {
			c.Count("bpool:unbounded")
		}
		c.Do(fmt.Sprintf("bpool.run %d %d %d %d %d %s", min, max, num, den, maxTotal, hlib.Join(ops, ",")), true)
		c17gc()
	}

	// (a) ownership scripts: 1-3 requests, each opening 1-4 matchers and closing every one of them
	// once or twice (loser-tree callback + deferred Close), interleaved
	no := c.N(1500, 60000)
	for i := 0; i < no; i++ {
		o := newOwnRun()
		type req struct{ evs []string }
		var pending [][]string // per request: remaining events ("o<m>" / "c<m>")
		m := 0
		waves := r.Range(1, 3)
		var script []string
		for w := 0; w < waves; w++ {
			pending = pending[:0]
			for q := r.Range(1, 3); q > 0; q-- {
				var evs []string
				k := r.Range(1, 4)
				first := m
				for j := 0; j < k; j++ {
					evs = append(evs, fmt.Sprintf("o%d", m))
					m++
				}
				closes := 0
				for rep := 0; rep < 2; rep++ {
					for j := first; j < first+k; j++ {
						if rep == 0 || r.Chance(2, 3) {
							evs = append(evs, fmt.Sprintf("c%d", j))
							closes++
						}
					}
				}
				c.Count(fmt.Sprintf("own:request-matchers%d", k))
				pending = append(pending, evs)
			}
			for len(pending) > 0 {
				j := r.Intn(len(pending))
				ev := pending[j][0]
				pending[j] = pending[j][1:]
				if len(pending[j]) == 0 {
					pending = append(pending[:j], pending[j+1:]...)
				}
				mm, _ := strconv.Atoi(ev[1:])
				if ev[0] == 'o' {
					id := o.open(nil, mm)
					script = append(script, fmt.Sprintf("o%d:%d", mm, id))
				} else {
					o.close(mm)
					script = append(script, ev)
				}
			}
		}
		c.Do("pool.own "+strings.Join(script, ","), true)
		c17gc()
	}

	// the real proxy: sharded Series over 0-5 fake stores, both strategies, open failures
	ns := c.N(300, 6000)
	for i := 0; i < ns; i++ {
		n := r.Range(0, 5)
		var errs []string
		for j := 0; j < n; j++ {
			if r.Chance(1, 6) {
				errs = append(errs, strconv.Itoa(j))
			}
		}
		strat := "eager"
		if r.Bool() {
			strat = "lazy"
		}
		abort := "0"
		if r.Chance(1, 3) {
			abort = "1"
		}
		c.Count(fmt.Sprintf("series:stores%d", n))
		c.Count("series:" + strat)
		c.Do(fmt.Sprintf("pool.series %s %d %s %s", strat, n, hlib.Join(errs, ","), abort), true)
		// the same with Recv failures and a Limit (streams are not drained: some response sets are only
		// closed by the deferred Close)
		var rerrs []string
		for j := 0; j < n; j++ {
			if r.Chance(1, 4) {
				rerrs = append(rerrs, strconv.Itoa(j))
			}
		}
		lim := 0
		if r.Chance(1, 2) {
			lim = r.Range(1, 3)
			c.Count("series:limit")
		}
		if len(rerrs) > 0 {
			c.Count("series:recv-failures")
		}
		c.Do(fmt.Sprintf("pool.series2 %s %d %s %s %s %d", strat, n, hlib.Join(errs, ","), abort, hlib.Join(rerrs, ","), lim), true)
		c17gc()
	}
}
