package main

import (
	"bytes"
	"context"
	"encoding/json"
	"fmt"
	"path"
	"sort"
	"strconv"
	"strings"
	"time"

	"github.com/go-kit/log"
	"github.com/oklog/ulid/v2"
	"github.com/prometheus/client_golang/prometheus"
	"github.com/prometheus/prometheus/tsdb"
	"github.com/thanos-io/objstore"

	"github.com/thanos-io/thanos/pkg/block"
	"github.com/thanos-io/thanos/pkg/block/metadata"
	"github.com/thanos-io/thanos/pkg/compact"
	"github.com/thanos-io/thanos/verifharness/hlib"
)

// C34 — compactor and store gateway delays keep data queryable (protocol model).
//
// One op is a whole trace, replayed against the REAL components on an in-memory bucket:
//   cp.run <deleteDelay s> <ignoreDelay s> <lag s> <gateways> <actions `,`-joined>
//     s          a new level-1 block is uploaded (meta.json, index, one chunk file)
//     c:1+2+3    a compaction of the named blocks is uploaded (tsdb.CompactBlockMetas of their metas); enabled
//                iff all are in the compactor's view = real MetaFetcher[IgnoreDeletionMarkFilter(deleteDelay/2),
//                DefaultDeduplicateFilter] behind the real compact.Syncer
//     f:1+2+3    the same compaction, but its upload fails after the first chunk file: a partial block (no meta.json) is left
//                behind, an id is used up, no block appears; a following m:b:<that id> must be refused
//     m:b:r      block.MarkForDeletion(b) as Group.compact does after uploading r (enabled iff r is an unmarked
//                block of higher level that has all sources of the unmarked block b)
//     g          real Syncer.SyncMetas + Syncer.GarbageCollect
//     x          real Syncer.SyncMetas + BlocksCleaner.DeleteMarkedBlocks (delay deleteDelay)
//     y:<g>      store gateway g syncs: real MetaFetcher[IgnoreDeletionMarkFilter(ignoreDelay), DefaultDeduplicateFilter]
//                (the filter order of cmd/thanos/store.go)
//     t:<d>      d seconds pass: every deletion mark in the bucket is rewritten d seconds older (the real code reads
//                the wall clock); enabled iff no gateway would exceed its sync lag
//   answer, per action, `;`-joined:  <ok|no>/<unmarked ids>/<marked ids>/<loaded ids of gateway 0>|<gateway 1>|…
//
// Delays are ≡ 5 (mod 10) seconds and ticks multiples of 10 s, so no mark age ever comes within 5 s of a delay and
// the wall-clock time an op takes (milliseconds) cannot change a decision.
//
// oracle classes:
//   gateway-lost-sample      a sample that was in the bucket when a gateway last synced is in none of its loaded blocks
//                            that still have all their files
//   gc-marks-last-live-copy  after GarbageCollect some sample has no block without deletion mark any more
//   no-live-copy             the same, noticed after another action

func init() {
	props = append(props, &hlib.Prop{ID: "C34", Gen: genC34, Exec: execC34})
}

type protoEnv struct {
	ctx      context.Context
	bkt      *objstore.InMemBucket
	sy       *compact.Syncer
	cleaner  *compact.BlocksCleaner
	gwFetch  []*block.MetaFetcher
	gwLoaded [][]uint64
	gwKnown  [][]uint64
	gwSync   []int64
	now      int64 // model time
	nextID   uint64
	dd, ig   int64
	lag      int64
	cnt      prometheus.Counter
}

func newProtoEnv(dd, ig, lag int64, k int) (*protoEnv, error) {
	e := &protoEnv{ctx: context.Background(), bkt: objstore.NewInMemBucket(), nextID: 1, dd: dd, ig: ig, lag: lag}
	e.cnt = prometheus.NewCounter(prometheus.CounterOpts{Name: "verif_c34"})
	logger := log.NewNopLogger()
	ins := objstore.WithNoopInstr(e.bkt)
	// compactor side, as cmd/thanos/compact.go wires it: ignore filter with deleteDelay/2, then the duplicate filter
	deleteDelay := time.Duration(dd) * time.Second
	ign := block.NewIgnoreDeletionMarkFilter(logger, ins, deleteDelay/2, 4)
	dup := block.NewDeduplicateFilter(4)
	mf, err := block.NewMetaFetcher(logger, 4, ins, block.NewConcurrentLister(logger, ins), "", nil, []block.MetadataFilter{ign, dup})
	if err != nil {
		return nil, err
	}
	e.sy, err = compact.NewMetaSyncer(logger, nil, e.bkt, mf, dup, ign, e.cnt, e.cnt, 0)
	if err != nil {
		return nil, err
	}
	e.cleaner = compact.NewBlocksCleaner(logger, e.bkt, ign, deleteDelay, e.cnt, e.cnt)
	// store gateways, as cmd/thanos/store.go wires them
	for i := 0; i < k; i++ {
		sign := block.NewIgnoreDeletionMarkFilter(logger, ins, time.Duration(ig)*time.Second, 4)
		f, err := block.NewMetaFetcher(logger, 4, ins, block.NewConcurrentLister(logger, ins), "", nil,
			[]block.MetadataFilter{sign, block.NewDeduplicateFilter(4)})
		if err != nil {
			return nil, err
		}
		e.gwFetch = append(e.gwFetch, f)
		e.gwLoaded = append(e.gwLoaded, nil)
		e.gwKnown = append(e.gwKnown, nil)
		e.gwSync = append(e.gwSync, 0)
	}
	return e, nil
}

func (e *protoEnv) uploadMeta(m *metadata.Meta) error {
	var buf bytes.Buffer
	if err := json.NewEncoder(&buf).Encode(m); err != nil {
		return err
	}
	dir := m.ULID.String()
	// files first, meta.json last (block.Upload's order)
	if err := e.bkt.Upload(e.ctx, path.Join(dir, "chunks", "000001"), bytes.NewReader([]byte("chunk"))); err != nil {
		return err
	}
	if err := e.bkt.Upload(e.ctx, path.Join(dir, "index"), bytes.NewReader([]byte("index"))); err != nil {
		return err
	}
	return e.bkt.Upload(e.ctx, path.Join(dir, metadata.MetaFilename), &buf)
}

func (e *protoEnv) newMeta(id uint64) *metadata.Meta {
	m := &metadata.Meta{}
	m.Version = 1
	m.ULID = idULID(id)
	m.MinTime, m.MaxTime = int64(id)*1000, int64(id)*1000+1000
	m.Compaction.Level = 1
	m.Compaction.Sources = []ulid.ULID{m.ULID}
	m.Thanos.Version = 1
	m.Thanos.Labels = map[string]string{"g": "1"}
	m.Thanos.Source = metadata.SidecarSource
	return m
}

// bucketBlocks lists the blocks that have a meta.json, with their deletion marks.
type bblock struct {
	id      uint64
	meta    *metadata.Meta
	marked  bool
	allFile bool
}

func (e *protoEnv) bucketBlocks() ([]bblock, error) {
	var out []bblock
	err := e.bkt.Iter(e.ctx, "", func(name string) error {
		id, err := ulid.Parse(strings.TrimSuffix(name, "/"))
		if err != nil {
			return nil
		}
		rc, err := e.bkt.Get(e.ctx, path.Join(id.String(), metadata.MetaFilename))
		if err != nil {
			return nil // no meta.json: not a visible block
		}
		defer rc.Close()
		var m metadata.Meta
		if err := json.NewDecoder(rc).Decode(&m); err != nil {
			return err
		}
		marked, _ := e.bkt.Exists(e.ctx, path.Join(id.String(), metadata.DeletionMarkFilename))
		c1, _ := e.bkt.Exists(e.ctx, path.Join(id.String(), "chunks", "000001"))
		c2, _ := e.bkt.Exists(e.ctx, path.Join(id.String(), "index"))
		out = append(out, bblock{id: ulidID(id), meta: &m, marked: marked, allFile: c1 && c2})
		return nil
	})
	sort.Slice(out, func(i, j int) bool { return out[i].id < out[j].id })
	return out, err
}

func srcIDs(m *metadata.Meta) []uint64 {
	var s []uint64
	for _, u := range m.Compaction.Sources {
		s = append(s, ulidID(u))
	}
	return s
}

func hasAll(big, small []uint64) bool {
	in := map[uint64]bool{}
	for _, x := range big {
		in[x] = true
	}
	for _, x := range small {
		if !in[x] {
			return false
		}
	}
	return true
}

func joinPlus(ids []uint64) string {
	sort.Slice(ids, func(i, j int) bool { return ids[i] < ids[j] })
	ss := make([]string, len(ids))
	for i, v := range ids {
		ss[i] = strconv.FormatUint(v, 10)
	}
	return hlib.Join(ss, "+")
}

func (e *protoEnv) digest() (string, error) {
	bs, err := e.bucketBlocks()
	if err != nil {
		return "", err
	}
	var un, mk []uint64
	for _, b := range bs {
		if b.marked {
			mk = append(mk, b.id)
		} else {
			un = append(un, b.id)
		}
	}
	gw := make([]string, len(e.gwLoaded))
	for i, l := range e.gwLoaded {
		gw[i] = joinPlus(append([]uint64(nil), l...))
	}
	g := "-"
	if len(gw) > 0 {
		g = strings.Join(gw, "|")
	}
	return joinPlus(un) + "/" + joinPlus(mk) + "/" + g, nil
}

// shiftMarks makes every deletion mark d seconds older.
func (e *protoEnv) shiftMarks(d int64) error {
	bs, err := e.bucketBlocks()
	if err != nil {
		return err
	}
	for _, b := range bs {
		if !b.marked {
			continue
		}
		p := path.Join(idULID(b.id).String(), metadata.DeletionMarkFilename)
		rc, err := e.bkt.Get(e.ctx, p)
		if err != nil {
			return err
		}
		var dm metadata.DeletionMark
		err = json.NewDecoder(rc).Decode(&dm)
		rc.Close()
		if err != nil {
			return err
		}
		dm.DeletionTime -= d
		raw, _ := json.Marshal(dm)
		if err := e.bkt.Upload(e.ctx, p, bytes.NewReader(raw)); err != nil {
			return err
		}
	}
	return nil
}

func (e *protoEnv) compactorView() (map[uint64]*metadata.Meta, error) {
	if err := e.sy.SyncMetas(e.ctx); err != nil {
		return nil, err
	}
	out := map[uint64]*metadata.Meta{}
	for u, m := range e.sy.Metas() {
		out[ulidID(u)] = m
	}
	return out, nil
}

// act performs one action; ok=false: disabled (state unchanged).
func (e *protoEnv) act(c *hlib.Ctx, tok string) (ok bool, err error) {
	f := strings.Split(tok, ":")
	switch {
	case tok == "s":
		m := e.newMeta(e.nextID)
		e.nextID++
		return true, e.uploadMeta(m)
	case f[0] == "c" && len(f) == 2:
		ids, good := parsePlus(f[1])
		if !good {
			return false, fmt.Errorf("bad action %s", tok)
		}
		view, err := e.compactorView()
		if err != nil {
			return false, err
		}
		seen := map[uint64]bool{}
		var bms []*tsdb.BlockMeta
		for _, id := range ids {
			m, in := view[id]
			if !in || seen[id] {
				return false, nil
			}
			seen[id] = true
			bm := m.BlockMeta
			bms = append(bms, &bm)
		}
		if len(bms) == 0 {
			return false, nil
		}
		nm := e.newMeta(e.nextID)
		nm.BlockMeta = *tsdb.CompactBlockMetas(idULID(e.nextID), bms...)
		nm.Version = 1
		nm.Thanos.Source = metadata.CompactorSource
		e.nextID++
		return true, e.uploadMeta(nm)
	case f[0] == "f" && len(f) == 2:
		// a compaction whose upload fails after the first data object: enabled like c:, leaves a partial block
		// (a chunk file, no meta.json) that every fetcher has to ignore, and uses up an id
		ids, good := parsePlus(f[1])
		if !good {
			return false, fmt.Errorf("bad action %s", tok)
		}
		view, err := e.compactorView()
		if err != nil {
			return false, err
		}
		seen := map[uint64]bool{}
		for _, id := range ids {
			if _, in := view[id]; !in || seen[id] {
				return false, nil
			}
			seen[id] = true
		}
		if len(ids) == 0 {
			return false, nil
		}
		dir := idULID(e.nextID).String()
		e.nextID++
		return true, e.bkt.Upload(e.ctx, path.Join(dir, "chunks", "000001"), bytes.NewReader([]byte("chunk")))
	case f[0] == "m" && len(f) == 3:
		b, err1 := strconv.ParseUint(f[1], 10, 64)
		r, err2 := strconv.ParseUint(f[2], 10, 64)
		if err1 != nil || err2 != nil {
			return false, fmt.Errorf("bad action %s", tok)
		}
		bs, err := e.bucketBlocks()
		if err != nil {
			return false, err
		}
		var bb, rr *bblock
		for i := range bs {
			if bs[i].id == b {
				bb = &bs[i]
			}
			if bs[i].id == r {
				rr = &bs[i]
			}
		}
		if bb == nil || rr == nil || rr.marked || bb.marked || !hasAll(srcIDs(rr.meta), srcIDs(bb.meta)) || rr.meta.Compaction.Level <= bb.meta.Compaction.Level {
			return false, nil
		}
		return true, block.MarkForDeletion(e.ctx, log.NewNopLogger(), e.bkt, idULID(b), "source of compacted block", e.cnt)
	case tok == "g":
		if err := e.sy.SyncMetas(e.ctx); err != nil {
			return false, err
		}
		return true, e.sy.GarbageCollect(e.ctx, nil)
	case tok == "x":
		if err := e.sy.SyncMetas(e.ctx); err != nil {
			return false, err
		}
		_, err := e.cleaner.DeleteMarkedBlocks(e.ctx)
		return true, err
	case f[0] == "y" && len(f) == 2:
		g, err1 := strconv.Atoi(f[1])
		if err1 != nil {
			return false, fmt.Errorf("bad action %s", tok)
		}
		if g < 0 || g >= len(e.gwFetch) {
			return false, nil
		}
		metas, _, err := e.gwFetch[g].Fetch(e.ctx)
		if err != nil {
			return false, err
		}
		var loaded []uint64
		for u := range metas {
			loaded = append(loaded, ulidID(u))
		}
		sort.Slice(loaded, func(i, j int) bool { return loaded[i] < loaded[j] })
		e.gwLoaded[g] = loaded
		e.gwSync[g] = e.now
		// what was in the bucket at this moment
		bs, err := e.bucketBlocks()
		if err != nil {
			return false, err
		}
		known := map[uint64]bool{}
		for _, b := range bs {
			for _, s := range srcIDs(b.meta) {
				known[s] = true
			}
		}
		e.gwKnown[g] = nil
		for s := range known {
			e.gwKnown[g] = append(e.gwKnown[g], s)
		}
		return true, nil
	case f[0] == "t" && len(f) == 2:
		d, err1 := strconv.ParseInt(f[1], 10, 64)
		if err1 != nil || d < 0 {
			return false, fmt.Errorf("bad action %s", tok)
		}
		for _, ls := range e.gwSync {
			if e.now+d > ls+e.lag {
				return false, nil
			}
		}
		e.now += d
		return true, e.shiftMarks(d)
	}
	return false, fmt.Errorf("bad action %s", tok)
}

func parsePlus(s string) ([]uint64, bool) {
	var out []uint64
	for _, t := range hlib.Split(s, "+") {
		v, err := strconv.ParseUint(t, 10, 64)
		if err != nil {
			return nil, false
		}
		out = append(out, v)
	}
	return out, true
}

// oracle: the property restated on the real bucket.
func (e *protoEnv) checkServed(c *hlib.Ctx, after string, step int) bool {
	bs, err := e.bucketBlocks()
	if err != nil {
		return false
	}
	byID := map[uint64]bblock{}
	for _, b := range bs {
		byID[b.id] = b
	}
	for g := range e.gwLoaded {
		served := map[uint64]bool{}
		for _, id := range e.gwLoaded[g] {
			b, in := byID[id]
			if !in || !b.allFile {
				continue // deleted (or being deleted): the gateway cannot read it any more
			}
			for _, s := range srcIDs(b.meta) {
				served[s] = true
			}
		}
		for _, x := range e.gwKnown[g] {
			if !served[x] {
				c.Violation("gateway-lost-sample", fmt.Sprintf("after action #%d (%s): gateway %d no longer serves sample %d (loaded %v)", step, after, g, x, e.gwLoaded[g]))
				return true
			}
		}
	}
	// every sample of the bucket has a block that is not marked for deletion
	live := map[uint64]bool{}
	all := map[uint64]bool{}
	for _, b := range bs {
		for _, s := range srcIDs(b.meta) {
			all[s] = true
			if !b.marked {
				live[s] = true
			}
		}
	}
	for s := range all {
		if !live[s] {
			class := "no-live-copy"
			if after == "g" {
				class = "gc-marks-last-live-copy"
			}
			c.Violation(class, fmt.Sprintf("after action #%d (%s): every block holding sample %d is marked for deletion", step, after, s))
			return true
		}
	}
	return false
}

func execC34(c *hlib.Ctx, tok []string) string {
	if len(tok) > 0 && (tok[0] == "o.c29.run" || tok[0] == "cp.valid") {
		// the real BucketCompactor under selective object store failures (harness of C29): what a store gateway serves
		// afterwards is this property's concern as well
		return execC29(c, tok)
	}
	if len(tok) > 0 && tok[0] == "o.sg.run" {
		return execSG(c, tok) // a real store.BucketStore gateway next to the real compactor, see c34sg.go
	}
	if len(tok) != 6 || tok[0] != "cp.run" {
		return "bad-op"
	}
	dd, e1 := strconv.ParseInt(tok[1], 10, 64)
	ig, e2 := strconv.ParseInt(tok[2], 10, 64)
	lag, e3 := strconv.ParseInt(tok[3], 10, 64)
	k, e4 := strconv.Atoi(tok[4])
	if e1 != nil || e2 != nil || e3 != nil || e4 != nil || k < 0 || k > 8 {
		return "bad-op"
	}
	env, err := newProtoEnv(dd, ig, lag, k)
	if err != nil {
		return "err:" + err.Error()
	}
	// the statement's hypothesis; traces outside it are still compared with the model but not judged
	inDomain := ig+lag < dd
	var outs []string
	lost := false
	for i, a := range hlib.Split(tok[5], ",") {
		before, _ := env.bucketBlocks()
		ok, err := env.act(c, a)
		if a == "g" || a == "x" {
			after, _ := env.bucketBlocks()
			mb, ma := 0, 0
			for _, b := range before {
				if b.marked {
					mb++
				}
			}
			for _, b := range after {
				if b.marked {
					ma++
				}
			}
			if a == "g" && ma > mb {
				c.Count("gc-marked-something")
			}
			if a == "x" && len(after) < len(before) {
				c.Count("cleaner-deleted-something")
			}
		}
		if err != nil {
			if strings.HasPrefix(err.Error(), "bad action") {
				return "bad-op"
			}
			return "err:" + err.Error()
		}
		d, err := env.digest()
		if err != nil {
			return "err:" + err.Error()
		}
		st := "no"
		if ok {
			st = "ok"
			c.Count("action-ok:" + a[:1])
		} else {
			c.Count("action-disabled:" + a[:1])
		}
		outs = append(outs, st+"/"+d)
		if inDomain && !lost {
			// report the first loss only (everything after it is a consequence)
			lost = env.checkServed(c, a, i+1)
		}
	}
	if !inDomain {
		c.Count("outside-hypothesis(ignoreDelay+lag>=deleteDelay)")
	}
	return hlib.Join(outs, ";")
}

// ---------------------------------------------------------------- generator

// a light simulation used only to steer the random walk towards enabled, interesting actions
type simBlk struct {
	id, level uint64
	src       []uint64
	mark      int64 // -1 = none
}

type simState struct {
	now    int64
	blocks []simBlk
	next   uint64
	gwSync []int64
}

func (s *simState) find(id uint64) *simBlk {
	for i := range s.blocks {
		if s.blocks[i].id == id {
			return &s.blocks[i]
		}
	}
	return nil
}

func (s *simState) unmarkedUncovered() []uint64 {
	var out []uint64
	for _, b := range s.blocks {
		if b.mark >= 0 {
			continue
		}
		covered := false
		for _, u := range s.blocks {
			if u.id != b.id && len(u.src) > len(b.src) && hasAll(u.src, b.src) {
				covered = true
			}
		}
		if !covered {
			out = append(out, b.id)
		}
	}
	return out
}

// realCompactorUnderFaults: a few runs of the real BucketCompactor (C29's harness) with selective object store failures.
func realCompactorUnderFaults(c *hlib.Ctx) {
	sc := c29Scenario{ranges: "1000,3000", name: "aligned",
		blocks: []c29Block{{0, 1000, 5, 0}, {1000, 2000, 3, 0}, {2000, 3000, 6, 0}, {3000, 4000, 1, 0}}}
	for _, f := range []string{"d:0", "d:2", "t:4"} {
		out := c.Do(sc.faultOp(105, f), true)
		c.Count("real-compactor-fault-run:" + f[:1])
		if _, ev := parseC29Answer(out); ev != "" && ev != "-" {
			c.Do(fmt.Sprintf("cp.valid %d %s", 105, ev), true)
		}
	}
}

// realGateway: a real store.BucketStore syncing (and being asked mid-sync) while the real compactor works.
func realGateway(c *hlib.Ctx) {
	sets := []string{
		"0:1000:5:0;1000:2000:3:0;2000:3000:6:0;3000:4000:1:0",
		"0:1000:7:0;1000:2000:7:0;2000:3000:1:0;3000:4000:2:0;4000:5000:4:0;5000:6000:3:0;6000:7000:1:0",
	}
	n := 1
	if c.Tier != "quick" {
		n = len(sets)
	}
	for _, bs := range sets[:n] {
		for _, mode := range []string{"plain", "failonce"} {
			c.Do(fmt.Sprintf("o.sg.run %d %s %s", 125+10*c.R.Intn(20), bs, mode), true)
			c.Count("real-gateway-run:" + mode)
		}
	}
}

func genC34(c *hlib.Ctx) {
	r := c.R
	realCompactorUnderFaults(c)
	realGateway(c)
	n := c.N(700, 6000)
	if c.Tier == "search" {
		n = 1500 // the search after a broken proof/tie: a bounded extra budget
	}
	for i := 0; i < n; i++ {
		// delays ≡ 5 (mod 10); the store's ignore delay is half the delete delay as the flags' help recommends
		dd := int64(10*r.Range(20, 400) + 5)
		var ig int64
		switch r.Intn(4) {
		case 0:
			ig = dd/2 - dd/2%10 + 5
		case 1:
			ig = int64(10*r.Range(0, int(dd/10)-2) + 5)
		case 2:
			ig = 5
		default:
			ig = dd/2 - dd/2%10 - 5
		}
		if ig < 5 {
			ig = 5
		}
		maxLag := dd - ig - 10
		if maxLag < 10 {
			maxLag = 10
		}
		lag := int64(10 * r.Range(1, int(maxLag/10)))
		if r.Chance(1, 12) {
			lag = dd + int64(10*r.Range(0, 20)) // outside the hypothesis: recorded, compared, not judged
		}
		k := r.Range(1, 3)
		sim := &simState{next: 1, gwSync: make([]int64, k)}
		var acts []string
		emit := func(a string) { acts = append(acts, a) }
		// start with some shipped blocks and synced gateways
		for j := r.Range(2, 5); j > 0; j-- {
			emit("s")
			sim.blocks = append(sim.blocks, simBlk{id: sim.next, level: 1, src: []uint64{sim.next}, mark: -1})
			sim.next++
		}
		for g := 0; g < k; g++ {
			emit(fmt.Sprintf("y:%d", g))
		}
		steps := r.Range(5, 40)
		for j := 0; j < steps; j++ {
			switch r.Intn(14) {
			case 0:
				emit("s")
				sim.blocks = append(sim.blocks, simBlk{id: sim.next, level: 1, src: []uint64{sim.next}, mark: -1})
				sim.next++
			case 1, 2, 3:
				cand := sim.unmarkedUncovered()
				if len(cand) == 0 {
					continue
				}
				cnt := r.Range(1, min(3, len(cand)))
				if r.Chance(3, 4) && len(cand) >= 2 {
					cnt = r.Range(2, min(4, len(cand)))
				}
				p := r.Perm(len(cand))[:cnt]
				var ids []uint64
				var src []uint64
				lvl := uint64(0)
				for _, q := range p {
					ids = append(ids, cand[q])
					b := sim.find(cand[q])
					src = append(src, b.src...)
					if b.level > lvl {
						lvl = b.level
					}
				}
				if cnt == 1 {
					c.Count("gen:single-block-compaction")
				}
				if r.Chance(1, 7) {
					// the upload of the result fails: nothing may be marked on its behalf
					emit("f:" + joinPlus(ids))
					c.Count("gen:failed-upload")
					res := sim.next
					sim.next++
					for _, id := range ids {
						if r.Chance(1, 2) {
							emit(fmt.Sprintf("m:%d:%d", id, res))
						}
					}
					continue
				}
				emit("c:" + joinPlus(ids))
				sim.blocks = append(sim.blocks, simBlk{id: sim.next, level: lvl + 1, src: uniq(src), mark: -1})
				res := sim.next
				sim.next++
				// usually mark (some of) the sources right away, as Group.compact does
				for _, id := range ids {
					if r.Chance(4, 5) {
						emit(fmt.Sprintf("m:%d:%d", id, res))
						sim.find(id).mark = sim.now
					}
				}
			case 4:
				// a mark that the protocol may or may not allow
				if len(sim.blocks) >= 2 {
					b := sim.blocks[r.Intn(len(sim.blocks))]
					rr := sim.blocks[r.Intn(len(sim.blocks))]
					emit(fmt.Sprintf("m:%d:%d", b.id, rr.id))
				}
			case 5, 6:
				emit("g")
			case 7:
				emit("x")
			case 8, 9:
				g := r.Intn(k)
				emit(fmt.Sprintf("y:%d", g))
				sim.gwSync[g] = sim.now
			default:
				// time passes: small steps, steps around the delays, or as much as the lag allows
				var d int64
				switch r.Intn(5) {
				case 0:
					d = 10
				case 1:
					d = dd/2 - dd/2%10 + int64(10*r.Range(-1, 1))
				case 2:
					d = ig - ig%10 + int64(10*r.Range(-1, 1))
				case 3:
					d = dd - dd%10 + int64(10*r.Range(0, 2))
				default:
					d = int64(10 * r.Range(1, int(dd/10)))
				}
				if d < 0 {
					d = 10
				}
				// respect the lag (mostly): a long interval is walked in steps of at most `lag`, the gateways that would
				// fall behind sync before each step
				remaining := d
				for iter := 0; iter < 8 && remaining > 0; iter++ {
					stepd := remaining
					maxStep := lag - lag%10
					if stepd > maxStep && r.Chance(19, 20) {
						stepd = maxStep
					}
					if stepd <= 0 {
						break
					}
					for g := 0; g < k; g++ {
						if sim.now+stepd > sim.gwSync[g]+lag && r.Chance(9, 10) {
							emit(fmt.Sprintf("y:%d", g))
							sim.gwSync[g] = sim.now
						}
					}
					emit(fmt.Sprintf("t:%d", stepd))
					okTick := true
					for g := 0; g < k; g++ {
						if sim.now+stepd > sim.gwSync[g]+lag {
							okTick = false
						}
					}
					if okTick {
						sim.now += stepd
					}
					remaining -= stepd
				}
				if r.Chance(1, 2) {
					emit("x")
				}
			}
		}
		c.Count(fmt.Sprintf("gateways:%d", k))
		c.Count(fmt.Sprintf("trace-len:%d0s", len(acts)/10))
		c.Do(fmt.Sprintf("cp.run %d %d %d %d %s", dd, ig, lag, k, strings.Join(acts, ",")), true)
	}
}

func uniq(xs []uint64) []uint64 {
	m := map[uint64]bool{}
	var out []uint64
	for _, x := range xs {
		if !m[x] {
			m[x] = true
			out = append(out, x)
		}
	}
	sort.Slice(out, func(i, j int) bool { return out[i] < out[j] })
	return out
}
