package main

import (
	"context"
	"errors"
	"fmt"
	"io"
	"os"
	"path/filepath"
	"strconv"
	"strings"
	"sync"
	"time"

	"github.com/go-kit/log"
	"github.com/oklog/ulid/v2"
	"github.com/prometheus/prometheus/tsdb/chunkenc"
	"github.com/thanos-io/objstore"

	"github.com/thanos-io/thanos/pkg/block"
	"github.com/thanos-io/thanos/pkg/block/metadata"
	"github.com/thanos-io/thanos/pkg/store"
	"github.com/thanos-io/thanos/pkg/store/storepb"
	"github.com/thanos-io/thanos/verifharness/hlib"
)

// C34 — a REAL store gateway (store.BucketStore) next to the real compactor.
//
//   o.sg.run <deleteDelay s> <blocks ;> <mode>
//       blocks as in o.c29.run (real tiny TSDB blocks, in-memory bucket); the store gateway is a real store.BucketStore
//       behind the real MetaFetcher[IgnoreDeletionMarkFilter(deleteDelay/2 - 10 s), DefaultDeduplicateFilter] (cmd/thanos/store.go).
//       The gateway syncs; then three real compactor iterations (compactMainFn, C29's runner) run, the deletion marks made
//       older between them (deleteDelay/2+10 s, deleteDelay+10 s) so that sources get hidden and then cleaned; after every
//       iteration the gateway syncs.  All original samples are asked of the gateway through BucketStore.Series
//         - after every sync,
//         - MID-SYNC: from BlockLifecycleCallback.PreAdd, i.e. at the moment the gateway starts loading a block it has
//           not loaded yet (all series, whole time range),
//         - mode `failonce`: the index of every compacted block cannot be read during the first sync that wants it (addBlock
//           fails building the index-header); the gateway is asked after that sync and after the next one.
//       -> per sync, `,`-joined:  <stage>=<loaded blocks>/<mid-sync queries>/<verdict>
//
// oracle classes:
//   gateway-lost-sample            an original sample is missing from a real Series answer after a sync
//   gateway-lost-sample-mid-sync   … from an answer given while a sync is in progress
//   (observation, not a violation) gateway-lost-sample-after-failed-load: … after a sync in which loading a new block
//                                  failed (mode failonce) — outside the property's quantifier, counted and noted only

type sgSeriesServer struct {
	storepb.Store_SeriesServer
	ctx    context.Context
	series []storepb.Series
}

func (s *sgSeriesServer) Context() context.Context { return s.ctx }
func (s *sgSeriesServer) Send(r *storepb.SeriesResponse) error {
	if r.GetSeries() != nil {
		s.series = append(s.series, *r.GetSeries())
	}
	if b := r.GetBatch(); b != nil {
		for _, se := range b.Series {
			s.series = append(s.series, *se)
		}
	}
	return nil
}

// sgServed asks the gateway for everything and returns the samples it answers with.
func sgServed(bs *store.BucketStore) (map[sampleKey]float64, error) {
	srv := &sgSeriesServer{ctx: context.Background()}
	err := bs.Series(&storepb.SeriesRequest{
		MinTime:  -1 << 40,
		MaxTime:  1 << 40,
		Matchers: []storepb.LabelMatcher{{Type: storepb.LabelMatcher_RE, Name: "a", Value: ".+"}},
	}, srv)
	if err != nil {
		return nil, err
	}
	out := map[sampleKey]float64{}
	for _, se := range srv.series {
		sid := 0
		for _, l := range se.Labels {
			if l.Name == "a" {
				sid, _ = strconv.Atoi(l.Value)
			}
		}
		for _, c := range se.Chunks {
			if c.Raw == nil {
				continue
			}
			chk, err := chunkenc.FromData(chunkenc.EncXOR, c.Raw.Data)
			if err != nil {
				return nil, err
			}
			it := chk.Iterator(nil)
			for it.Next() != chunkenc.ValNone {
				t, v := it.At()
				out[sampleKey{sid, t}] = v
			}
		}
	}
	return out, nil
}

// sgBucket is the gateway's view of the bucket.  In mode failonce the first sync that tries to read the index of a
// compacted block (to build its index-header) gets errors for that object; later syncs read it fine.
type sgBucket struct {
	objstore.Bucket
	mu       sync.Mutex
	failOnce bool
	initial  map[string]bool // block dirs present before the compactor ran
	failing  map[string]bool // blocks whose index reads fail during the current sync
	done     map[string]bool
	failed   int
}

func (b *sgBucket) hit(name string) bool {
	if !b.failOnce || !strings.HasSuffix(name, "/index") {
		return false
	}
	dir := strings.TrimSuffix(name, "/index")
	b.mu.Lock()
	defer b.mu.Unlock()
	if b.initial[dir] || b.done[dir] {
		return false
	}
	if !b.failing[dir] {
		b.failing[dir] = true
		b.failed++
	}
	return true
}

func (b *sgBucket) endSync() {
	b.mu.Lock()
	for d := range b.failing {
		b.done[d] = true
	}
	b.failing = map[string]bool{}
	b.mu.Unlock()
}

func (b *sgBucket) Get(ctx context.Context, name string) (io.ReadCloser, error) {
	if b.hit(name) {
		return nil, errors.New("verif: index cannot be read right now")
	}
	return b.Bucket.Get(ctx, name)
}

func (b *sgBucket) GetRange(ctx context.Context, name string, off, length int64) (io.ReadCloser, error) {
	if b.hit(name) {
		return nil, errors.New("verif: index cannot be read right now")
	}
	return b.Bucket.GetRange(ctx, name, off, length)
}

func (b *sgBucket) Attributes(ctx context.Context, name string) (objstore.ObjectAttributes, error) {
	if b.hit(name) {
		return objstore.ObjectAttributes{}, errors.New("verif: index cannot be read right now")
	}
	return b.Bucket.Attributes(ctx, name)
}

type sgCallback struct {
	mu    sync.Mutex
	known map[ulid.ULID]bool // blocks the gateway has been offered before
	onNew func(id ulid.ULID)
}

func (c *sgCallback) PreAdd(meta metadata.Meta) error {
	c.mu.Lock()
	first := !c.known[meta.ULID]
	c.known[meta.ULID] = true
	fn := c.onNew
	c.mu.Unlock()
	if first && fn != nil {
		fn(meta.ULID)
	}
	return nil
}

func execSG(c *hlib.Ctx, tok []string) string {
	if len(tok) != 4 || (tok[3] != "plain" && tok[3] != "failonce") {
		return "bad-op"
	}
	dd, err := strconv.ParseInt(tok[1], 10, 64)
	blocks, ok := parseC29Blocks(tok[2])
	if err != nil || !ok || dd < 60 {
		return "bad-op"
	}
	base := ""
	if st, err := os.Stat("/dev/shm"); err == nil && st.IsDir() {
		base = "/dev/shm"
	}
	dir, err := os.MkdirTemp(base, "verif-c29-sg-")
	if err != nil {
		return "err:" + err.Error()
	}
	defer os.RemoveAll(dir)
	e := &c29Env{ctx: context.Background(), raw: objstore.NewInMemBucket(), dir: dir, ranges: []int64{1000, 3000}, dd: dd,
		original: map[sampleKey]float64{}, rank: map[ulid.ULID]int{}, cache: map[ulid.ULID]map[sampleKey]float64{}, c: c}
	for _, b := range blocks {
		if _, err := e.createBlock(b); err != nil {
			return "err:" + err.Error()
		}
		time.Sleep(2 * time.Millisecond)
	}
	logger := log.NewNopLogger()
	gwBkt := &sgBucket{Bucket: e.raw, failOnce: tok[3] == "failonce", initial: map[string]bool{}, failing: map[string]bool{}, done: map[string]bool{}}
	_ = e.raw.Iter(e.ctx, "", func(n string) error { gwBkt.initial[strings.TrimSuffix(n, "/")] = true; return nil })
	ins := objstore.WithNoopInstr(gwBkt)
	ignore := time.Duration(dd/2-10) * time.Second
	fetcher, err := block.NewMetaFetcher(logger, 2, ins, block.NewConcurrentLister(logger, ins), "", nil, []block.MetadataFilter{
		block.NewIgnoreDeletionMarkFilter(logger, ins, ignore, 2),
		block.NewDeduplicateFilter(2),
	})
	if err != nil {
		return "err:" + err.Error()
	}
	cb := &sgCallback{known: map[ulid.ULID]bool{}}
	bs, err := store.NewBucketStore(ins, fetcher, filepath.Join(dir, "sg"),
		store.NewChunksLimiterFactory(0), store.NewSeriesLimiterFactory(0), store.NewBytesLimiterFactory(0),
		store.NewGapBasedPartitioner(store.PartitionerMaxGapSize), 2, store.DefaultPostingOffsetInMemorySampling,
		true, false, 0, store.WithBlockLifecycleCallback(cb))
	if err != nil {
		return "err:" + err.Error()
	}
	defer bs.Close()

	var outs []string
	lost := false
	check := func(stage, class string, got map[sampleKey]float64, qerr error) string {
		if qerr != nil {
			return "query-error"
		}
		for k, v := range e.original {
			if gv, ok := got[k]; !ok || gv != v {
				what := fmt.Sprintf("%s: the store gateway does not answer with original sample series %d t=%d (%d of %d samples answered)", stage, k.series, k.t, len(got), len(e.original))
				if class == "gateway-lost-sample-after-failed-load" {
					// a gateway that cannot load a block of its view is outside the property's quantifier (interleavings of
					// compactor steps and syncs): recorded as an observation, not claimed as a violation
					c.Count("observation:gateway-lost-sample-after-failed-load(outside-fault-model)")
					c.Note(what)
					return "lost-after-failed-load"
				}
				if !lost {
					c.Violation(class, what)
				}
				lost = true
				return "lost"
			}
		}
		return "ok"
	}
	sync1 := func(stage string) {
		mid := 0
		midVerdict := "ok"
		cb.mu.Lock()
		cb.onNew = func(id ulid.ULID) {
			got, qerr := sgServed(bs)
			mid++
			if v := check(stage+" (mid-sync, while block "+id.String()+" is about to be loaded)", "gateway-lost-sample-mid-sync", got, qerr); v != "ok" {
				midVerdict = v
			}
		}
		cb.mu.Unlock()
		gwBkt.mu.Lock()
		failedBefore := gwBkt.failed
		gwBkt.mu.Unlock()
		if stage == "s0" {
			cb.mu.Lock()
			cb.onNew = nil // the very first sync starts from an empty gateway: nothing was served before
			cb.mu.Unlock()
		}
		err := bs.SyncBlocks(e.ctx)
		cb.mu.Lock()
		cb.onNew = nil
		cb.mu.Unlock()
		gwBkt.mu.Lock()
		failedNow := gwBkt.failed > failedBefore
		gwBkt.mu.Unlock()
		gwBkt.endSync()
		got, qerr := sgServed(bs)
		class := "gateway-lost-sample"
		if failedNow {
			class = "gateway-lost-sample-after-failed-load"
			c.Count("sg:sync-with-failed-load")
		}
		verdict := check(stage+" (after the sync)", class, got, qerr)
		if err != nil {
			verdict += "+syncerr"
		}
		outs = append(outs, fmt.Sprintf("%s=%d/%d:%s/%s", stage, len(bsLoaded(got)), mid, midVerdict, verdict))
		c.Count(fmt.Sprintf("sg:mid-sync-queries:%d", mid))
	}
	sync1("s0")
	compactOnce := func(stage string) bool {
		cbk, err := e.runCompact(0, false)
		_ = cbk
		if err != nil {
			outs = append(outs, stage+"=compact-error")
			return false
		}
		return true
	}
	if !compactOnce("c1") {
		return strings.Join(outs, ",")
	}
	sync1("s1")
	if gwBkt.failOnce {
		sync1("s1b") // the next periodic sync
	}
	if err := e.shiftMarks(dd/2 + 10); err != nil {
		return "err:" + err.Error()
	}
	sync1("s2a") // the gateway may sync before the compactor's next iteration …
	if !compactOnce("c2") {
		return strings.Join(outs, ",")
	}
	sync1("s2")
	if err := e.shiftMarks(dd + 10); err != nil {
		return "err:" + err.Error()
	}
	if !compactOnce("c3") {
		return strings.Join(outs, ",")
	}
	sync1("s3")
	return strings.Join(outs, ",")
}

// bsLoaded is only used for a rough size figure in the answer (number of distinct series answered).
func bsLoaded(got map[sampleKey]float64) map[int]bool {
	m := map[int]bool{}
	for k := range got {
		m[k.series] = true
	}
	return m
}
