package main

import (
	"context"
	"encoding/json"
	"errors"
	"fmt"
	"io"
	"log/slog"
	"math"
	"os"
	"path"
	"path/filepath"
	"runtime/pprof"
	"sort"
	"strconv"
	"strings"
	"sync"
	"time"

	"github.com/go-kit/log"
	"github.com/oklog/ulid/v2"
	"github.com/prometheus/client_golang/prometheus"
	"github.com/prometheus/prometheus/model/histogram"
	"github.com/prometheus/prometheus/model/labels"
	"github.com/prometheus/prometheus/storage"
	"github.com/prometheus/prometheus/tsdb"
	"github.com/prometheus/prometheus/tsdb/chunkenc"
	"github.com/prometheus/prometheus/tsdb/chunks"
	"github.com/thanos-io/objstore"

	"github.com/thanos-io/thanos/pkg/block"
	"github.com/thanos-io/thanos/pkg/block/metadata"
	"github.com/thanos-io/thanos/pkg/compact"
	"github.com/thanos-io/thanos/verifharness/hlib"
)

// C29 — compaction never loses or invents data, even if it crashes.
//
// ops:
//   o.c29.run <ranges ,> <vertical 0|1> <deleteDelay s> <blocks ;> <crash1> <crash2> <cycles: 123 | 13> [<fault>]
//       fault = - | t:<k> | d:<n> | b:<bytes>:<n> | g:<e|h|n>:<k> | o:<e|h|n>:<j>:<n>   selective / transient object store failures, see bucketFault: the call fails,
//               every other call keeps working (unlike a crash); Compact() returning an error is then expected, losing data is not
//       block = min:max:seriesmask:tombstones      (series a="1","2","3" selected by the mask bits; samples at
//                                                   min, min+step, …, max-1 with value 10·t+series — identical in every block)
//       The REAL compact.BucketCompactor (planner with both filters, Syncer + GarbageCollect, BlocksCleaner, real
//       tsdb.LeveledCompactor) runs on an in-memory bucket holding these real TSDB blocks:
//         every cycle is one compactMainFn of cmd/thanos/compact.go: Compact(), SyncMetas(), cleanPartialMarked()
//         (BestEffortCleanAbortedPartialUploads); the source blocks' objects are 72 h old
//         cycle 1  Compact(); the bucket "crashes" after its <crash1>-th mutating operation (0 = never): every later
//                  bucket call fails; then a fresh compactor (restart) runs Compact() to the end, crashing once more
//                  after <crash2> further mutating operations if crash2 > 0 (and is restarted again);
//         cycle 2  deletion marks become deleteDelay/2+10 s older, Compact();
//         cycle 3  deletion marks become deleteDelay+10 s older, Compact() (the cleaner deletes the marked blocks);
//       after every crash, restart and cycle the oracle reads the samples a store gateway would serve: real
//       MetaFetcher[IgnoreDeletionMarkFilter(deleteDelay/2), DefaultDeduplicateFilter], block.Download, tsdb.OpenBlock.
//       -> n=<mutating ops of cycle 1 up to its end or crash> <status per stage> <events>
//          events (`,`-joined) = the bucket's meta-level history: s (source block), +id:level:parents:sources (meta.json
//          of a compacted block uploaded), m:id (deletion mark uploaded), -id (meta.json deleted), t:d (marks made d s older),
//          r (a read fault was injected)
//   cp.valid <deleteDelay> <events>      -> valid | invalid@k:<event>
//       the model side replays the events as transitions of Model/CompactProto.lean (compact / markSource|gc / clean /
//       tick); the implementation side answers `valid` — i.e. the claim "the real history is a history of the model" —
//       and checks the cover invariant on the events itself.
//
// oracle classes:
//   sample-lost        an original sample is not served (at a crash point, after a restart, or after a cycle)
//   (observation, not a violation) sample-lost-after-notfound-lie: the same after the store denied an existing meta.json
//                      (read fault mode n) — a fault outside the property's quantifier, counted and noted only
//   sample-invented    a served sample is not an original one
//   sample-twice       after a finished cycle a sample is served by more than one block
//   no-termination     Compact() exceeded its budget of bucket operations (e.g. re-planning the same block for ever)
//   compact-error      Compact() failed without a crash (halt / retry error)  [only counted when overlaps are allowed]
//   mark-without-live-cover   a block was marked for deletion while no unmarked block held all its sources
//   delete-unmarked-block     the meta.json of a complete block without deletion mark is deleted (e.g. by the partial-upload cleaner)
//   marked-left-behind after cycle 3 a block marked for deletion is still in the bucket

func init() {
	props = append(props, &hlib.Prop{ID: "C29", Gen: genC29, Exec: execC29})
}

var errCrashed = errors.New("verif: bucket crashed")
var errBudget = errors.New("verif: bucket operation budget exceeded")
var errInjected = errors.New("verif: injected object store failure")

// bucketFault is a selective / transient failure of the object store (everything else keeps working):
//
//	t:<k>          the k-th mutating call (upload or delete) of the cycle fails once
//	d:<n>          uploads of block data (every object that is not a *.json: chunks/…, index) fail, the first n of them (0 = all, for good)
//	b:<bytes>:<n>  uploads of objects larger than <bytes> fail, the first n of them (0 = all, for good)
//	g:<mode>:<k>   READ fault: the k-th Get of a *.json object (meta.json, deletion / no-compact marks) of a compactor
//	               process fails; mode e = the call returns an error, h = the call succeeds and the body breaks after half
//	               of the object (connection reset), n = the store answers "not found" although the object exists
//	o:<mode>:<j>:<n>  READ fault on one object: the first n Gets of the meta.json of the j-th source block fail that way
type bucketFault struct {
	kind   string
	k      int
	n      int
	bytes  int64
	failed int
	fired  bool
	mode   string
	target string // object name for o:
	reads  int    // json Gets seen by the current process (g:)
}

func (f *bucketFault) isRead() bool { return f != nil && (f.kind == "g" || f.kind == "o") }

func parseFault(s string) (*bucketFault, bool) {
	if s == "-" {
		return nil, true
	}
	f := strings.Split(s, ":")
	switch {
	case f[0] == "t" && len(f) == 2:
		k, err := strconv.Atoi(f[1])
		return &bucketFault{kind: "t", k: k}, err == nil && k > 0
	case f[0] == "d" && len(f) == 2:
		n, err := strconv.Atoi(f[1])
		return &bucketFault{kind: "d", n: n}, err == nil && n >= 0
	case f[0] == "g" && len(f) == 3 && (f[1] == "e" || f[1] == "h" || f[1] == "n"):
		k, err := strconv.Atoi(f[2])
		return &bucketFault{kind: "g", mode: f[1], k: k}, err == nil && k > 0
	case f[0] == "o" && len(f) == 4 && (f[1] == "e" || f[1] == "h" || f[1] == "n"):
		j, err1 := strconv.Atoi(f[2])
		n, err2 := strconv.Atoi(f[3])
		return &bucketFault{kind: "o", mode: f[1], k: j, n: n}, err1 == nil && err2 == nil && j > 0 && n > 0
	case f[0] == "b" && len(f) == 3:
		by, err1 := strconv.ParseInt(f[1], 10, 64)
		n, err2 := strconv.Atoi(f[2])
		return &bucketFault{kind: "b", bytes: by, n: n}, err1 == nil && err2 == nil && n >= 0
	}
	return nil, false
}

// crashBucket wraps the raw bucket: after crashAt mutating operations every call fails.
type crashBucket struct {
	objstore.Bucket
	mu       sync.Mutex
	mutOps   int
	crashAt  int
	budget   int
	crashed  bool
	overrun  bool
	onMut    func(kind, name string)
	onFault  func()
	fault    *bucketFault // shared across restarts: an outage does not end because the compactor restarted
	attempts int          // mutating calls attempted (failed ones included)
	maxTries int          // bound on the injected failures one scenario may run into
}

// inject decides whether this mutating call fails because of the selective fault.
func (b *crashBucket) inject(kind, name string, r io.Reader) bool {
	b.mu.Lock()
	defer b.mu.Unlock()
	b.attempts++
	f := b.fault
	if f == nil {
		return false
	}
	hit := false
	switch f.kind {
	case "t":
		if !f.fired && b.mutOps+1 == f.k {
			f.fired, hit = true, true
		}
	case "d":
		hit = kind == "U" && !strings.HasSuffix(name, ".json") && (f.n == 0 || f.failed < f.n)
	case "b":
		if kind == "U" && (f.n == 0 || f.failed < f.n) {
			if sz, err := objstore.TryToGetSize(r); err == nil && sz > f.bytes {
				hit = true
			}
		}
	}
	if hit {
		f.failed++
		if b.maxTries > 0 && f.failed > b.maxTries {
			b.overrun = true // a compactor that keeps running into the same outage without ever giving up
		}
	}
	return hit
}

func (b *crashBucket) gate() error {
	b.mu.Lock()
	defer b.mu.Unlock()
	if b.crashed {
		return errCrashed
	}
	if b.overrun {
		return errBudget
	}
	return nil
}

func (b *crashBucket) done(kind, name string) {
	b.mu.Lock()
	b.mutOps++
	if b.crashAt > 0 && b.mutOps >= b.crashAt {
		b.crashed = true
	}
	if b.mutOps > b.budget {
		b.overrun = true
	}
	f := b.onMut
	b.mu.Unlock()
	if f != nil {
		f(kind, name)
	}
}

func (b *crashBucket) Upload(ctx context.Context, name string, r io.Reader, o ...objstore.ObjectUploadOption) error {
	if err := b.gate(); err != nil {
		return err
	}
	if b.inject("U", name, r) {
		return errInjected
	}
	if err := b.Bucket.Upload(ctx, name, r, o...); err != nil {
		return err
	}
	b.done("U", name)
	return nil
}

func (b *crashBucket) Delete(ctx context.Context, name string) error {
	if err := b.gate(); err != nil {
		return err
	}
	if b.inject("D", name, nil) {
		return errInjected
	}
	if err := b.Bucket.Delete(ctx, name); err != nil {
		return err
	}
	b.done("D", name)
	return nil
}

func (b *crashBucket) Iter(ctx context.Context, dir string, f func(string) error, o ...objstore.IterOption) error {
	if err := b.gate(); err != nil {
		return err
	}
	return b.Bucket.Iter(ctx, dir, f, o...)
}

func (b *crashBucket) IterWithAttributes(ctx context.Context, dir string, f func(objstore.IterObjectAttributes) error, o ...objstore.IterOption) error {
	if err := b.gate(); err != nil {
		return err
	}
	return b.Bucket.IterWithAttributes(ctx, dir, f, o...)
}

func (b *crashBucket) Get(ctx context.Context, name string) (io.ReadCloser, error) {
	if err := b.gate(); err != nil {
		return nil, err
	}
	if mode := b.readFault(name); mode != "" {
		switch mode {
		case "e":
			return nil, errInjected
		case "n":
			return b.Bucket.Get(ctx, name+".verif-no-such-object") // the bucket's own not-found error
		case "h":
			rc, err := b.Bucket.Get(ctx, name)
			if err != nil {
				return nil, err
			}
			data, err := io.ReadAll(rc)
			rc.Close()
			if err != nil {
				return nil, err
			}
			return &brokenBody{data: data[:len(data)/2]}, nil
		}
	}
	return b.Bucket.Get(ctx, name)
}

// brokenBody delivers the first part of an object and then a transport error.
type brokenBody struct {
	data []byte
	off  int
}

func (r *brokenBody) Read(p []byte) (int, error) {
	if r.off >= len(r.data) {
		return 0, errors.New("verif: read tcp: connection reset by peer")
	}
	n := copy(p, r.data[r.off:])
	r.off += n
	return n, nil
}

func (r *brokenBody) Close() error { return nil }

// readFault decides whether this Get is hit by the read fault; returns the mode or "".
func (b *crashBucket) readFault(name string) string {
	b.mu.Lock()
	f := b.fault
	if !f.isRead() || !strings.HasSuffix(name, ".json") {
		b.mu.Unlock()
		return ""
	}
	hit := false
	switch f.kind {
	case "g":
		f.reads++
		if !f.fired && f.reads == f.k {
			f.fired, hit = true, true
			f.target = name
		}
	case "o":
		if name == f.target && f.failed < f.n {
			hit = true
		}
	}
	if hit {
		f.failed++
	}
	cb := b.onFault
	b.mu.Unlock()
	if hit {
		if cb != nil {
			cb()
		}
		return f.mode
	}
	return ""
}

func (b *crashBucket) GetRange(ctx context.Context, name string, off, length int64) (io.ReadCloser, error) {
	if err := b.gate(); err != nil {
		return nil, err
	}
	return b.Bucket.GetRange(ctx, name, off, length)
}

func (b *crashBucket) Exists(ctx context.Context, name string) (bool, error) {
	if err := b.gate(); err != nil {
		return false, err
	}
	return b.Bucket.Exists(ctx, name)
}

func (b *crashBucket) Attributes(ctx context.Context, name string) (objstore.ObjectAttributes, error) {
	if err := b.gate(); err != nil {
		return objstore.ObjectAttributes{}, err
	}
	return b.Bucket.Attributes(ctx, name)
}

// ---------------------------------------------------------------- scenario

type c29Block struct {
	min, max int64
	mask     int
	tomb     uint64
}

type sampleKey struct {
	series int
	t      int64
}

type c29Env struct {
	ctx      context.Context
	raw      *objstore.InMemBucket
	dir      string
	ranges   []int64
	vertical bool
	dd       int64
	original map[sampleKey]float64
	rank     map[ulid.ULID]int // ULID -> small id in order of appearance
	maxULID  ulid.ULID
	events   []string
	anomaly  bool
	cache    map[ulid.ULID]map[sampleKey]float64
	c        *hlib.Ctx
	specSeen map[string]int
	fault    *bucketFault
}

func discardLogger() *slog.Logger { return slog.New(slog.NewTextHandler(io.Discard, nil)) }

type listSample struct {
	t int64
	v float64
}

func (s listSample) T() int64                      { return s.t }
func (s listSample) F() float64                    { return s.v }
func (s listSample) H() *histogram.Histogram       { return nil }
func (s listSample) FH() *histogram.FloatHistogram { return nil }
func (s listSample) Type() chunkenc.ValueType      { return chunkenc.ValFloat }
func (s listSample) Copy() chunks.Sample           { return s }

func sampleValue(series int, t int64) float64 { return float64(10*t + int64(series)) }

// preparedBlocks caches the on-disk blocks of a scenario across its runs (crash-free run + one run per crash point):
// writing a TSDB block costs far more than everything else a run does.  Set up and torn down by genC29.
var preparedBlocks struct {
	dir string
	m   map[string]ulid.ULID
}

func (e *c29Env) createBlock(b c29Block) (ulid.ULID, error) {
	if e.specSeen == nil {
		e.specSeen = map[string]int{}
	}
	key := fmt.Sprintf("%d:%d:%d:%d", b.min, b.max, b.mask, b.tomb)
	e.specSeen[key]++
	key = fmt.Sprintf("%s#%d", key, e.specSeen[key]) // the same spec twice in a scenario = two different blocks
	if preparedBlocks.dir != "" {
		if id, ok := preparedBlocks.m[key]; ok {
			e.noteSamples(b)
			return id, block.Upload(e.ctx, log.NewNopLogger(), e.raw, filepath.Join(preparedBlocks.dir, id.String()), metadata.NoneFunc)
		}
	}
	id, p, err := e.writeBlock(b)
	if err != nil {
		return id, err
	}
	if err := block.Upload(e.ctx, log.NewNopLogger(), e.raw, p, metadata.NoneFunc); err != nil {
		return id, err
	}
	if preparedBlocks.dir != "" {
		dst := filepath.Join(preparedBlocks.dir, id.String())
		if err := os.Rename(p, dst); err == nil {
			preparedBlocks.m[key] = id
			return id, nil
		}
	}
	return id, os.RemoveAll(p)
}

// noteSamples records the samples a block of this spec holds (same enumeration as writeBlock).
func (e *c29Env) noteSamples(b c29Block) {
	for s := 1; s <= 3; s++ {
		if b.mask&(1<<(s-1)) == 0 {
			continue
		}
		for _, t := range blockTimes(b) {
			e.original[sampleKey{s, t}] = sampleValue(s, t)
		}
	}
}

func blockTimes(b c29Block) []int64 {
	n := int64(5)
	step := (b.max - b.min) / n
	if step < 1 {
		step = 1
	}
	seen := map[int64]bool{}
	var ts []int64
	for t := b.min; t < b.max; t += step {
		if !seen[t] {
			seen[t] = true
			ts = append(ts, t)
		}
	}
	if !seen[b.max-1] {
		ts = append(ts, b.max-1)
	}
	sort.Slice(ts, func(i, j int) bool { return ts[i] < ts[j] })
	return ts
}

// writeBlock writes one real TSDB block to local disk.
func (e *c29Env) writeBlock(b c29Block) (ulid.ULID, string, error) {
	var series []storage.Series
	for s := 1; s <= 3; s++ {
		if b.mask&(1<<(s-1)) == 0 {
			continue
		}
		var smp []chunks.Sample
		for _, t := range blockTimes(b) {
			smp = append(smp, listSample{t: t, v: sampleValue(s, t)})
		}
		series = append(series, storage.NewListSeries(labels.FromStrings("a", strconv.Itoa(s)), smp))
	}
	e.noteSamples(b)
	bdir := filepath.Join(e.dir, "prepare")
	if err := os.MkdirAll(bdir, 0o750); err != nil {
		return ulid.ULID{}, "", err
	}
	p, err := tsdb.CreateBlock(series, bdir, b.max-b.min+1, discardLogger())
	if err != nil {
		return ulid.ULID{}, "", err
	}
	id, err := ulid.Parse(filepath.Base(p))
	if err != nil {
		return ulid.ULID{}, "", err
	}
	if _, err := metadata.InjectThanos(log.NewNopLogger(), p, metadata.Thanos{
		Labels:     map[string]string{"ext": "1"},
		Downsample: metadata.ThanosDownsample{Resolution: 0},
		Source:     metadata.SidecarSource,
	}, nil); err != nil {
		return id, p, err
	}
	m, err := metadata.ReadFromDir(p)
	if err != nil {
		return id, p, err
	}
	if m.MinTime != b.min || m.MaxTime != b.max {
		return id, p, fmt.Errorf("block range [%d,%d) instead of [%d,%d)", m.MinTime, m.MaxTime, b.min, b.max)
	}
	if b.tomb > 0 {
		m.Stats.NumTombstones = b.tomb
		if err := m.WriteToDir(log.NewNopLogger(), p); err != nil {
			return id, p, err
		}
	}
	return id, p, nil
}

// onMut turns bucket operations into meta-level events.
func (e *c29Env) onMut(kind, name string) {
	parts := strings.Split(name, "/")
	if len(parts) != 2 {
		return
	}
	id, err := ulid.Parse(parts[0])
	if err != nil {
		return
	}
	switch {
	case kind == "U" && parts[1] == metadata.MetaFilename:
		rc, err := e.raw.Get(e.ctx, name)
		if err != nil {
			return
		}
		var m metadata.Meta
		err = json.NewDecoder(rc).Decode(&m)
		rc.Close()
		if err != nil {
			return
		}
		if _, known := e.rank[id]; known {
			return // meta.json rewritten
		}
		if id.Compare(e.maxULID) < 0 {
			e.anomaly = true // creation order and ULID order differ: the model's ids would not match
		}
		e.maxULID = id
		e.rank[id] = len(e.rank) + 1
		var par, src []uint64
		for _, p := range m.Compaction.Parents {
			par = append(par, uint64(e.rank[p.ULID]))
		}
		for _, s := range m.Compaction.Sources {
			src = append(src, uint64(e.rank[s]))
		}
		e.events = append(e.events, fmt.Sprintf("+%d:%d:%s:%s", e.rank[id], m.Compaction.Level, joinPlusKeep(par), joinPlus(src)))
	case kind == "U" && parts[1] == metadata.DeletionMarkFilename:
		e.events = append(e.events, fmt.Sprintf("m:%d", e.rank[id]))
	case kind == "D" && parts[1] == metadata.MetaFilename:
		e.events = append(e.events, fmt.Sprintf("-%d", e.rank[id]))
	}
}

func joinPlusKeep(ids []uint64) string {
	ss := make([]string, len(ids))
	for i, v := range ids {
		ss[i] = strconv.FormatUint(v, 10)
	}
	return hlib.Join(ss, "+")
}

// newCompactor wires a compactor the way cmd/thanos/compact.go does (the filters relevant here).
// compactorProc is one compactor process (everything in memory is new after a restart).
type compactorProc struct {
	bc  *compact.BucketCompactor
	sy  *compact.Syncer
	ign *block.IgnoreDeletionMarkFilter
	bkt objstore.Bucket
	cnt prometheus.Counter
}

// cleanPartialMarked mirrors the closure of that name in cmd/thanos/compact.go.
func (p *compactorProc) cleanPartialMarked(ctx context.Context) {
	compact.BestEffortCleanAbortedPartialUploads(ctx, log.NewNopLogger(), p.sy.Partial(), p.bkt, p.cnt, p.cnt, p.cnt, p.ign.DeletionMarkBlocks())
}

// mainFn mirrors compactMainFn of cmd/thanos/compact.go with downsampling disabled and no retention:
// compactor.Compact, sy.SyncMetas ("sync before retention"), cleanPartialMarked.
func (p *compactorProc) mainFn(ctx context.Context) error {
	if err := p.bc.Compact(ctx); err != nil {
		return err
	}
	if err := p.sy.SyncMetas(ctx); err != nil {
		return err
	}
	p.cleanPartialMarked(ctx)
	return nil
}

func (e *c29Env) newCompactor(bkt objstore.Bucket) (*compactorProc, error) {
	logger := log.NewNopLogger()
	ins := objstore.WithNoopInstr(bkt)
	deleteDelay := time.Duration(e.dd) * time.Second
	ign := block.NewIgnoreDeletionMarkFilter(logger, ins, deleteDelay/2, 2)
	dup := block.NewDeduplicateFilter(2)
	noc := compact.NewGatherNoCompactionMarkFilter(logger, ins, 2)
	mf, err := block.NewMetaFetcher(logger, 2, ins, block.NewConcurrentLister(logger, ins), "", nil, []block.MetadataFilter{ign, dup, noc})
	if err != nil {
		return nil, err
	}
	cnt := prometheus.NewCounter(prometheus.CounterOpts{Name: "verif_c29"})
	sy, err := compact.NewMetaSyncer(logger, nil, bkt, mf, dup, ign, cnt, cnt, 0)
	if err != nil {
		return nil, err
	}
	comp, err := tsdb.NewLeveledCompactor(e.ctx, nil, discardLogger(), e.ranges, nil, nil)
	if err != nil {
		return nil, err
	}
	var planner compact.Planner
	size := compact.WithLargeTotalIndexSizeFilter(compact.NewPlanner(logger, e.ranges, noc), bkt, 64<<30, cnt)
	planner = size
	if e.vertical {
		planner = compact.WithVerticalCompactionDownsampleFilter(size, bkt, cnt)
	}
	grouper := compact.NewDefaultGrouper(logger, bkt, false, e.vertical, prometheus.NewRegistry(), cnt, cnt, cnt, metadata.NoneFunc, 1, 1)
	cleaner := compact.NewBlocksCleaner(logger, bkt, ign, deleteDelay, cnt, cnt)
	bc, err := compact.NewBucketCompactor(logger, sy, grouper, planner, comp, filepath.Join(e.dir, "compact"), bkt, 1, false, cleaner)
	if err != nil {
		return nil, err
	}
	return &compactorProc{bc: bc, sy: sy, ign: ign, bkt: bkt, cnt: cnt}, nil
}

// runCompact runs one iteration (compactMainFn) of a fresh compactor process behind the fault wrapper; returns the wrapper
// and the error.  tickFirst: before the main function, the process' two background goroutines get their turn once — the
// progress calculation syncs the metas and the cleanup tick runs cleanPartialMarked (cmd/thanos/compact.go starts all three
// at the same time).
func (e *c29Env) runCompact(crashAt int, tickFirst bool) (*crashBucket, error) {
	cb := &crashBucket{Bucket: e.raw, crashAt: crashAt, budget: 80, onMut: e.onMut, fault: e.fault}
	cb.onFault = func() { e.events = append(e.events, "r") }
	if e.fault != nil {
		e.fault.reads = 0
	}
	timeout := 60 * time.Second
	if e.fault != nil {
		cb.maxTries, timeout = 12, 30*time.Second // a compactor that keeps retrying against an outage is cut short
	}
	proc, err := e.newCompactor(cb)
	if err != nil {
		return cb, err
	}
	ctx, cancel := context.WithTimeout(e.ctx, timeout)
	defer cancel()
	if tickFirst {
		_ = proc.sy.SyncMetas(ctx) // a failed sync is only logged by the progress goroutine
		proc.cleanPartialMarked(ctx)
	}
	return cb, proc.mainFn(ctx)
}

func (e *c29Env) shiftMarks(d int64) error {
	var names []string
	if err := e.raw.Iter(e.ctx, "", func(n string) error { names = append(names, n); return nil }); err != nil {
		return err
	}
	for _, n := range names {
		p := path.Join(strings.TrimSuffix(n, "/"), metadata.DeletionMarkFilename)
		rc, err := e.raw.Get(e.ctx, p)
		if err != nil {
			continue
		}
		var dm metadata.DeletionMark
		err = json.NewDecoder(rc).Decode(&dm)
		rc.Close()
		if err != nil {
			return err
		}
		dm.DeletionTime -= d
		raw, _ := json.Marshal(dm)
		if err := e.raw.Upload(e.ctx, p, strings.NewReader(string(raw))); err != nil {
			return err
		}
	}
	e.events = append(e.events, fmt.Sprintf("t:%d", d))
	return nil
}

// readBlock returns the samples of a block of the raw bucket (real download + tsdb.OpenBlock).
func (e *c29Env) readBlock(id ulid.ULID) (map[sampleKey]float64, error) {
	if s, ok := e.cache[id]; ok {
		return s, nil
	}
	dst := filepath.Join(e.dir, "read", id.String())
	defer os.RemoveAll(dst)
	if err := block.Download(e.ctx, log.NewNopLogger(), e.raw, id, dst); err != nil {
		return nil, err
	}
	b, err := tsdb.OpenBlock(discardLogger(), dst, nil, nil)
	if err != nil {
		return nil, err
	}
	defer b.Close()
	q, err := tsdb.NewBlockQuerier(b, math.MinInt64, math.MaxInt64)
	if err != nil {
		return nil, err
	}
	defer q.Close()
	out := map[sampleKey]float64{}
	ss := q.Select(e.ctx, true, nil, labels.MustNewMatcher(labels.MatchRegexp, "a", ".*"))
	var it chunkenc.Iterator
	for ss.Next() {
		s := ss.At()
		sid, _ := strconv.Atoi(s.Labels().Get("a"))
		it = s.Iterator(it)
		for it.Next() != chunkenc.ValNone {
			t, v := it.At()
			if _, dup := out[sampleKey{sid, t}]; dup {
				out[sampleKey{sid, -t - 1000000}] = v // a timestamp twice inside one block: keep it visible as an invented sample
			}
			out[sampleKey{sid, t}] = v
		}
		if it.Err() != nil {
			return nil, it.Err()
		}
	}
	if ss.Err() != nil {
		return nil, ss.Err()
	}
	e.cache[id] = out
	return out, nil
}

// checkServed: what a store gateway would serve now (fresh fetcher, real filter chain), against the original samples.
func (e *c29Env) checkServed(stage string, finished bool) string {
	logger := log.NewNopLogger()
	ins := objstore.WithNoopInstr(e.raw)
	ign := block.NewIgnoreDeletionMarkFilter(logger, ins, time.Duration(e.dd/2)*time.Second, 2)
	f, err := block.NewMetaFetcher(logger, 2, ins, block.NewConcurrentLister(logger, ins), "", nil,
		[]block.MetadataFilter{ign, block.NewDeduplicateFilter(2)})
	if err != nil {
		return "err"
	}
	metas, _, err := f.Fetch(e.ctx)
	if err != nil {
		return "err"
	}
	count := map[sampleKey]int{}
	for id := range metas {
		smp, err := e.readBlock(id)
		if err != nil {
			e.c.Violation("sample-lost", fmt.Sprintf("%s: served block %s cannot be read: %v", stage, id, err))
			return "unreadable"
		}
		for k, v := range smp {
			if ov, ok := e.original[k]; !ok || ov != v {
				e.c.Violation("sample-invented", fmt.Sprintf("%s: block %s serves series %d t=%d v=%v which is not an original sample", stage, id, k.series, k.t, v))
				return "invented"
			}
			count[k]++
		}
	}
	for k := range e.original {
		if count[k] == 0 {
			if e.fault != nil && e.fault.isRead() && e.fault.mode == "n" && e.fault.failed > 0 && strings.HasSuffix(e.faultTarget(), metadata.MetaFilename) {
				// a fault outside the property's quantifier (the object store is trusted not to deny objects that exist):
				// recorded as an observation, not claimed as a violation
				e.c.Count("observation:sample-lost-after-notfound-lie(outside-fault-model)")
				e.c.Note(fmt.Sprintf("%s: the object store answered \"not found\" for the existing %s of a 72 h old block; the block was taken for an aborted upload and deleted; sample series %d t=%d is served by no block", stage, e.faultTarget(), k.series, k.t))
				return "lost-after-lie"
			}
			e.c.Violation("sample-lost", fmt.Sprintf("%s: original sample series %d t=%d is served by no block (%d blocks visible)", stage, k.series, k.t, len(metas)))
			return "lost"
		}
	}
	if finished {
		for k, n := range count {
			if n > 1 {
				e.c.Violation("sample-twice", fmt.Sprintf("%s: sample series %d t=%d is served by %d blocks", stage, k.series, k.t, n))
				return "twice"
			}
		}
	}
	return "ok"
}

// faultTarget: the object the read fault hit (for g: faults the name is recorded when the fault fires).
func (e *c29Env) faultTarget() string {
	if e.fault == nil {
		return ""
	}
	return e.fault.target
}

func parseC29Blocks(s string) ([]c29Block, bool) {
	var out []c29Block
	for _, t := range hlib.Split(s, ";") {
		f := strings.Split(t, ":")
		if len(f) != 4 {
			return nil, false
		}
		mn, e1 := strconv.ParseInt(f[0], 10, 64)
		mx, e2 := strconv.ParseInt(f[1], 10, 64)
		mask, e3 := strconv.Atoi(f[2])
		tomb, e4 := strconv.ParseUint(f[3], 10, 64)
		if e1 != nil || e2 != nil || e3 != nil || e4 != nil || mx <= mn || mask <= 0 || mask > 7 {
			return nil, false
		}
		out = append(out, c29Block{mn, mx, mask, tomb})
	}
	return out, len(out) > 0
}

func execC29(c *hlib.Ctx, tok []string) string {
	if os.Getenv("VERIF_PROF") != "" {
		t0 := time.Now()
		defer func() { fmt.Fprintln(os.Stderr, "op took", time.Since(t0)) }()
	}
	if len(tok) == 0 {
		return "bad-op"
	}
	switch tok[0] {
	case "cp.valid":
		if len(tok) != 3 {
			return "bad-op"
		}
		checkEventsCover(c, hlib.Split(tok[2], ","))
		return "valid"
	case "o.c29.run":
		if (len(tok) != 8 && len(tok) != 9) || (tok[7] != "123" && tok[7] != "13") {
			return "bad-op"
		}
		var fault *bucketFault
		if len(tok) == 9 {
			var okf bool
			if fault, okf = parseFault(tok[8]); !okf {
				return "bad-op"
			}
		}
		ranges, ok1 := parseI64s(tok[1])
		dd, e2 := strconv.ParseInt(tok[3], 10, 64)
		blocks, ok4 := parseC29Blocks(tok[4])
		crash1, e5 := strconv.Atoi(tok[5])
		crash2, e6 := strconv.Atoi(tok[6])
		if !ok1 || e2 != nil || !ok4 || e5 != nil || e6 != nil || (tok[2] != "0" && tok[2] != "1") || dd < 20 {
			return "bad-op"
		}
		return runC29(c, ranges, tok[2] == "1", dd, blocks, crash1, crash2, tok[7] == "123", fault)
	}
	return "bad-op"
}

func runC29(c *hlib.Ctx, ranges []int64, vertical bool, dd int64, blocks []c29Block, crash1, crash2 int, cycle2 bool, fault *bucketFault) string {
	base := ""
	if st, err := os.Stat("/dev/shm"); err == nil && st.IsDir() {
		base = "/dev/shm" // memory-backed scratch: TSDB fsyncs every file it writes
	}
	dir, err := os.MkdirTemp(base, "verif-c29-")
	if err != nil {
		return "err:" + err.Error()
	}
	defer os.RemoveAll(dir)
	e := &c29Env{ctx: context.Background(), raw: objstore.NewInMemBucket(), dir: dir, ranges: ranges, vertical: vertical, dd: dd,
		original: map[sampleKey]float64{}, rank: map[ulid.ULID]int{}, cache: map[ulid.ULID]map[sampleKey]float64{}, c: c, fault: fault}
	var ids []ulid.ULID
	for _, b := range blocks {
		id, err := e.createBlock(b)
		if err != nil {
			return "err:" + err.Error()
		}
		ids = append(ids, id)
		time.Sleep(2 * time.Millisecond) // distinct ULID timestamps: creation order = ULID order
	}
	sort.Slice(ids, func(i, j int) bool { return ids[i].Compare(ids[j]) < 0 })
	for _, id := range ids {
		e.rank[id] = len(e.rank) + 1
		e.maxULID = id
		e.events = append(e.events, "s")
	}
	// the source blocks have been in the bucket for three days: older than the 48 h threshold of the partial-upload cleaner
	for name := range e.raw.Objects() {
		if err := e.raw.ChangeLastModified(name, time.Now().Add(-72*time.Hour)); err != nil {
			return "err:" + err.Error()
		}
	}
	if fault != nil && fault.kind == "o" {
		if fault.k > len(ids) {
			return "bad-op"
		}
		fault.target = path.Join(ids[fault.k-1].String(), metadata.MetaFilename)
	}
	time.Sleep(2 * time.Millisecond)
	var status []string
	overlapsRefused := false
	stage := func(name string, crashAt int, finishedIfOK bool) (n int, crashed bool, stop bool) {
		cb, err := e.runCompact(crashAt, fault.isRead() && name == "c1")
		n = cb.mutOps
		switch {
		case cb.overrun:
			c.Violation("no-termination", fmt.Sprintf("%s: Compact() performed more than %d mutating bucket operations (or ran into the injected fault more than %d times)", name, cb.budget, cb.maxTries))
			status = append(status, name+"=overrun")
			return n, false, fault == nil
		case cb.crashed:
			status = append(status, name+"=crashed/"+e.checkServed(name+" (crashed)", false))
			return n, true, false
		case err != nil:
			if compact.IsHaltError(err) && strings.Contains(err.Error(), "overlap") && !vertical {
				// overlapping blocks without vertical compaction: the compactor refuses to work; nothing may be lost
				overlapsRefused = true
				status = append(status, name+"=halt-overlap/"+e.checkServed(name+" (halted)", false))
				return n, false, true
			}
			if fault != nil {
				// an injected object store failure makes Compact() return a (retriable) error; the compactor's outer loop
				// would run it again after the wait interval — the scenario goes on
				c.Count("compact-error-under-fault")
				status = append(status, name+"=fault-error/"+e.checkServed(name+" (failed under the injected fault)", false))
				return n, false, false
			}
			c.Count("compact-error")
			status = append(status, name+"=error/"+e.checkServed(name+" (error)", false))
			if os.Getenv("VERIF_DEBUG") != "" {
				fmt.Fprintln(os.Stderr, "compact error:", err)
			}
			return n, false, true
		}
		status = append(status, name+"=ok/"+e.checkServed(name, finishedIfOK))
		return n, false, false
	}
	n1, crashed, stop := stage("c1", crash1, fault == nil)
	if fault != nil && !crashed && !stop {
		_, _, stop = stage("c1r", 0, false) // the next iteration of the compactor's outer loop, the fault (if not used up) still there
	}
	if crashed {
		_, crashed2, stop2 := stage("c1r", crash2, true)
		stop = stop2
		if crashed2 {
			_, _, stop = stage("c1rr", 0, true)
		}
	}
	if !stop && cycle2 {
		if err := e.shiftMarks(dd/2 + 10); err != nil {
			return "err:" + err.Error()
		}
		_, _, stop = stage("c2", 0, fault == nil)
	}
	if !stop {
		if err := e.shiftMarks(dd + 10); err != nil { // never within seconds of a delay: the real code reads the wall clock
			return "err:" + err.Error()
		}
		_, _, stop = stage("c3", 0, fault == nil)
		if !stop && fault == nil {
			// every marked block is older than the delete delay now: none may be left
			left := 0
			_ = e.raw.Iter(e.ctx, "", func(n string) error {
				if ok, _ := e.raw.Exists(e.ctx, path.Join(strings.TrimSuffix(n, "/"), metadata.DeletionMarkFilename)); ok {
					if ok2, _ := e.raw.Exists(e.ctx, path.Join(strings.TrimSuffix(n, "/"), metadata.MetaFilename)); ok2 {
						left++
					}
				}
				return nil
			})
			if left > 0 {
				c.Violation("marked-left-behind", fmt.Sprintf("%d blocks marked for deletion longer than the delete delay survive a cleaner run", left))
			}
		}
	}
	if overlapsRefused {
		c.Count("overlap-refused(no vertical compaction)")
	}
	if e.anomaly {
		c.Count("ulid-order-anomaly")
		return fmt.Sprintf("n=%d %s -", n1, strings.Join(status, ","))
	}
	return fmt.Sprintf("n=%d %s %s", n1, strings.Join(status, ","), hlib.Join(e.events, ","))
}

// checkEventsCover: the cover invariant restated on the event history, independent of the model.
func checkEventsCover(c *hlib.Ctx, events []string) {
	type blk struct {
		src    []uint64
		marked bool
	}
	blocks := map[uint64]*blk{}
	next := uint64(1)
	for i, ev := range events {
		switch {
		case ev == "s":
			blocks[next] = &blk{src: []uint64{next}}
			next++
		case strings.HasPrefix(ev, "+"):
			f := strings.Split(ev[1:], ":")
			if len(f) != 4 {
				return
			}
			id, _ := strconv.ParseUint(f[0], 10, 64)
			src, _ := parsePlus(f[3])
			blocks[id] = &blk{src: src}
			if id >= next {
				next = id + 1
			}
		case strings.HasPrefix(ev, "m:"):
			id, _ := strconv.ParseUint(ev[2:], 10, 64)
			b := blocks[id]
			if b == nil {
				continue
			}
			covered := false
			for oid, o := range blocks {
				if oid != id && !o.marked && hasAll(o.src, b.src) {
					covered = true
				}
			}
			if !covered {
				c.Violation("mark-without-live-cover", fmt.Sprintf("event #%d %s: no unmarked block holds all sources %v of block %d", i+1, ev, b.src, id))
				return
			}
			b.marked = true
		case strings.HasPrefix(ev, "-"):
			id, _ := strconv.ParseUint(ev[1:], 10, 64)
			if b := blocks[id]; b != nil && !b.marked {
				c.Violation("delete-unmarked-block", fmt.Sprintf("event #%d %s: a complete block that was never marked for deletion is deleted", i+1, ev))
				return
			}
			delete(blocks, id)
		}
	}
}

// ---------------------------------------------------------------- generator

type c29Scenario struct {
	ranges   string
	vertical bool
	blocks   []c29Block
	name     string
}

func (s c29Scenario) faultOp(dd int64, fault string) string {
	return strings.Replace(s.op(dd, 0, 0), " 0 0 123", " 0 0 123 "+fault, 1)
}

func (s c29Scenario) op(dd int64, c1, c2 int) string {
	bs := make([]string, len(s.blocks))
	for i, b := range s.blocks {
		bs[i] = fmt.Sprintf("%d:%d:%d:%d", b.min, b.max, b.mask, b.tomb)
	}
	v := 0
	if s.vertical {
		v = 1
	}
	cycles := "123"
	if c1 > 0 {
		cycles = "13" // crash runs go straight from the recovery to the cleaning cycle
	}
	return fmt.Sprintf("o.c29.run %s %d %d %s %d %d %s", s.ranges, v, dd, strings.Join(bs, ";"), c1, c2, cycles)
}

func genScenario(c *hlib.Ctx, i int) c29Scenario {
	r := c.R
	kinds := []string{"aligned", "aligned", "replicas", "overlap", "tombstone", "two-level"}
	k := kinds[i%len(kinds)]
	if i >= len(kinds) {
		k = kinds[r.Intn(len(kinds))]
	}
	sc := c29Scenario{ranges: "1000,3000", name: k}
	mask := func() int { return r.Range(1, 7) }
	switch k {
	case "aligned":
		// 3–5 consecutive blocks of the first range, plus the newest one that stays out of the plan
		n := r.Range(3, 5)
		start := int64(r.Intn(3)) * 3000
		for j := 0; j < n; j++ {
			sc.blocks = append(sc.blocks, c29Block{start + int64(j)*1000, start + int64(j+1)*1000, mask(), 0})
		}
	case "two-level":
		// fills two middle ranges and a bit: several compactions in one run
		for j := 0; j < 6; j++ {
			sc.blocks = append(sc.blocks, c29Block{int64(j) * 1000, int64(j+1) * 1000, mask(), 0})
		}
		sc.blocks = append(sc.blocks, c29Block{6000, 7000, 1, 0})
	case "replicas":
		// replicated streams: the same range twice with identical samples (vertical compaction)
		sc.vertical = true
		n := r.Range(2, 3)
		for j := 0; j < n; j++ {
			m := mask()
			sc.blocks = append(sc.blocks, c29Block{int64(j) * 1000, int64(j+1) * 1000, m, 0})
			if r.Chance(2, 3) {
				sc.blocks = append(sc.blocks, c29Block{int64(j) * 1000, int64(j+1) * 1000, m | mask(), 0})
			}
		}
		sc.blocks = append(sc.blocks, c29Block{int64(n) * 1000, int64(n+1) * 1000, mask(), 0})
	case "overlap":
		// misaligned overlapping blocks; vertical compaction on or off
		sc.vertical = r.Chance(3, 4)
		t := int64(0)
		for j := r.Range(2, 4); j > 0; j-- {
			l := int64(r.Range(300, 1200))
			sc.blocks = append(sc.blocks, c29Block{t, t + l, mask(), 0})
			t += int64(r.Range(100, int(l)+200))
		}
		sc.blocks = append(sc.blocks, c29Block{t + 3000, t + 4000, 1, 0})
	case "tombstone":
		// blocks of the middle range with > 5% tombstones: single-block plans (the planner's tombstone loop stops at
		// the first block shorter than the middle range, so only the newest block may be a short one)
		n := r.Range(1, 2)
		for j := 0; j < n; j++ {
			sc.blocks = append(sc.blocks, c29Block{int64(j) * 3000, int64(j+1) * 3000, mask(), uint64(r.Range(1, 50))})
		}
		sc.blocks = append(sc.blocks, c29Block{int64(n) * 3000, int64(n)*3000 + 1000, mask(), 0})
	}
	return sc
}

// sweepStale removes scratch directories that a killed earlier run left behind.
func sweepStale() {
	for _, base := range []string{"/dev/shm", os.TempDir()} {
		ms, _ := filepath.Glob(filepath.Join(base, "verif-c29-*"))
		for _, m := range ms {
			if st, err := os.Stat(m); err == nil && time.Since(st.ModTime()) > 2*time.Hour {
				os.RemoveAll(m)
			}
		}
	}
}

func genC29(c *hlib.Ctx) {
	r := c.R
	sweepStale()
	base := ""
	if st, err := os.Stat("/dev/shm"); err == nil && st.IsDir() {
		base = "/dev/shm"
	}
	if d, err := os.MkdirTemp(base, "verif-c29-blocks-"); err == nil {
		preparedBlocks.dir, preparedBlocks.m = d, map[string]ulid.ULID{}
		defer func() { os.RemoveAll(d); preparedBlocks.dir = "" }()
	}
	if pf := os.Getenv("VERIF_PPROF"); pf != "" {
		if f, err := os.Create(pf); err == nil {
			if pprof.StartCPUProfile(f) == nil {
				defer pprof.StopCPUProfile()
			}
		}
	}
	sets := c.N(6, 16)
	if c.Tier == "search" {
		sets = 6
	}
	for i := 0; i < sets; i++ {
		sc := genScenario(c, i)
		c.Count("scenario:" + sc.name)
		c.Count(fmt.Sprintf("blocks:%d", len(sc.blocks)))
		dd := int64(10*r.Range(10, 100) + 5)
		out := c.Do(sc.op(dd, 0, 0), true)
		n, events := parseC29Answer(out)
		if events != "" && events != "-" {
			c.Do(fmt.Sprintf("cp.valid %d %s", dd, events), true)
		}
		if n <= 0 || strings.Contains(out, "overrun") || n > 60 {
			continue // nothing happened, or the crash-free run itself did not terminate
		}
		c.Count(fmt.Sprintf("crash-points:%d0s", n/10))
		// every crash point of the first cycle (quick tier: at most 8 of them, evenly spread, first and last included)
		pick := map[int]bool{}
		if c.Tier == "quick" && n > 8 {
			for j := 0; j < 8; j++ {
				pick[1+j*(n-1)/7] = true
			}
		}
		for k := 1; k <= n; k++ {
			if len(pick) > 0 && !pick[k] {
				continue
			}
			out := c.Do(sc.op(dd, k, 0), true)
			c.Count("crash-run")
			_, ev := parseC29Answer(out)
			if ev != "" && ev != "-" {
				c.Do(fmt.Sprintf("cp.valid %d %s", dd, ev), true)
			}
		}
		// selective and transient object store failures: block data (chunks, index) cannot be uploaded — for a few attempts
		// or for good — while small json objects (deletion marks!) still can; objects above a size; one single failing call
		faults := []string{"d:0"}
		if c.Tier != "quick" || i%3 == 0 {
			faults = append(faults, "d:1", "d:2", "b:200:0")
		}
		if c.Tier == "quick" {
			if i%3 == 1 {
				faults = append(faults, fmt.Sprintf("t:%d", 1+r.Intn(n)), fmt.Sprintf("t:%d", n))
			}
		} else {
			for k := 1; k <= n; k++ {
				faults = append(faults, fmt.Sprintf("t:%d", k))
			}
		}
		for _, f := range faults {
			out := c.Do(sc.faultOp(dd, f), true)
			c.Count("fault-run:" + f[:1])
			_, ev := parseC29Answer(out)
			if ev != "" && ev != "-" {
				c.Do(fmt.Sprintf("cp.valid %d %s", dd, ev), true)
			}
		}
		// READ faults on meta.json / marker reads, on blocks older than the partial-upload threshold, in the full iteration
		// order (progress sync + cleanup tick, then compactMainFn): call error, body cut in the middle, "not found" lie
		if (c.Tier != "quick" && i%2 == 0) || (c.Tier == "quick" && (i%3 == 2 || i == 0)) {
			var rf []string
			nb := len(sc.blocks)
			js := []int{1, nb}
			if c.Tier != "quick" {
				js = nil
				for j := 1; j <= nb; j++ {
					js = append(js, j)
				}
			}
			for _, j := range js {
				for _, cnt := range []int{1, 2, 3} {
					if c.Tier == "quick" && cnt == 2 {
						continue
					}
					rf = append(rf, fmt.Sprintf("o:h:%d:%d", j, cnt))
				}
				rf = append(rf, fmt.Sprintf("o:e:%d:2", j))
			}
			rf = append(rf, fmt.Sprintf("o:n:%d:1", 1+r.Intn(nb)))
			maxK := 4 * nb
			if c.Tier == "quick" {
				for t := 0; t < 3; t++ {
					rf = append(rf, fmt.Sprintf("g:%s:%d", []string{"h", "e", "h"}[t], 1+r.Intn(maxK)))
				}
			} else {
				for k := 1; k <= maxK; k++ {
					rf = append(rf, fmt.Sprintf("g:h:%d", k))
					if k%3 == 0 {
						rf = append(rf, fmt.Sprintf("g:e:%d", k), fmt.Sprintf("g:n:%d", k))
					}
				}
			}
			for _, f := range rf {
				out := c.Do(sc.faultOp(dd, f), true)
				c.Count("read-fault-run:" + f[:3])
				_, ev := parseC29Answer(out)
				if strings.Contains(f, ":n:") {
					// a store that denies an existing meta.json: the block is indistinguishable from an aborted upload
					// (observation sample-lost-after-notfound-lie, outside the fault model); its history is not a history of the model
					continue
				}
				if ev != "" && ev != "-" {
					c.Do(fmt.Sprintf("cp.valid %d %s", dd, ev), true)
				}
			}
		}
		// nested crashes (thorough): a second crash during the recovery
		if c.Tier != "quick" {
			for j := 0; j < 6; j++ {
				k1 := r.Range(1, n)
				k2 := r.Range(1, 8)
				out := c.Do(sc.op(dd, k1, k2), true)
				c.Count("nested-crash-run")
				_, ev := parseC29Answer(out)
				if ev != "" && ev != "-" {
					c.Do(fmt.Sprintf("cp.valid %d %s", dd, ev), true)
				}
			}
		}
	}
}

func parseC29Answer(out string) (int, string) {
	f := strings.Fields(out)
	if len(f) != 3 || !strings.HasPrefix(f[0], "n=") {
		return 0, ""
	}
	n, err := strconv.Atoi(f[0][2:])
	if err != nil {
		return 0, ""
	}
	return n, f[2]
}
