// Family binary "compact": C29 C30 C34.
package main

import "github.com/thanos-io/thanos/verifharness/hlib"

var props []*hlib.Prop

func main() { hlib.Main(props) }
