package main

import (
	"bytes"
	"context"
	"encoding/binary"
	"encoding/json"
	"fmt"
	"path"
	"sort"
	"strconv"
	"strings"

	"github.com/go-kit/log"
	"github.com/oklog/ulid/v2"
	"github.com/prometheus/client_golang/prometheus"
	"github.com/prometheus/prometheus/tsdb"
	"github.com/thanos-io/objstore"

	"github.com/thanos-io/thanos/pkg/block/metadata"
	"github.com/thanos-io/thanos/pkg/compact"
	"github.com/thanos-io/thanos/verifharness/hlib"
)

// C30 — compaction planning is safe and converges.
//
// ops (the real code is reached through the exported constructors NewPlanner,
// WithLargeTotalIndexSizeFilter, WithVerticalCompactionDownsampleFilter and Planner.Plan; the
// no-compact marks travel the real way: no-compact-mark.json objects in an in-memory bucket read
// by the real GatherNoCompactionMarkFilter):
//
//   meta   = id:min:max:failed:tomb:series:isize:res          (failed is 0/1)
//   metas  = meta;meta;…   sorted by min (Planner.Plan's precondition); `-` = none
//   plan.one  <ranges ,> <excl ids ,> <metas>            -> ids `,`-joined | - | panic
//   plan.iter <ranges ,> <excl ids ,> <metas> <newId>    -> fix|panic|fuel <plans `|`-joined> <final id:min:max `;`-joined>
//        plan, replace the planned blocks by tsdb.CompactBlockMetas of them (id newId, newId+1, …), repeat
//   plan.size <ranges ,> <excl ids ,> <metas> <limit> <totalMax>  -> ok <plan ids> <marked ids sorted> | panic <marked>
//        largeTotalIndexSizeFilter with totalMaxIndexSizeBytes = totalMax; limit = int64(float64(totalMax)*0.85)
//   plan.vert <ranges ,> <excl ids ,> <metas> <limit> <totalMax>  -> same, through verticalCompactionDownsampleFilter
//   o.plan.unsorted <ranges> <excl> <metas>              -> (oracle only, malformed stream: input not sorted) plan ids | panic
//
// oracle classes (C30 statement, clause by clause):
//   plan-subset      a planned block is not one of the given blocks / appears twice / order changed
//   plan-excluded    a planned block is marked no-compact
//   plan-size        fewer than two blocks and not a single block with >5% tombstones of at least the middle range
//   plan-newest      non-overlapping input and the newest block is planned
//   plan-one-range   non-overlapping input and a multi-block plan does not fit one aligned configured range
//   iter-no-termination   plan/apply did not reach a fixpoint within 2·n+2 rounds
//   final-long-merged-overlap   (F30) a block longer than the largest range came out of a plan over overlapping blocks
//   final-long       any other produced block longer than the largest range
//   final-overlap-excluded      two blocks of the fixpoint overlap and one of them is marked no-compact
//   final-overlap    any other overlap at the fixpoint
//   size-limit       the size filter returned a plan whose summed index size reaches the limit
//   vert-downsampled the vertical filter returned an overlapping plan containing a downsampled block

func init() {
	props = append(props, &hlib.Prop{ID: "C30", Gen: genC30, Exec: execC30})
}

type pmeta struct {
	id             uint64
	min, max       int64
	failed         bool
	tomb, series   uint64
	isize          int64
	res            int64
	producedByPlan []pmeta // for blocks created by plan.iter
}

func idULID(id uint64) ulid.ULID {
	var u ulid.ULID
	binary.BigEndian.PutUint64(u[8:], id)
	return u
}

func ulidID(u ulid.ULID) uint64 { return binary.BigEndian.Uint64(u[8:]) }

func parsePMeta(s string) (pmeta, bool) {
	f := strings.Split(s, ":")
	if len(f) != 8 {
		return pmeta{}, false
	}
	var m pmeta
	var err error
	if m.id, err = strconv.ParseUint(f[0], 10, 64); err != nil {
		return m, false
	}
	if m.min, err = strconv.ParseInt(f[1], 10, 64); err != nil {
		return m, false
	}
	if m.max, err = strconv.ParseInt(f[2], 10, 64); err != nil {
		return m, false
	}
	fl, err := strconv.ParseUint(f[3], 10, 64)
	if err != nil {
		return m, false
	}
	m.failed = fl != 0
	if m.tomb, err = strconv.ParseUint(f[4], 10, 64); err != nil {
		return m, false
	}
	if m.series, err = strconv.ParseUint(f[5], 10, 64); err != nil {
		return m, false
	}
	if m.isize, err = strconv.ParseInt(f[6], 10, 64); err != nil {
		return m, false
	}
	if m.res, err = strconv.ParseInt(f[7], 10, 64); err != nil {
		return m, false
	}
	return m, true
}

func parsePMetas(s string) ([]pmeta, bool) {
	var out []pmeta
	for _, t := range hlib.Split(s, ";") {
		m, ok := parsePMeta(t)
		if !ok {
			return nil, false
		}
		out = append(out, m)
	}
	return out, true
}

func (m pmeta) String() string {
	f := 0
	if m.failed {
		f = 1
	}
	return fmt.Sprintf("%d:%d:%d:%d:%d:%d:%d:%d", m.id, m.min, m.max, f, m.tomb, m.series, m.isize, m.res)
}

func showPMetas(ms []pmeta) string {
	ss := make([]string, len(ms))
	for i, m := range ms {
		ss[i] = m.String()
	}
	return hlib.Join(ss, ";")
}

func parseI64s(s string) ([]int64, bool) {
	var out []int64
	for _, t := range hlib.Split(s, ",") {
		v, err := strconv.ParseInt(t, 10, 64)
		if err != nil {
			return nil, false
		}
		out = append(out, v)
	}
	return out, true
}

func parseU64s(s string) ([]uint64, bool) {
	var out []uint64
	for _, t := range hlib.Split(s, ",") {
		v, err := strconv.ParseUint(t, 10, 64)
		if err != nil {
			return nil, false
		}
		out = append(out, v)
	}
	return out, true
}

// toMeta builds the metadata.Meta the planner sees.  viaBucket: the index size is not in
// Thanos.Files, the planner has to ask the bucket (the caller uploads the object).
func (m pmeta) toMeta(viaBucket bool) *metadata.Meta {
	mt := &metadata.Meta{}
	mt.ULID = idULID(m.id)
	mt.Version = 1
	mt.MinTime, mt.MaxTime = m.min, m.max
	mt.Compaction.Level = 1
	mt.Compaction.Sources = []ulid.ULID{mt.ULID}
	mt.Compaction.Failed = m.failed
	mt.Stats.NumTombstones = m.tomb
	mt.Stats.NumSeries = m.series
	mt.Thanos.Downsample.Resolution = m.res
	mt.Thanos.Labels = map[string]string{"g": "1"}
	if !viaBucket {
		mt.Thanos.Files = []metadata.File{{RelPath: "chunks/000001", SizeBytes: 7}, {RelPath: "index", SizeBytes: m.isize}, {RelPath: "meta.json"}}
	}
	return mt
}

type planEnv struct {
	bkt     *objstore.InMemBucket
	filter  *compact.GatherNoCompactionMarkFilter
	ranges  []int64
	planner compact.Planner
}

var nopGauge = prometheus.NewGaugeVec(prometheus.GaugeOpts{Name: "verif_synced"}, []string{"state"})

// newPlanEnv uploads the no-compact marks and lets the real filter gather them.
func newPlanEnv(ranges []int64, excl []uint64, ms []pmeta) (*planEnv, error) {
	ctx := context.Background()
	bkt := objstore.NewInMemBucket()
	for _, id := range excl {
		b, err := json.Marshal(metadata.NoCompactMark{ID: idULID(id), Version: metadata.NoCompactMarkVersion1, Reason: metadata.ManualNoCompactReason, NoCompactTime: 1})
		if err != nil {
			return nil, err
		}
		if err := bkt.Upload(ctx, path.Join(idULID(id).String(), metadata.NoCompactMarkFilename), bytes.NewReader(b)); err != nil {
			return nil, err
		}
	}
	f := compact.NewGatherNoCompactionMarkFilter(log.NewNopLogger(), objstore.WithNoopInstr(bkt), 2)
	all := map[ulid.ULID]*metadata.Meta{}
	for _, m := range ms {
		all[idULID(m.id)] = m.toMeta(false)
	}
	// marks of blocks that are not in the view are never read by the filter, exactly as in production
	if err := f.Filter(ctx, all, nopGauge, nopGauge); err != nil {
		return nil, err
	}
	e := &planEnv{bkt: bkt, filter: f, ranges: ranges}
	e.planner = compact.NewPlanner(log.NewNopLogger(), ranges, f)
	return e, nil
}

func toMetas(ms []pmeta) []*metadata.Meta {
	out := make([]*metadata.Meta, len(ms))
	for i, m := range ms {
		out[i] = m.toMeta(false)
	}
	return out
}

func planIDs(p []*metadata.Meta) []uint64 {
	out := make([]uint64, len(p))
	for i, m := range p {
		out[i] = ulidID(m.ULID)
	}
	return out
}

func showIDs(ids []uint64) string {
	ss := make([]string, len(ids))
	for i, v := range ids {
		ss[i] = strconv.FormatUint(v, 10)
	}
	return hlib.Join(ss, ",")
}

// callPlan runs Planner.Plan, turning a panic of the real code into ok=false.
func callPlan(p compact.Planner, ms []*metadata.Meta) (plan []*metadata.Meta, err error, panicked bool) {
	defer func() {
		if r := recover(); r != nil {
			panicked = true
		}
	}()
	plan, err = p.Plan(context.Background(), ms, nil, nil)
	return plan, err, false
}

// ---------------------------------------------------------------- oracle

func nonOverlapping(ms []pmeta) bool {
	// sorted by min: pairwise disjoint iff every block starts at or after the greatest end so far
	if len(ms) == 0 {
		return true
	}
	hi := ms[0].max
	for _, m := range ms[1:] {
		if m.min < hi {
			return false
		}
		if m.max > hi {
			hi = m.max
		}
	}
	return true
}

func floorDiv(a, b int64) int64 {
	q := a / b
	if (a%b != 0) && ((a < 0) != (b < 0)) {
		q--
	}
	return q
}

// checkPlan evaluates clauses 1–5 of the statement on one plan.
func checkPlan(c *hlib.Ctx, ranges []int64, excl []uint64, ms []pmeta, ids []uint64) {
	byID := map[uint64]int{}
	for i, m := range ms {
		byID[m.id] = i
	}
	ex := map[uint64]bool{}
	for _, e := range excl {
		ex[e] = true
	}
	last := -1
	var plan []pmeta
	for _, id := range ids {
		i, ok := byID[id]
		if !ok || i <= last {
			c.Violation("plan-subset", fmt.Sprintf("planned block %d is not a block of the group, or out of order/repeated", id))
			return
		}
		last = i
		plan = append(plan, ms[i])
		if ex[id] {
			c.Violation("plan-excluded", fmt.Sprintf("planned block %d is marked no-compact", id))
		}
	}
	if len(plan) == 0 {
		return
	}
	if len(plan) == 1 {
		b := plan[0]
		okTomb := float64(b.tomb)/float64(b.series+1) > 0.05
		okLen := len(ranges) > 0 && b.max-b.min >= ranges[len(ranges)/2]
		if !okTomb || !okLen {
			c.Violation("plan-size", fmt.Sprintf("single-block plan %d: tombstones %d series %d length %d", b.id, b.tomb, b.series, b.max-b.min))
		}
	}
	if nonOverlapping(ms) {
		newest := ms[len(ms)-1]
		for _, b := range plan {
			if b.id == newest.id {
				c.Violation("plan-newest", fmt.Sprintf("non-overlapping input, newest block %d planned", b.id))
			}
		}
		if len(plan) >= 2 {
			fits := false
			for _, r := range ranges[min(1, len(ranges)):] {
				if r <= 0 {
					continue
				}
				t0 := floorDiv(plan[0].min, r) * r
				all := true
				for _, b := range plan {
					if b.min < t0 || b.max > t0+r {
						all = false
					}
				}
				if all {
					fits = true
				}
			}
			if !fits {
				c.Violation("plan-one-range", fmt.Sprintf("non-overlapping input, plan %v does not fit one aligned range of %v", ids, ranges))
			}
		}
	}
}

func planKind(excl []uint64, ms []pmeta, ids []uint64, panicked bool) string {
	if panicked {
		return "panic"
	}
	if len(ids) == 0 {
		return "none"
	}
	ex := map[uint64]bool{}
	for _, e := range excl {
		ex[e] = true
	}
	var ne []pmeta
	for _, m := range ms {
		if !ex[m.id] {
			ne = append(ne, m)
		}
	}
	if !nonOverlapping(ne) {
		return "overlap"
	}
	if len(ids) == 1 {
		return "tombstone"
	}
	return "range"
}

// ---------------------------------------------------------------- exec

func execC30(c *hlib.Ctx, tok []string) string {
	if len(tok) < 4 {
		return "bad-op"
	}
	ranges, ok1 := parseI64s(tok[1])
	excl, ok2 := parseU64s(tok[2])
	ms, ok3 := parsePMetas(tok[3])
	if !ok1 || !ok2 || !ok3 {
		return "bad-op"
	}
	switch tok[0] {
	case "plan.one", "o.plan.unsorted":
		if len(tok) != 4 {
			return "bad-op"
		}
		env, err := newPlanEnv(ranges, excl, ms)
		if err != nil {
			return "err:" + err.Error()
		}
		plan, err, panicked := callPlan(env.planner, toMetas(ms))
		if panicked {
			c.Count("kind:panic")
			return "panic"
		}
		if err != nil {
			return "err:" + err.Error()
		}
		ids := planIDs(plan)
		if tok[0] == "plan.one" {
			c.Count("kind:" + planKind(excl, ms, ids, false))
			checkPlan(c, ranges, excl, ms, ids)
		}
		return showIDs(ids)

	case "plan.iter":
		if len(tok) != 5 {
			return "bad-op"
		}
		newID, err := strconv.ParseUint(tok[4], 10, 64)
		if err != nil {
			return "bad-op"
		}
		return execIter(c, ranges, excl, ms, newID)

	case "plan.size", "plan.vert":
		if len(tok) != 6 {
			return "bad-op"
		}
		limit, err1 := strconv.ParseInt(tok[4], 10, 64)
		totalMax, err2 := strconv.ParseInt(tok[5], 10, 64)
		if err1 != nil || err2 != nil || int64(float64(totalMax)*0.85) != limit {
			return "bad-op"
		}
		return execSize(c, tok[0] == "plan.vert", ranges, excl, ms, limit, totalMax)
	}
	return "bad-op"
}

func execIter(c *hlib.Ctx, ranges []int64, excl []uint64, ms []pmeta, newID uint64) string {
	env, err := newPlanEnv(ranges, excl, ms)
	if err != nil {
		return "err:" + err.Error()
	}
	input := append([]pmeta(nil), ms...)
	cur := append([]pmeta(nil), ms...)
	var plans []string
	budget := 2*len(ms) + 2
	status := "fuel"
	for step := 0; step < budget; step++ {
		plan, err, panicked := callPlan(env.planner, toMetas(cur))
		if panicked {
			c.Count("iter:panic")
			return "panic " + hlib.Join(plans, "|") + " -"
		}
		if err != nil {
			return "err:" + err.Error()
		}
		ids := planIDs(plan)
		checkPlan(c, ranges, excl, cur, ids)
		if len(ids) == 0 {
			status = "fix"
			break
		}
		c.Count("iterplan:" + planKind(excl, cur, ids, false))
		plans = append(plans, showIDs(ids))
		// apply: what Group.compact leaves behind — the planned blocks are gone (marked for deletion and
		// dropped from the group), one block with tsdb.CompactBlockMetas' time range appears
		inPlan := map[ulid.ULID]bool{}
		var bms []*tsdb.BlockMeta
		var members []pmeta
		for _, p := range plan {
			inPlan[p.ULID] = true
			bm := p.BlockMeta
			bms = append(bms, &bm)
		}
		var next []pmeta
		for _, m := range cur {
			if inPlan[idULID(m.id)] {
				members = append(members, m)
			} else {
				next = append(next, m)
			}
		}
		nb := tsdb.CompactBlockMetas(idULID(newID), bms...)
		next = append(next, pmeta{id: newID, min: nb.MinTime, max: nb.MaxTime, res: members[0].res, producedByPlan: members})
		newID++
		sort.SliceStable(next, func(i, j int) bool { return next[i].min < next[j].min })
		cur = next
	}
	c.Count(fmt.Sprintf("iter-rounds:%d", min(len(plans), 8)))
	if status == "fuel" {
		c.Violation("iter-no-termination", fmt.Sprintf("no fixpoint after %d rounds", budget))
	} else {
		checkFinal(c, ranges, excl, input, cur)
	}
	fs := make([]string, len(cur))
	for i, m := range cur {
		fs[i] = fmt.Sprintf("%d:%d:%d", m.id, m.min, m.max)
	}
	return status + " " + hlib.Join(plans, "|") + " " + hlib.Join(fs, ";")
}

// checkFinal: the last clause of the statement on a fixpoint.
func checkFinal(c *hlib.Ctx, ranges []int64, excl []uint64, input, final []pmeta) {
	ex := map[uint64]bool{}
	for _, e := range excl {
		ex[e] = true
	}
	if len(ranges) > 0 {
		rmax := ranges[0]
		for _, r := range ranges {
			if r > rmax {
				rmax = r
			}
		}
		for _, b := range final {
			if b.max-b.min <= rmax {
				continue
			}
			if b.producedByPlan == nil {
				c.Count("final:input-block-already-longer-than-largest-range")
				continue
			}
			src := b
			for len(src.producedByPlan) == 1 {
				src = src.producedByPlan[0] // a tombstone compaction keeps the range of its only source
			}
			if src.producedByPlan == nil {
				c.Count("final:input-block-already-longer-than-largest-range")
				continue
			}
			if !nonOverlapping(src.producedByPlan) {
				c.Violation("final-long-merged-overlap", fmt.Sprintf("block %d [%d,%d) longer than the largest range %d: it merges overlapping blocks and spans their union", b.id, b.min, b.max, rmax))
			} else {
				c.Violation("final-long", fmt.Sprintf("block %d [%d,%d) longer than the largest range %d", b.id, b.min, b.max, rmax))
			}
		}
	}
	hi := int64(0)
	var hiB pmeta
	for i, b := range final {
		if i > 0 && b.min < hi {
			// overlap between b and the block that reaches furthest so far
			if ex[b.id] || ex[hiB.id] || overlapsExcluded(final[:i], b, ex) {
				c.Violation("final-overlap-excluded", fmt.Sprintf("blocks %d and %d overlap at the fixpoint; a no-compact block is involved", hiB.id, b.id))
			} else {
				c.Violation("final-overlap", fmt.Sprintf("blocks %d [%d,%d) and %d [%d,%d) overlap at the fixpoint", hiB.id, hiB.min, hiB.max, b.id, b.min, b.max))
			}
		}
		if i == 0 || b.max > hi {
			hi, hiB = b.max, b
		}
	}
}

// overlapsExcluded: every earlier block that overlaps b is marked no-compact (b itself is not)
func overlapsExcluded(before []pmeta, b pmeta, ex map[uint64]bool) bool {
	any := false
	for _, a := range before {
		if a.max > b.min {
			if !ex[a.id] {
				return false
			}
			any = true
		}
	}
	return any
}

func execSize(c *hlib.Ctx, vertical bool, ranges []int64, excl []uint64, ms []pmeta, limit, totalMax int64) string {
	env, err := newPlanEnv(ranges, excl, ms)
	if err != nil {
		return "err:" + err.Error()
	}
	ctx := context.Background()
	cnt := prometheus.NewCounter(prometheus.CounterOpts{Name: "verif_marked"})
	metas := make([]*metadata.Meta, len(ms))
	for i, m := range ms {
		viaBucket := m.id%2 == 1
		metas[i] = m.toMeta(viaBucket)
		if viaBucket {
			if err := env.bkt.Upload(ctx, path.Join(idULID(m.id).String(), "index"), bytes.NewReader(make([]byte, m.isize))); err != nil {
				return "err:" + err.Error()
			}
		}
	}
	sizeFilter := compact.WithLargeTotalIndexSizeFilter(compact.NewPlanner(log.NewNopLogger(), ranges, env.filter), env.bkt, totalMax, cnt)
	var pl compact.Planner = sizeFilter
	if vertical {
		pl = compact.WithVerticalCompactionDownsampleFilter(sizeFilter, env.bkt, cnt)
	}
	plan, err, panicked := callPlan(pl, metas)
	// marks placed by this call = no-compact marks now in the bucket that were not given
	given := map[uint64]bool{}
	for _, e := range excl {
		given[e] = true
	}
	var marked []uint64
	for _, m := range ms {
		ok, _ := env.bkt.Exists(ctx, path.Join(idULID(m.id).String(), metadata.NoCompactMarkFilename))
		if ok && !given[m.id] {
			marked = append(marked, m.id)
		}
	}
	sort.Slice(marked, func(i, j int) bool { return marked[i] < marked[j] })
	c.Count(fmt.Sprintf("size-marked:%d", min(len(marked), 4)))
	if panicked {
		return "panic " + showIDs(marked)
	}
	if err != nil {
		return "err:" + err.Error()
	}
	ids := planIDs(plan)
	// oracle: the plan respects every mark (given and new), its size stays below the limit, and a plan
	// over overlapping blocks has no downsampled block
	allExcl := append(append([]uint64(nil), excl...), marked...)
	checkPlan(c, ranges, allExcl, ms, ids)
	byID := map[uint64]pmeta{}
	for _, m := range ms {
		byID[m.id] = m
	}
	var total int64
	var planned []pmeta
	for _, id := range ids {
		total += byID[id].isize
		planned = append(planned, byID[id])
	}
	if len(ids) > 0 && total >= limit {
		c.Violation("size-limit", fmt.Sprintf("plan %v has total index size %d >= limit %d", ids, total, limit))
	}
	if vertical && !nonOverlapping(planned) {
		for _, b := range planned {
			if b.res != 0 {
				c.Violation("vert-downsampled", fmt.Sprintf("overlapping plan %v contains downsampled block %d", ids, b.id))
			}
		}
	}
	return "ok " + showIDs(ids) + " " + showIDs(marked)
}

// ---------------------------------------------------------------- generator

var rangeSets = [][]int64{
	{20, 60, 180},
	{10, 40, 240},
	{10, 50, 250, 1000},
	{20, 120},
	{7, 21, 63},
	{100},
	{20, 50}, // second range is not a multiple of the first
}

func genLayout(c *hlib.Ctx, ranges []int64) ([]pmeta, string) {
	r := c.R
	base := int64(20)
	if len(ranges) > 0 && ranges[0] > 0 {
		base = ranges[0]
	}
	mid := base
	if len(ranges) > 1 && ranges[1] > 0 {
		mid = ranges[1]
	}
	var start int64
	switch r.Intn(4) {
	case 0:
		start = 0
	case 1:
		start = -mid * int64(r.Range(1, 4)) // negative MinTime branch of splitByRange
	case 2:
		start = base * int64(r.Range(0, 50))
	default:
		start = -base*int64(r.Range(0, 6)) - int64(r.Intn(int(base))) // straddles zero, maybe misaligned
	}
	kind := []string{"aligned", "aligned", "aligned-compacted", "misaligned", "overlapping", "replicas"}[r.Intn(6)]
	n := r.Range(1, 9)
	var ms []pmeta
	id := uint64(1)
	add := func(mn, mx int64) {
		m := pmeta{id: id, min: mn, max: mx, series: uint64(r.Range(0, 200)), isize: int64(r.Range(1, 100))}
		id++
		if r.Chance(1, 12) {
			m.failed = true
		}
		switch r.Intn(8) {
		case 0:
			m.tomb = uint64(r.Range(0, 40)) // around the 5% threshold
		case 1:
			m.tomb = m.series/20 + uint64(r.Intn(3)) // at the threshold
		}
		ms = append(ms, m)
	}
	t := start - start%base
	if kind == "misaligned" {
		t = start
	}
	for i := 0; i < n; i++ {
		switch kind {
		case "aligned":
			if r.Chance(1, 6) {
				t += base // gap
			}
			add(t, t+base)
			t += base
		case "aligned-compacted":
			if r.Chance(1, 3) {
				// a block of the middle range, aligned to it
				a := floorDiv(t, mid) * mid
				if a < t {
					a += mid
				}
				add(a, a+mid)
				t = a + mid
			} else {
				add(t, t+base)
				t += base
			}
		case "misaligned":
			l := int64(r.Range(1, int(2*base)))
			if r.Chance(1, 8) {
				l = int64(r.Range(1, int(3*mid)))
			}
			add(t, t+l)
			t += l + int64(r.Intn(int(base)))
		case "overlapping":
			l := int64(r.Range(1, int(2*base)))
			add(t, t+l)
			t += int64(r.Intn(int(l) + 3)) // next one may start inside this one
		case "replicas":
			add(t, t+base)
			if r.Chance(1, 2) {
				add(t, t+base) // the same range once more
			}
			t += base
		}
	}
	sort.SliceStable(ms, func(i, j int) bool { return ms[i].min < ms[j].min })
	return ms, kind
}

func genExcl(c *hlib.Ctx, ms []pmeta) []uint64 {
	r := c.R
	var ex []uint64
	if r.Chance(1, 2) {
		return nil
	}
	for _, m := range ms {
		if r.Chance(1, 5) {
			ex = append(ex, m.id)
		}
	}
	if r.Chance(1, 10) {
		ex = append(ex, 999) // a mark of a block that is not in the group
	}
	return ex
}

func showI64s(xs []int64) string { return hlib.Ints(xs, ",") }

func genC30(c *hlib.Ctx) {
	r := c.R
	n := c.N(3000, 120000)
	if c.Tier == "search" {
		n = 12000
	}
	for i := 0; i < n; i++ {
		ranges := rangeSets[r.Intn(len(rangeSets))]
		c.Count(fmt.Sprintf("ranges:%d", len(ranges)))
		ms, kind := genLayout(c, ranges)
		c.Count("layout:" + kind)
		c.Count(fmt.Sprintf("blocks:%d", len(ms)))
		excl := genExcl(c, ms)
		if len(excl) > 0 {
			c.Count("with-exclusions")
		}
		args := fmt.Sprintf("%s %s %s", showI64s(ranges), showIDs(excl), showPMetas(ms))
		out := c.Do("plan.one "+args, true)
		c.Do(fmt.Sprintf("plan.iter %s %d", args, 1000), out != "-" && out != "panic")
		if r.Chance(1, 3) {
			// size filter: limits around the sum of a typical plan
			totalMax := int64(r.Range(1, 400))
			limit := int64(float64(totalMax) * 0.85)
			op := "plan.size"
			if r.Chance(1, 2) {
				op = "plan.vert"
				// a group has one resolution (it is part of the group key): all raw or all downsampled;
				// mixed resolutions (outside Plan's domain "blocks of one group") are a separate stream
				switch r.Intn(5) {
				case 0, 1:
					for j := range ms {
						ms[j].res = 300000
					}
					c.Count("vert:all-downsampled")
				case 2:
					for j := range ms {
						if r.Chance(1, 3) {
							ms[j].res = 300000
						}
					}
					c.Count("vert:mixed-resolutions")
				default:
					c.Count("vert:all-raw")
				}
				args = fmt.Sprintf("%s %s %s", showI64s(ranges), showIDs(excl), showPMetas(ms))
			}
			c.Count("op:" + op)
			c.Do(fmt.Sprintf("%s %s %d %d", op, args, limit, totalMax), true)
		}
		if r.Chance(1, 40) {
			// panic paths of the real code: no blocks, no ranges, a zero range
			switch r.Intn(3) {
			case 0:
				c.Do(fmt.Sprintf("plan.one %s - -", showI64s(ranges)), true)
			case 1:
				c.Do(fmt.Sprintf("plan.one - %s %s", showIDs(excl), showPMetas(ms)), true)
			default:
				c.Do(fmt.Sprintf("plan.one 20,0,60 %s %s", showIDs(excl), showPMetas(ms)), true)
			}
			c.Count("panic-path-probe")
		}
		if r.Chance(1, 30) && len(ms) > 2 {
			// malformed stream: Plan's precondition (sorted by MinTime) broken — recorded, not asserted
			p := r.Perm(len(ms))
			sh := make([]pmeta, len(ms))
			for j, k := range p {
				sh[j] = ms[k]
			}
			c.Do(fmt.Sprintf("o.plan.unsorted %s %s %s", showI64s(ranges), showIDs(excl), showPMetas(sh)), false)
			c.Count("malformed:unsorted")
		}
	}
}
