package main

// Shared end-to-end machinery of C07–C10: a store is described completely inside the op line (blocks,
// external labels, series, chunk ranges), written as real TSDB blocks (index + chunks + meta.json) into a
// temp dir, served by the real TSDBStore (over the Prometheus block querier) or the real BucketStore (over an
// in-memory object store bucket), and read back through the Prometheus TSDB reader for the oracles.
//
// Encoding (names are ranks into nameTab, values are ranks into valueTab, 0 = empty string):
//   labels   n.v,n.v            (`-` = none)
//   chunk    mint.maxt.id       chunks joined by `,` (`-` = none); the chunk holds samples (mint,id) and (maxt,id)
//   series   <labels>^<chunks>  series joined by `;` (`-` = none)
//   block    <extlabels>@<mint>@<maxt>@<series>[@<resolution>]      blocks joined by `/`; resolution 300000 / 3600000 =
//            a downsampled block: every chunk is an AggrChunk of five XOR sub-chunks (count, sum, min, max, counter) whose
//            samples carry id, 2·id, … 5·id
//   matcher  type.name.patternhex.vals   type 0 =, 1 !=, 2 =~, 3 !~; vals = accepted value ranks joined by `+`
//            (`_` = none) — the truth table of the real matcher over valueTab; matchers joined by `,` (`-` = none)
//   without  name ranks joined by `,` (`-` = none)

import (
	"context"
	"encoding/json"
	"fmt"
	"os"
	"path/filepath"
	"sort"
	"strconv"
	"strings"
	"time"

	"github.com/go-kit/log"
	"github.com/oklog/ulid/v2"
	"github.com/prometheus/client_golang/prometheus"
	"github.com/prometheus/prometheus/model/labels"
	"github.com/prometheus/prometheus/storage"
	"github.com/prometheus/prometheus/tsdb"
	"github.com/prometheus/prometheus/tsdb/chunkenc"
	"github.com/prometheus/prometheus/tsdb/chunks"
	"github.com/prometheus/prometheus/tsdb/index"
	"github.com/thanos-io/objstore"
	thanosmodel "github.com/thanos-io/thanos/pkg/model"

	"github.com/thanos-io/thanos/pkg/block"
	"github.com/thanos-io/thanos/pkg/block/metadata"
	"github.com/thanos-io/thanos/pkg/compact/downsample"
	"github.com/thanos-io/thanos/pkg/component"
	"github.com/thanos-io/thanos/pkg/store"
	storecache "github.com/thanos-io/thanos/pkg/store/cache"
	"github.com/thanos-io/thanos/pkg/store/labelpb"
	"github.com/thanos-io/thanos/pkg/store/storepb"
	"github.com/thanos-io/thanos/verifharness/hlib"
)

// sorted bytewise: the rank of a string is its index (0 is never a valid name)
var nameTab = []string{"", "__name__", "a", "a:b", "b", "cluster", "env", "job", "le", "replica", "z", "zone", "é"}

// sorted bytewise; 0 = the empty value
var valueTab = []string{"", "0", "1", "a", "a.b", "ab", "b", "bar", "foo", "prod", "z|y", "é"}

const nameRankMetric = 1

func init() {
	if !sort.StringsAreSorted(nameTab) || !sort.StringsAreSorted(valueTab) {
		panic("name/value tables must be sorted bytewise")
	}
}

type specLabel struct{ n, v int }
type specChunk struct {
	mint, maxt int64
	id         int
}
type specSeries struct {
	lset   []specLabel
	chunks []specChunk
}
type specBlock struct {
	ext        []specLabel
	mint, maxt int64
	series     []specSeries
	res        int64 // downsampling resolution (0 raw)
}

type specMatcher struct {
	typ     int
	name    int
	pattern string
	vals    []int
}

func showLabels(ls []specLabel) string {
	out := make([]string, len(ls))
	for i, l := range ls {
		out[i] = fmt.Sprintf("%d.%d", l.n, l.v)
	}
	return hlib.Join(out, ",")
}

func parseLabels(s string) ([]specLabel, error) {
	var out []specLabel
	for _, t := range hlib.Split(s, ",") {
		f := strings.Split(t, ".")
		if len(f) != 2 {
			return nil, fmt.Errorf("bad label %q", t)
		}
		n, e1 := strconv.Atoi(f[0])
		v, e2 := strconv.Atoi(f[1])
		if e1 != nil || e2 != nil || n < 0 || n >= len(nameTab) || v < 0 || v >= len(valueTab) {
			return nil, fmt.Errorf("bad label %q", t)
		}
		out = append(out, specLabel{n, v})
	}
	return out, nil
}

func showBlocks(bs []specBlock) string {
	out := make([]string, len(bs))
	for i, b := range bs {
		ss := make([]string, len(b.series))
		for j, s := range b.series {
			cs := make([]string, len(s.chunks))
			for k, c := range s.chunks {
				cs[k] = fmt.Sprintf("%d.%d.%d", c.mint, c.maxt, c.id)
			}
			ss[j] = showLabels(s.lset) + "^" + hlib.Join(cs, ",")
		}
		out[i] = fmt.Sprintf("%s@%d@%d@%s", showLabels(b.ext), b.mint, b.maxt, hlib.Join(ss, ";"))
		if b.res != 0 {
			out[i] += fmt.Sprintf("@%d", b.res)
		}
	}
	return hlib.Join(out, "/")
}

func parseBlocks(s string) ([]specBlock, error) {
	var out []specBlock
	for _, bt := range hlib.Split(s, "/") {
		f := strings.Split(bt, "@")
		if len(f) != 4 && len(f) != 5 {
			return nil, fmt.Errorf("bad block %q", bt)
		}
		var b specBlock
		var err error
		if len(f) == 5 {
			if b.res, err = strconv.ParseInt(f[4], 10, 64); err != nil {
				return nil, err
			}
		}
		if b.ext, err = parseLabels(f[0]); err != nil {
			return nil, err
		}
		if b.mint, err = strconv.ParseInt(f[1], 10, 64); err != nil {
			return nil, err
		}
		if b.maxt, err = strconv.ParseInt(f[2], 10, 64); err != nil {
			return nil, err
		}
		for _, st := range hlib.Split(f[3], ";") {
			g := strings.Split(st, "^")
			if len(g) != 2 {
				return nil, fmt.Errorf("bad series %q", st)
			}
			var sr specSeries
			if sr.lset, err = parseLabels(g[0]); err != nil {
				return nil, err
			}
			for _, ct := range hlib.Split(g[1], ",") {
				h := strings.Split(ct, ".")
				if len(h) != 3 {
					return nil, fmt.Errorf("bad chunk %q", ct)
				}
				a, e1 := strconv.ParseInt(h[0], 10, 64)
				z, e2 := strconv.ParseInt(h[1], 10, 64)
				id, e3 := strconv.Atoi(h[2])
				if e1 != nil || e2 != nil || e3 != nil {
					return nil, fmt.Errorf("bad chunk %q", ct)
				}
				sr.chunks = append(sr.chunks, specChunk{a, z, id})
			}
			b.series = append(b.series, sr)
		}
		out = append(out, b)
	}
	return out, nil
}

func promLabels(ls []specLabel) labels.Labels {
	out := make([]labels.Label, 0, len(ls))
	for _, l := range ls {
		out = append(out, labels.Label{Name: nameTab[l.n], Value: valueTab[l.v]})
	}
	return labels.New(out...)
}

func rankOf(tab []string, s string) int {
	i := sort.SearchStrings(tab, s)
	if i < len(tab) && tab[i] == s {
		return i
	}
	return -1
}

// ranksOfLabels turns real labels back into `n.v,…`; unknown strings give rank -1 (shows up as a difference).
func ranksOfLabels(ls labels.Labels) []specLabel {
	var out []specLabel
	ls.Range(func(l labels.Label) {
		out = append(out, specLabel{rankOf(nameTab, l.Name), rankOf(valueTab, l.Value)})
	})
	return out
}

func mkMatcher(typ, name int, pattern string) (*labels.Matcher, error) {
	return labels.NewMatcher(labels.MatchType(typ), nameTab[name], pattern)
}

// matcherVals is the truth table of the real matcher over valueTab.
func matcherVals(m *labels.Matcher) []int {
	var out []int
	for i, v := range valueTab {
		if m.Matches(v) {
			out = append(out, i)
		}
	}
	return out
}

func showMatchers(ms []specMatcher) string {
	out := make([]string, len(ms))
	for i, m := range ms {
		vs := make([]string, len(m.vals))
		for j, v := range m.vals {
			vs[j] = strconv.Itoa(v)
		}
		v := strings.Join(vs, "+")
		if v == "" {
			v = "_"
		}
		out[i] = fmt.Sprintf("%d.%d.%s.%s", m.typ, m.name, hlib.HexS(m.pattern), v)
	}
	return hlib.Join(out, ",")
}

// parseMatchers also checks that the truth table in the line is the real matcher's.
func parseMatchers(s string) ([]specMatcher, []*labels.Matcher, []storepb.LabelMatcher, error) {
	var out []specMatcher
	var pms []*labels.Matcher
	var sms []storepb.LabelMatcher
	for _, t := range hlib.Split(s, ",") {
		f := strings.Split(t, ".")
		if len(f) != 4 {
			return nil, nil, nil, fmt.Errorf("bad matcher %q", t)
		}
		typ, e1 := strconv.Atoi(f[0])
		name, e2 := strconv.Atoi(f[1])
		pat, e3 := hlib.UnHex(f[2])
		if e1 != nil || e2 != nil || e3 != nil || typ < 0 || typ > 3 || name < 1 || name >= len(nameTab) {
			return nil, nil, nil, fmt.Errorf("bad matcher %q", t)
		}
		m := specMatcher{typ: typ, name: name, pattern: string(pat)}
		if f[3] != "_" {
			for _, v := range strings.Split(f[3], "+") {
				x, err := strconv.Atoi(v)
				if err != nil {
					return nil, nil, nil, err
				}
				m.vals = append(m.vals, x)
			}
		}
		pm, err := mkMatcher(typ, name, m.pattern)
		if err != nil {
			return nil, nil, nil, err
		}
		if fmt.Sprint(matcherVals(pm)) != fmt.Sprint(m.vals) {
			return nil, nil, nil, fmt.Errorf("truth table of %s is %v, line says %v", pm, matcherVals(pm), m.vals)
		}
		out = append(out, m)
		pms = append(pms, pm)
		sms = append(sms, storepb.LabelMatcher{Type: storepb.LabelMatcher_Type(typ), Name: nameTab[name], Value: m.pattern})
	}
	return out, pms, sms, nil
}

func parseNames(s string) ([]string, error) {
	var out []string
	for _, t := range hlib.Split(s, ",") {
		n, err := strconv.Atoi(t)
		if err != nil || n < 0 || n >= len(nameTab) {
			return nil, fmt.Errorf("bad name rank %q", t)
		}
		out = append(out, nameTab[n])
	}
	return out, nil
}

// ---------------------------------------------------------------- writing blocks

func xorFor(c specChunk, mult int) chunkenc.Chunk {
	ch := chunkenc.NewXORChunk()
	app, _ := ch.Appender()
	app.Append(c.mint, float64(c.id*mult))
	if c.maxt > c.mint {
		app.Append(c.maxt, float64(c.id*mult))
	}
	return ch
}

// chunkFor: an XOR chunk in a raw block, an AggrChunk with all five aggregates in a downsampled one.
func chunkFor(c specChunk, res int64) chunkenc.Chunk {
	if res == 0 {
		return xorFor(c, 1)
	}
	var subs [5]chunkenc.Chunk
	for i := range subs {
		subs[i] = xorFor(c, i+1)
	}
	return downsample.EncodeAggrChunk(subs)
}

// chunkID recovers the id from chunk bytes returned by a store.
func chunkID(enc storepb.Chunk_Encoding, data []byte) (id int) {
	defer func() {
		if r := recover(); r != nil {
			id = -4
		}
	}()
	if enc != storepb.Chunk_XOR {
		return -1
	}
	ch, err := chunkenc.FromData(chunkenc.EncXOR, data)
	if err != nil {
		return -2
	}
	it := ch.Iterator(nil)
	if it.Next() == chunkenc.ValNone {
		return -3
	}
	_, v := it.At()
	return int(v)
}

var aggrNames = []string{"count", "sum", "min", "max", "counter"}

func blockULID(i int) ulid.ULID {
	var e [10]byte
	e[9], e[8] = byte(i), byte(i>>8)
	var id ulid.ULID
	_ = id.SetTime(uint64(1700000000000 + i))
	_ = id.SetEntropy(e[:])
	return id
}

// writeBlock writes a TSDB block directory holding exactly the given series and chunk ranges.
func writeBlock(dir string, id ulid.ULID, b specBlock) (string, error) {
	bdir := filepath.Join(dir, id.String())
	if err := os.MkdirAll(filepath.Join(bdir, "chunks"), 0o755); err != nil {
		return "", err
	}
	type ser struct {
		lset   labels.Labels
		chunks []specChunk
	}
	sers := make([]ser, len(b.series))
	syms := map[string]struct{}{}
	for i, s := range b.series {
		sers[i] = ser{promLabels(s.lset), s.chunks}
		sers[i].lset.Range(func(l labels.Label) {
			syms[l.Name] = struct{}{}
			syms[l.Value] = struct{}{}
		})
	}
	sort.Slice(sers, func(i, j int) bool { return labels.Compare(sers[i].lset, sers[j].lset) < 0 })
	symList := make([]string, 0, len(syms))
	for s := range syms {
		symList = append(symList, s)
	}
	sort.Strings(symList)

	cw, err := chunks.NewWriter(filepath.Join(bdir, "chunks"))
	if err != nil {
		return "", err
	}
	iw, err := index.NewWriter(context.Background(), filepath.Join(bdir, "index"))
	if err != nil {
		return "", err
	}
	for _, s := range symList {
		if err := iw.AddSymbol(s); err != nil {
			return "", err
		}
	}
	var stats tsdb.BlockStats
	for i, s := range sers {
		metas := make([]chunks.Meta, len(s.chunks))
		for k, c := range s.chunks {
			metas[k] = chunks.Meta{MinTime: c.mint, MaxTime: c.maxt, Chunk: chunkFor(c, b.res)}
			stats.NumSamples += 2
		}
		if err := cw.WriteChunks(metas...); err != nil {
			return "", err
		}
		if err := iw.AddSeries(storage.SeriesRef(i), s.lset, metas...); err != nil {
			return "", fmt.Errorf("add series %s: %w", s.lset, err)
		}
		stats.NumSeries++
		stats.NumChunks += uint64(len(metas))
	}
	if err := iw.Close(); err != nil {
		return "", err
	}
	if err := cw.Close(); err != nil {
		return "", err
	}
	meta := metadata.Meta{
		BlockMeta: tsdb.BlockMeta{
			ULID: id, MinTime: b.mint, MaxTime: b.maxt, Version: 1, Stats: stats,
			Compaction: tsdb.BlockMetaCompaction{Level: 1, Sources: []ulid.ULID{id}},
		},
		Thanos: metadata.Thanos{
			Labels:     promLabels(b.ext).Map(),
			Downsample: metadata.ThanosDownsample{Resolution: b.res},
			Source:     metadata.TestSource,
			IndexStats: metadata.IndexStats{SeriesMaxSize: 512},
		},
	}
	mb, err := json.Marshal(&meta)
	if err != nil {
		return "", err
	}
	if err := os.WriteFile(filepath.Join(bdir, "meta.json"), mb, 0o644); err != nil {
		return "", err
	}
	return bdir, nil
}

// ---------------------------------------------------------------- building stores

// blockQueryable serves one opened block through the Prometheus block querier: the TSDBReader of TSDBStore.
type blockQueryable struct{ b *tsdb.Block }

func (q blockQueryable) ChunkQuerier(mint, maxt int64) (storage.ChunkQuerier, error) {
	return tsdb.NewBlockChunkQuerier(q.b, mint, maxt)
}
func (q blockQueryable) StartTime() (int64, error) { return q.b.MinTime(), nil }

// bucketCfg are the BucketStore settings the answers must not depend on (C10) plus the limits of C09.
type bucketCfg struct {
	lazy        bool   // lazy expanded postings
	batch       int    // series batch size
	sampling    int    // index-header posting offsets sampling
	cache       int    // 0 no index cache, 1 roomy in-memory cache, 2 tiny in-memory cache (evictions)
	gap         uint64 // partitioner max gap
	seriesLimit uint64
	chunksLimit uint64
	maxSeries   uint64 // estimated max series size of the blocks (0 = the store's default, 64 KiB); small values
	// make lazy posting expansion kick in and series be re-fetched
	maxChunk uint64 // estimated max chunk size (0 = default, 16000): small values make chunks be re-fetched
	// request level (not part of the store instance): MaxResolutionWindow and the aggregates asked for
	// (bit i = storepb.Aggr i+1: count, sum, min, max, counter)
	maxRes uint64
	aggrs  uint64
}

func defaultBucketCfg() bucketCfg {
	return bucketCfg{batch: store.SeriesBatchSize, sampling: store.DefaultPostingOffsetInMemorySampling, gap: store.PartitionerMaxGapSize}
}

func (c bucketCfg) String() string {
	l := 0
	if c.lazy {
		l = 1
	}
	return fmt.Sprintf("l%d+b%d+s%d+c%d+g%d+m%d+k%d+sl%d+cl%d+x%d+a%d", l, c.batch, c.sampling, c.cache, c.gap, c.maxSeries, c.maxChunk, c.seriesLimit, c.chunksLimit, c.maxRes, c.aggrs)
}

// storeKey identifies a BucketStore instance: the limits are not part of it (the limiter factories read them
// from the built store at request time, so one instance serves every pair of limits).
func (c bucketCfg) storeKey() string {
	c.seriesLimit, c.chunksLimit, c.maxRes, c.aggrs = 0, 0, 0, 0
	return c.String()
}

func parseBucketCfg(s string) (bucketCfg, error) {
	c := defaultBucketCfg()
	for _, t := range strings.Split(s, "+") {
		if t == "" {
			continue
		}
		var key string
		var val uint64
		i := strings.IndexAny(t, "0123456789")
		if i <= 0 {
			return c, fmt.Errorf("bad cfg %q", t)
		}
		key = t[:i]
		val, err := strconv.ParseUint(t[i:], 10, 64)
		if err != nil {
			return c, err
		}
		switch key {
		case "l":
			c.lazy = val != 0
		case "b":
			c.batch = int(val)
		case "s":
			c.sampling = int(val)
		case "c":
			c.cache = int(val)
		case "g":
			c.gap = val
		case "m":
			c.maxSeries = val
		case "k":
			c.maxChunk = val
		case "x":
			c.maxRes = val
		case "a":
			c.aggrs = val
		case "sl":
			c.seriesLimit = val
		case "cl":
			c.chunksLimit = val
		default:
			return c, fmt.Errorf("bad cfg key %q", key)
		}
	}
	return c, nil
}

type built struct {
	dir      string
	blocks   []specBlock
	bdirs    []string
	opened   []*tsdb.Block
	bkt      objstore.Bucket
	uploaded bool
	// limits of the request being served (read by the limiter factories of every BucketStore of this dataset)
	seriesLimit, chunksLimit uint64
	stores                   map[string]*store.BucketStore // by cfg string
	regs                     map[string]*prometheus.Registry
	tsdbs                    []*store.TSDBStore // one per block (kind tsdb uses the first)
}

func (b *built) close() {
	for _, s := range b.stores {
		_ = s.Close()
	}
	for _, o := range b.opened {
		_ = o.Close()
	}
	_ = os.RemoveAll(b.dir)
}

var (
	builtCache    = map[string]*built{}
	builtOrder    []string
	builtCacheMax = 3
	tempRoot      string
)

func e2eCleanup() {
	for _, b := range builtCache {
		b.close()
	}
	builtCache = map[string]*built{}
	if tempRoot != "" {
		_ = os.RemoveAll(tempRoot)
	}
}

func e2eTempRoot() string {
	if tempRoot == "" {
		// leftovers of killed runs
		if ents, err := os.ReadDir(os.TempDir()); err == nil {
			for _, e := range ents {
				if strings.HasPrefix(e.Name(), "verif-stores-") {
					if fi, err := e.Info(); err == nil && time.Since(fi.ModTime()) > 2*time.Hour {
						_ = os.RemoveAll(filepath.Join(os.TempDir(), e.Name()))
					}
				}
			}
		}
		// tmpfs when there is one: block, index-header and chunk writers fsync a lot
		base := ""
		if fi, err := os.Stat("/dev/shm"); err == nil && fi.IsDir() {
			base = "/dev/shm"
			if ents, err := os.ReadDir(base); err == nil {
				for _, e := range ents {
					if strings.HasPrefix(e.Name(), "verif-stores-") {
						if fi, err := e.Info(); err == nil && time.Since(fi.ModTime()) > 2*time.Hour {
							_ = os.RemoveAll(filepath.Join(base, e.Name()))
						}
					}
				}
			}
		}
		d, err := os.MkdirTemp(base, "verif-stores-")
		if err != nil {
			d, err = os.MkdirTemp("", "verif-stores-")
		}
		if err != nil {
			panic(err)
		}
		tempRoot = d
	}
	return tempRoot
}

// getBuilt writes the blocks of the token (once; a few recent stores are kept) and uploads them.
func getBuilt(tok string) (rb *built, rerr error) {
	if b, ok := builtCache[tok]; ok {
		return b, nil
	}
	blocks, err := parseBlocks(tok)
	if err != nil {
		return nil, err
	}
	defer func() {
		if rerr != nil && os.Getenv("VERIF_DEBUG") != "" {
			fmt.Fprintln(os.Stderr, "getBuilt:", rerr)
		}
	}()
	for len(builtOrder) >= builtCacheMax {
		old := builtOrder[0]
		builtOrder = builtOrder[1:]
		builtCache[old].close()
		delete(builtCache, old)
	}
	dir, err := os.MkdirTemp(e2eTempRoot(), "s")
	if err != nil {
		return nil, err
	}
	b := &built{dir: dir, blocks: blocks, bkt: objstore.NewInMemBucket(), stores: map[string]*store.BucketStore{}, regs: map[string]*prometheus.Registry{}}
	for i, sb := range blocks {
		bdir, err := writeBlock(filepath.Join(dir, "blocks"), blockULID(i), sb)
		if err != nil {
			b.close()
			return nil, fmt.Errorf("write block %d: %w", i, err)
		}
		b.bdirs = append(b.bdirs, bdir)
		ob, err := tsdb.OpenBlock(nil, bdir, downsample.NewPool(), nil)
		if err != nil {
			b.close()
			return nil, fmt.Errorf("open block %d: %w", i, err)
		}
		b.opened = append(b.opened, ob)
		b.tsdbs = append(b.tsdbs, store.NewTSDBStore(log.NewNopLogger(), blockQueryable{ob}, component.Rule, promLabels(sb.ext)))
	}
	builtCache[tok] = b
	builtOrder = append(builtOrder, tok)
	return b, nil
}

func (b *built) bucketStore(cfg bucketCfg) (*store.BucketStore, error) {
	key := cfg.storeKey()
	b.seriesLimit, b.chunksLimit = cfg.seriesLimit, cfg.chunksLimit
	if s, ok := b.stores[key]; ok {
		return s, nil
	}
	if !b.uploaded {
		for i, bdir := range b.bdirs {
			if err := block.Upload(context.Background(), log.NewNopLogger(), b.bkt, bdir, metadata.NoneFunc); err != nil {
				return nil, fmt.Errorf("upload block %d: %w", i, err)
			}
		}
		b.uploaded = true
	}
	dir := filepath.Join(b.dir, "bs-"+strconv.Itoa(len(b.stores)))
	ins := objstore.WithNoopInstr(b.bkt)
	fetcher, err := block.NewMetaFetcher(log.NewNopLogger(), 4, ins, block.NewConcurrentLister(log.NewNopLogger(), ins), dir, nil, nil)
	if err != nil {
		return nil, err
	}
	opts := []store.BucketStoreOption{
		store.WithSeriesBatchSize(cfg.batch),
		store.WithLazyExpandedPostings(cfg.lazy),
	}
	if cfg.lazy {
		opts = append(opts, store.WithSeriesMatchRatio(0.5))
	}
	if cfg.maxSeries > 0 {
		m := cfg.maxSeries
		opts = append(opts, store.WithBlockEstimatedMaxSeriesFunc(func(metadata.Meta) uint64 { return m }))
	}
	if cfg.maxChunk > 0 {
		k := cfg.maxChunk
		opts = append(opts, store.WithBlockEstimatedMaxChunkFunc(func(metadata.Meta) uint64 { return k }))
	}
	reg := prometheus.NewRegistry()
	opts = append(opts, store.WithRegistry(reg))
	b.regs[key] = reg
	switch cfg.cache {
	case 1:
		c, err := storecache.NewInMemoryIndexCacheWithConfig(log.NewNopLogger(), nil, nil, storecache.InMemoryIndexCacheConfig{MaxSize: thanosmodel.Bytes(8 << 20), MaxItemSize: thanosmodel.Bytes(1 << 20)})
		if err != nil {
			return nil, err
		}
		opts = append(opts, store.WithIndexCache(c))
	case 2:
		c, err := storecache.NewInMemoryIndexCacheWithConfig(log.NewNopLogger(), nil, nil, storecache.InMemoryIndexCacheConfig{MaxSize: thanosmodel.Bytes(600), MaxItemSize: thanosmodel.Bytes(300)})
		if err != nil {
			return nil, err
		}
		opts = append(opts, store.WithIndexCache(c))
	}
	s, err := store.NewBucketStore(ins, fetcher, dir,
		func(failed prometheus.Counter) store.ChunksLimiter { return store.NewLimiter(b.chunksLimit, failed) },
		func(failed prometheus.Counter) store.SeriesLimiter { return store.NewLimiter(b.seriesLimit, failed) },
		store.NewBytesLimiterFactory(0),
		store.NewGapBasedPartitioner(cfg.gap), 4, cfg.sampling, false, false, time.Minute, opts...)
	if err != nil {
		return nil, err
	}
	if err := s.SyncBlocks(context.Background()); err != nil {
		_ = s.Close()
		return nil, err
	}
	b.stores[key] = s
	return s, nil
}

// ---------------------------------------------------------------- running requests

type seriesServer struct {
	storepb.Store_SeriesServer
	ctx      context.Context
	frames   []frame
	warnings []string
}

type frame struct {
	lset   labels.Labels
	chunks []respChunk
}

type respChunk struct {
	mint, maxt int64
	id         int
	size       int
	enc        storepb.Chunk_Encoding
	data       string            // copy of the raw chunk bytes
	aggr       map[string]string // aggregated chunk: copies of the aggregates that came back, by name
}

func (s *seriesServer) Context() context.Context { return s.ctx }

func (s *seriesServer) add(sr *storepb.Series) {
	f := frame{lset: labelpb.ZLabelsToPromLabels(sr.Labels).Copy()}
	for _, c := range sr.Chunks {
		rc := respChunk{mint: c.MinTime, maxt: c.MaxTime, id: -9, size: c.Size()}
		if c.Raw != nil {
			rc.id = chunkID(c.Raw.Type, c.Raw.Data)
			rc.enc, rc.data = c.Raw.Type, string(c.Raw.Data)
		}
		for i, a := range []*storepb.Chunk{c.Count, c.Sum, c.Min, c.Max, c.Counter} {
			if a == nil {
				continue
			}
			if rc.aggr == nil {
				rc.aggr = map[string]string{}
			}
			rc.aggr[aggrNames[i]] = string(a.Data)
			if id := chunkID(a.Type, a.Data); id > 0 && rc.id < 0 {
				rc.id = id / (i + 1)
			}
		}
		f.chunks = append(f.chunks, rc)
	}
	s.frames = append(s.frames, f)
}

func (s *seriesServer) Send(r *storepb.SeriesResponse) error {
	if w := r.GetWarning(); w != "" {
		s.warnings = append(s.warnings, w)
		return nil
	}
	if sr := r.GetSeries(); sr != nil {
		s.add(sr)
		return nil
	}
	if b := r.GetBatch(); b != nil {
		for _, sr := range b.Series {
			if sr != nil {
				s.add(sr)
			}
		}
	}
	return nil
}

// canonSeries groups frames by label set (ranks, sorted lexicographically) with the sorted distinct chunk ids.
func canonSeries(frames []frame, skipChunks bool) string {
	type ent struct {
		ranks []specLabel
		ids   map[int]struct{}
	}
	m := map[string]*ent{}
	for _, f := range frames {
		r := ranksOfLabels(f.lset)
		k := showLabels(r)
		e, ok := m[k]
		if !ok {
			e = &ent{ranks: r, ids: map[int]struct{}{}}
			m[k] = e
		}
		for _, c := range f.chunks {
			e.ids[c.id] = struct{}{}
		}
	}
	ents := make([]*ent, 0, len(m))
	for _, e := range m {
		ents = append(ents, e)
	}
	sort.Slice(ents, func(i, j int) bool { return rankLess(ents[i].ranks, ents[j].ranks) })
	out := make([]string, len(ents))
	for i, e := range ents {
		ids := make([]int, 0, len(e.ids))
		for id := range e.ids {
			ids = append(ids, id)
		}
		sort.Ints(ids)
		ss := make([]string, len(ids))
		for j, id := range ids {
			ss[j] = strconv.Itoa(id)
		}
		c := strings.Join(ss, "+")
		if c == "" {
			c = "_"
		}
		out[i] = showLabels(e.ranks) + "=" + c
	}
	return hlib.Join(out, ";")
}

func rankLess(a, b []specLabel) bool {
	for i := 0; i < len(a) && i < len(b); i++ {
		if a[i].n != b[i].n {
			return a[i].n < b[i].n
		}
		if a[i].v != b[i].v {
			return a[i].v < b[i].v
		}
	}
	return len(a) < len(b)
}

func showRanks(tab []string, vals []string) string {
	rs := make([]int, len(vals))
	for i, v := range vals {
		rs[i] = rankOf(tab, v)
	}
	out := make([]string, len(rs))
	for i, r := range rs {
		out[i] = strconv.Itoa(r)
	}
	return hlib.Join(out, ",")
}

func pickInt(r *hlib.Rand, xs ...int) int { return xs[r.Intn(len(xs))] }

// storeCounter reads a counter (summed over its label values) of the BucketStore instance of a configuration.
func (b *built) storeCounter(cfg bucketCfg, name string) float64 {
	reg, ok := b.regs[cfg.storeKey()]
	if !ok {
		return 0
	}
	mfs, err := reg.Gather()
	if err != nil {
		return 0
	}
	var v float64
	for _, mf := range mfs {
		if mf.GetName() == name {
			for _, m := range mf.GetMetric() {
				if m.Counter != nil {
					v += m.Counter.GetValue()
				}
			}
		}
	}
	return v
}
