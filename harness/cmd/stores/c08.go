package main

import (
	"context"
	"fmt"
	"sort"
	"strconv"
	"strings"

	"github.com/cespare/xxhash/v2"
	"github.com/go-kit/log"
	"github.com/prometheus/prometheus/model/labels"
	"github.com/prometheus/prometheus/storage"
	"github.com/prometheus/prometheus/tsdb/chunkenc"
	"github.com/prometheus/prometheus/tsdb/chunks"
	"github.com/prometheus/prometheus/util/annotations"
	"google.golang.org/grpc/codes"
	"google.golang.org/grpc/status"

	"github.com/thanos-io/thanos/pkg/component"
	"github.com/thanos-io/thanos/pkg/store"
	"github.com/thanos-io/thanos/pkg/store/labelpb"
	"github.com/thanos-io/thanos/pkg/store/storepb"
	"github.com/thanos-io/thanos/verifharness/hlib"
)

// C08 — stores present external labels consistently.
//
// ops (encodings in e2e.go; label sets of the lbl.* ops may be malformed: unsorted, repeated names, empty values):
//   lbl.extend <lset> <ext>                 labelpb.ExtendSortedLabels                      -> labels
//   lbl.rm <lset> <names>                   rmLabels                                        -> labels
//   lbl.serve <raw> <ext> <without>         the label completion of TSDBStore.Series (t=) and of
//                                           blockSeriesClient.nextBatch (b=), composed as in the sources  -> t=<labels> b=<labels>
//   frm.split <maxBytes> <lset> <payload lengths> <label sizes> <chunk sizes>
//                                           one series with chunks of the given payload lengths through the real
//                                           TSDBStore.Series with maxBytesPerFrame = maxBytes; sizes are the protobuf
//                                           sizes (inputs of the model, verified against the real ones)
//                                                                                           -> frames `i+i|i|…` of chunk indices
//   st.ext <blocks> <new ext> <start> <end> <matchers> <without> <label>    (c07.go) the TSDB store before and after SetExtLset
//   st.series <kind> <blocks> <mint> <maxt> <matchers> <without> <skip>
//                                           kind = tsdb[+f<maxBytesPerFrame>] (first block, served by TSDBStore) |
//                                                  bkt[+<cfg>] (all blocks, served by BucketStore)
//                                                                                           -> ok <labels>=<chunk ids>;… | invalid | <error enum>
//
// oracle classes (st.series, independent of the model):
//   ext-label-missing / ext-not-overriding   a served series lacks an external label (not dropped) or carries a stored value under its name
//   replica-label-present                    a served series carries a label the request asked to drop
//   labels-not-from-store                    a served label set is not the completion of any stored series
//   labels-unsorted                          a served label set is not strictly sorted by name
//   contradiction-served                     a selector rejects an external label value of the block, yet series of it are served
//   frame-split                              frames of one series do not concatenate to its chunks / an empty frame / labels differ

func init() {
	props = append(props, &hlib.Prop{ID: "C08", Gen: genC08, Exec: execC08})
}

// rawLabels builds a label set exactly as given (no sorting, no de-duplication).
func rawLabels(ls []specLabel) labels.Labels {
	out := make(labels.Labels, 0, len(ls))
	for _, l := range ls {
		out = append(out, labels.Label{Name: nameTab[l.n], Value: valueTab[l.v]})
	}
	return out
}

func nameSet(names []string) map[string]struct{} {
	m := map[string]struct{}{}
	for _, n := range names {
		m[n] = struct{}{}
	}
	return m
}

// ---- frame splitting through the real TSDBStore

type payloadChunk struct{ b []byte }

func (c payloadChunk) Bytes() []byte                                { return c.b }
func (c payloadChunk) Encoding() chunkenc.Encoding                  { return chunkenc.EncXOR }
func (c payloadChunk) Appender() (chunkenc.Appender, error)         { return nil, fmt.Errorf("payload chunk") }
func (c payloadChunk) Iterator(chunkenc.Iterator) chunkenc.Iterator { return chunkenc.NewNopIterator() }
func (c payloadChunk) NumSamples() int                              { return 1 }
func (c payloadChunk) Compact()                                     {}
func (c payloadChunk) Reset([]byte)                                 {}

type oneSeriesReader struct {
	lset  labels.Labels
	metas []chunks.Meta
}

func (r oneSeriesReader) StartTime() (int64, error) { return 0, nil }
func (r oneSeriesReader) ChunkQuerier(_, _ int64) (storage.ChunkQuerier, error) {
	return oneSeriesQuerier{r}, nil
}

type oneSeriesQuerier struct{ r oneSeriesReader }

func (q oneSeriesQuerier) LabelValues(context.Context, string, *storage.LabelHints, ...*labels.Matcher) ([]string, annotations.Annotations, error) {
	return nil, nil, nil
}
func (q oneSeriesQuerier) LabelNames(context.Context, *storage.LabelHints, ...*labels.Matcher) ([]string, annotations.Annotations, error) {
	return nil, nil, nil
}
func (q oneSeriesQuerier) Close() error { return nil }
func (q oneSeriesQuerier) Select(context.Context, bool, *storage.SelectHints, ...*labels.Matcher) storage.ChunkSeriesSet {
	return &oneSeriesSet{s: &storage.ChunkSeriesEntry{Lset: q.r.lset, ChunkIteratorFn: func(chunks.Iterator) chunks.Iterator {
		return storage.NewListChunkSeriesIterator(q.r.metas...)
	}}}
}

type oneSeriesSet struct {
	s    storage.ChunkSeries
	done bool
}

func (s *oneSeriesSet) Next() bool {
	if s.done {
		return false
	}
	s.done = true
	return true
}
func (s *oneSeriesSet) At() storage.ChunkSeries           { return s.s }
func (s *oneSeriesSet) Err() error                        { return nil }
func (s *oneSeriesSet) Warnings() annotations.Annotations { return nil }

func payloadOf(i, n int) []byte {
	b := make([]byte, n)
	for k := range b {
		b[k] = byte(i*31 + k)
	}
	return b
}

// frameSizes gives the protobuf sizes TSDBStore.Series subtracts: per label and per chunk.
func frameSizes(lset labels.Labels, payloadLens []int) (lsz, csz []int64) {
	for _, l := range labelpb.ZLabelsFromPromLabels(lset) {
		lsz = append(lsz, int64(l.Size()))
	}
	for i, n := range payloadLens {
		data := payloadOf(i, n)
		c := storepb.AggrChunk{MinTime: int64(i) * 10, MaxTime: int64(i)*10 + 5,
			Raw: &storepb.Chunk{Type: storepb.Chunk_XOR, Data: data, Hash: xxhash.Sum64(data)}}
		csz = append(csz, int64(c.Size()))
	}
	return lsz, csz
}

func execFrmSplit(c *hlib.Ctx, tok []string) string {
	if len(tok) != 6 {
		return "bad-op"
	}
	maxBytes, e1 := strconv.Atoi(tok[1])
	ls, e2 := parseLabels(tok[2])
	if e1 != nil || e2 != nil || len(ls) == 0 {
		return "bad-op"
	}
	var lens []int
	for _, v := range hlib.ParseInts(tok[3], ",") {
		lens = append(lens, int(v))
	}
	lset := promLabels(ls)
	lsz, csz := frameSizes(lset, lens)
	if hlib.Ints(lsz, ",") != tok[4] || hlib.Ints(csz, ",") != tok[5] {
		return "bad-op" // the sizes in the line are not the real protobuf sizes
	}
	metas := make([]chunks.Meta, len(lens))
	for i, n := range lens {
		metas[i] = chunks.Meta{MinTime: int64(i) * 10, MaxTime: int64(i)*10 + 5, Chunk: payloadChunk{payloadOf(i, n)}}
	}
	st := store.NewTSDBStore(log.NewNopLogger(), oneSeriesReader{lset, metas}, component.Rule, labels.EmptyLabels())
	store.VerifStoresSetMaxBytesPerFrame(st, maxBytes)
	srv := &seriesServer{ctx: context.Background()}
	err := st.Series(&storepb.SeriesRequest{MinTime: 0, MaxTime: 1 << 40,
		Matchers: []storepb.LabelMatcher{{Type: storepb.LabelMatcher_NEQ, Name: "nonexistent", Value: "x"}}}, srv)
	if err != nil {
		return "err:" + status.Code(err).String()
	}
	// frames as lists of chunk indices (MinTime/10).  TSDBStore.Series sends through resortingServer, whose
	// slices.SortFunc (not stable) may permute the frames of one series: frames are put back in order of their
	// first chunk (counted), the content of each frame is what is compared.
	fr := append([]frame(nil), srv.frames...)
	sort.SliceStable(fr, func(i, j int) bool {
		return len(fr[i].chunks) > 0 && len(fr[j].chunks) > 0 && fr[i].chunks[0].mint < fr[j].chunks[0].mint
	})
	for i := range fr {
		if len(fr[i].chunks) > 0 && len(srv.frames[i].chunks) > 0 && fr[i].chunks[0].mint != srv.frames[i].chunks[0].mint {
			c.Count("frm:frames-reordered-by-resorting-server")
			break
		}
	}
	var frames []string
	var all []int
	for _, f := range fr {
		if !labels.Equal(f.lset, lset) {
			c.Violation("frame-split", "a frame carries other labels than the series")
		}
		if len(f.chunks) == 0 {
			c.Violation("frame-split", "empty frame")
		}
		idx := make([]string, len(f.chunks))
		for i, ch := range f.chunks {
			k := int(ch.mint / 10)
			idx[i] = strconv.Itoa(k)
			all = append(all, k)
			if k < len(csz) && int64(ch.size) != csz[k] {
				return "bad-op"
			}
		}
		frames = append(frames, strings.Join(idx, "+"))
	}
	for i, k := range all {
		if i != k {
			c.Violation("frame-split", fmt.Sprintf("frames do not concatenate to the chunks: %v", all))
			break
		}
	}
	if len(all) != len(lens) {
		c.Violation("frame-split", fmt.Sprintf("%d chunks in, %d out", len(lens), len(all)))
	}
	return hlib.Join(frames, "|")
}

// ---- st.series

func errEnum(err error) string {
	switch status.Code(err) {
	case codes.InvalidArgument:
		return "invalid"
	case codes.ResourceExhausted:
		return "exhausted"
	case codes.Aborted:
		return "aborted"
	case codes.Internal:
		return "internal"
	case codes.Unknown:
		return "unknown"
	}
	return "err-" + status.Code(err).String()
}

type stReq struct {
	kind            string
	cfgTok          string
	b               *built
	mint, maxt      int64
	ms              []specMatcher
	pms             []*labels.Matcher
	sms             []storepb.LabelMatcher
	without         []string
	skip            bool
	maxBytesPerFram int
}

func parseStReq(tok []string) (*stReq, bool) {
	// tok: op kind blocks mint maxt matchers without [...]
	if len(tok) < 7 {
		return nil, false
	}
	r := &stReq{}
	k := strings.SplitN(tok[1], "+", 2)
	r.kind = k[0]
	if len(k) == 2 {
		r.cfgTok = k[1]
	}
	if r.kind != "tsdb" && r.kind != "bkt" {
		return nil, false
	}
	b, err := getBuilt(tok[2])
	if err != nil || len(b.blocks) == 0 {
		return nil, false
	}
	r.b = b
	var e1, e2 error
	r.mint, e1 = strconv.ParseInt(tok[3], 10, 64)
	r.maxt, e2 = strconv.ParseInt(tok[4], 10, 64)
	if e1 != nil || e2 != nil {
		return nil, false
	}
	if r.ms, r.pms, r.sms, err = parseMatchers(tok[5]); err != nil {
		return nil, false
	}
	if r.without, err = parseNames(tok[6]); err != nil {
		return nil, false
	}
	return r, true
}

func (r *stReq) series(skip bool) (*seriesServer, error, bool) {
	req := &storepb.SeriesRequest{MinTime: r.mint, MaxTime: r.maxt, Matchers: r.sms, WithoutReplicaLabels: r.without,
		SkipChunks: skip, MaxResolutionWindow: 0, PartialResponseStrategy: storepb.PartialResponseStrategy_ABORT}
	srv := &seriesServer{ctx: context.Background()}
	switch r.kind {
	case "tsdb":
		st := r.b.tsdbs[0]
		fb := store.RemoteReadFrameLimit
		if strings.HasPrefix(r.cfgTok, "f") {
			n, err := strconv.Atoi(r.cfgTok[1:])
			if err != nil {
				return nil, nil, false
			}
			fb = n
		}
		store.VerifStoresSetMaxBytesPerFrame(st, fb)
		return srv, st.Series(req, srv), true
	default:
		cfg, err := parseBucketCfg(r.cfgTok)
		if err != nil {
			return nil, nil, false
		}
		bs, err := r.b.bucketStore(cfg)
		if err != nil {
			return nil, nil, false
		}
		req.MaxResolutionWindow = int64(cfg.maxRes)
		for i := 0; i < 5; i++ {
			if cfg.aggrs&(1<<i) != 0 {
				req.Aggregates = append(req.Aggregates, storepb.Aggr(i+1))
			}
		}
		return srv, bs.Series(req, srv), true
	}
}

// expectedLabelSets: the completion of every stored series of the blocks the request can reach, computed with a map
// (external labels override, replica labels dropped) — independent of ExtendSortedLabels/rmLabels and of the model.
func (r *stReq) expectedLabelSets() map[string]int {
	out := map[string]int{}
	blocks := r.b.blocks
	if r.kind == "tsdb" {
		blocks = blocks[:1]
	}
	drop := nameSet(r.without)
	for _, b := range blocks {
		for _, s := range b.series {
			m := map[string]string{}
			for _, l := range s.lset {
				m[nameTab[l.n]] = valueTab[l.v]
			}
			for _, l := range b.ext {
				if valueTab[l.v] == "" {
					delete(m, nameTab[l.n])
				} else {
					m[nameTab[l.n]] = valueTab[l.v]
				}
			}
			for n := range drop {
				delete(m, n)
			}
			out[labels.FromMap(m).String()]++
		}
	}
	return out
}

func execStSeries(c *hlib.Ctx, tok []string) string {
	if len(tok) != 8 {
		return "bad-op"
	}
	r, ok := parseStReq(tok)
	if !ok {
		return "bad-op"
	}
	skip := tok[7] == "1"
	srv, err, ok := r.series(skip)
	if !ok {
		return "bad-op"
	}
	if err != nil {
		return errEnum(err)
	}
	if len(srv.warnings) > 0 {
		return "warning"
	}
	// ---- oracle
	want := r.expectedLabelSets()
	drop := nameSet(r.without)
	blocks := r.b.blocks
	if r.kind == "tsdb" {
		blocks = blocks[:1]
	}
	for _, f := range srv.frames {
		var prev string
		first := true
		sorted := true
		f.lset.Range(func(l labels.Label) {
			if !first && l.Name <= prev {
				sorted = false
			}
			prev, first = l.Name, false
			if _, bad := drop[l.Name]; bad {
				c.Violation("replica-label-present", fmt.Sprintf("series %s carries dropped label %s", f.lset, l.Name))
			}
		})
		if !sorted {
			c.Violation("labels-unsorted", fmt.Sprintf("series %s", f.lset))
		}
		if _, ok := want[f.lset.String()]; !ok {
			c.Violation("labels-not-from-store", fmt.Sprintf("series %s is not the completion of a stored series", f.lset))
		}
		// the external labels of some block must all be on the series
		carries := false
		for _, b := range blocks {
			all := true
			for _, l := range b.ext {
				if _, d := drop[nameTab[l.n]]; d || l.v == 0 {
					continue
				}
				if f.lset.Get(nameTab[l.n]) != valueTab[l.v] {
					all = false
				}
			}
			if all {
				carries = true
			}
		}
		if !carries {
			c.Violation("ext-label-missing", fmt.Sprintf("series %s carries the external labels of no block", f.lset))
		}
	}
	// contradiction: when every reachable block has an external label that some selector rejects, nothing is served
	contradicted := true
	for _, b := range blocks {
		ext := promLabels(b.ext)
		rej := false
		for _, m := range r.pms {
			if v := ext.Get(m.Name); v != "" && !m.Matches(v) {
				rej = true
			}
		}
		if !rej {
			contradicted = false
		}
	}
	if contradicted && len(srv.frames) > 0 {
		c.Violation("contradiction-served", fmt.Sprintf("%d series although the selectors reject the external labels of every block", len(srv.frames)))
	}
	// frames (TSDB store): none is empty and frames with equal labels are adjacent.  Their order is not asserted:
	// resortingServer sorts the frames by labels with slices.SortFunc, which may permute the frames of one series
	// (observed with more than 12 frames; counted).  Consumers merge and re-sort the chunks of equal label sets.
	if r.kind == "tsdb" && !skip {
		closed := map[string]bool{}
		for i, f := range srv.frames {
			if len(f.chunks) == 0 {
				c.Violation("frame-split", "empty frame")
			}
			k := f.lset.String()
			if i > 0 && !labels.Equal(srv.frames[i-1].lset, f.lset) {
				closed[srv.frames[i-1].lset.String()] = true
			}
			if closed[k] {
				c.Violation("frame-split", fmt.Sprintf("frames of %s are not adjacent", f.lset))
			}
			if i > 0 && labels.Equal(srv.frames[i-1].lset, f.lset) && want[k] == 1 &&
				len(srv.frames[i-1].chunks) > 0 && len(f.chunks) > 0 && srv.frames[i-1].chunks[0].mint > f.chunks[0].mint {
				c.Count("st:frames-of-one-series-reordered")
			}
		}
	}
	return "ok " + canonSeries(srv.frames, skip)
}

func execC08(c *hlib.Ctx, tok []string) string {
	if len(tok) == 0 {
		return "bad-op"
	}
	switch tok[0] {
	case "lbl.extend":
		if len(tok) != 3 {
			return "bad-op"
		}
		a, e1 := parseLabels(tok[1])
		b, e2 := parseLabels(tok[2])
		if e1 != nil || e2 != nil {
			return "bad-op"
		}
		return showLabels(ranksOfLabels(labelpb.ExtendSortedLabels(rawLabels(a), rawLabels(b))))
	case "lbl.rm":
		if len(tok) != 3 {
			return "bad-op"
		}
		a, e1 := parseLabels(tok[1])
		ns, e2 := parseNames(tok[2])
		if e1 != nil || e2 != nil {
			return "bad-op"
		}
		return showLabels(ranksOfLabels(store.VerifStoresRmLabels(rawLabels(a), nameSet(ns))))
	case "lbl.serve":
		if len(tok) != 4 {
			return "bad-op"
		}
		raw, e1 := parseLabels(tok[1])
		ext, e2 := parseLabels(tok[2])
		ns, e3 := parseNames(tok[3])
		if e1 != nil || e2 != nil || e3 != nil {
			return "bad-op"
		}
		// TSDBStore.Series (tsdb.go): extLsetToRemove is always a map; finalExtLset := rmLabels(ext.Copy(), extLsetToRemove);
		// completeLabelset := ExtendSortedLabels(rmLabels(series.Labels(), extLsetToRemove), finalExtLset)
		rm := nameSet(ns)
		t := labelpb.ExtendSortedLabels(store.VerifStoresRmLabels(rawLabels(raw), rm), store.VerifStoresRmLabels(rawLabels(ext).Copy(), rm))
		// BucketStore (bucket.go): extLsetToRemove is nil without replica labels; newBlockSeriesClient: extLset = rmLabels(ext.Copy(), R)
		// when R != nil; nextBatch: completeLabelset := ExtendSortedLabels(lset, extLset); if R != nil: rmLabels(completeLabelset, R)
		var bl labels.Labels
		if len(ns) == 0 {
			bl = labelpb.ExtendSortedLabels(rawLabels(raw), rawLabels(ext))
		} else {
			bl = store.VerifStoresRmLabels(labelpb.ExtendSortedLabels(rawLabels(raw), store.VerifStoresRmLabels(rawLabels(ext).Copy(), rm)), rm)
		}
		return "t=" + showLabels(ranksOfLabels(t)) + " b=" + showLabels(ranksOfLabels(bl))
	case "frm.split":
		return execFrmSplit(c, tok)
	case "st.series":
		return execStSeries(c, tok)
	case "st.ext":
		return execStExt(c, tok)
	}
	return "bad-op"
}

// ---------------------------------------------------------------- generators

// genLabelSet: a well-formed label set (strictly sorted names, non-empty values) with `n` labels out of `pool`.
func genLabelSet(r *hlib.Rand, pool []int, n int) []specLabel {
	p := r.Perm(len(pool))
	if n > len(pool) {
		n = len(pool)
	}
	names := make([]int, n)
	for i := 0; i < n; i++ {
		names[i] = pool[p[i]]
	}
	sort.Ints(names)
	out := make([]specLabel, n)
	for i, nm := range names {
		out[i] = specLabel{nm, r.Range(1, len(valueTab)-1)}
	}
	return out
}

func genNames(r *hlib.Rand, pool []int, max int) string {
	n := r.Intn(max + 1)
	p := r.Perm(len(pool))
	var out []string
	for i := 0; i < n && i < len(pool); i++ {
		out = append(out, strconv.Itoa(pool[p[i]]))
	}
	return hlib.Join(out, ",")
}

var allNameRanks = []int{1, 2, 3, 4, 5, 6, 7, 8, 9, 10, 11, 12}

func genC08Pure(c *hlib.Ctx, n int) {
	r := c.R
	for i := 0; i < n; i++ {
		lset := genLabelSet(r, allNameRanks, r.Intn(7))
		ext := genLabelSet(r, allNameRanks, r.Intn(4))
		kind := "wellformed"
		switch r.Intn(10) {
		case 0: // external label with an empty value (deletes)
			if len(ext) > 0 {
				ext[r.Intn(len(ext))].v = 0
				kind = "ext-empty-value"
			}
		case 1: // stored label with an empty value
			if len(lset) > 0 {
				lset[r.Intn(len(lset))].v = 0
				kind = "lset-empty-value"
			}
		case 2: // unsorted stored labels (few, so that the sort of equal names cannot differ)
			if len(lset) > 1 {
				lset[0], lset[len(lset)-1] = lset[len(lset)-1], lset[0]
				kind = "lset-unsorted"
			}
		}
		collide := false
		for _, e := range ext {
			for _, l := range lset {
				if e.n == l.n {
					collide = true
				}
			}
		}
		c.Count("lbl:" + kind)
		if collide {
			c.Count("lbl:collision")
		}
		c.Do(fmt.Sprintf("lbl.extend %s %s", showLabels(lset), showLabels(ext)), true)
		wo := genNames(r, allNameRanks, 3)
		c.Do(fmt.Sprintf("lbl.rm %s %s", showLabels(lset), wo), true)
		c.Do(fmt.Sprintf("lbl.serve %s %s %s", showLabels(lset), showLabels(ext), wo), true)
	}
}

func genFrmSplit(c *hlib.Ctx, n int) {
	r := c.R
	for i := 0; i < n; i++ {
		ls := genLabelSet(r, allNameRanks, r.Range(1, 4))
		nch := r.Intn(9)
		if r.Chance(1, 10) {
			nch = r.Range(20, 40)
		}
		lens := make([]int, nch)
		for k := range lens {
			switch r.Intn(4) {
			case 0:
				lens[k] = r.Range(1, 5)
			case 1:
				lens[k] = r.Range(100, 300)
			default:
				lens[k] = r.Range(10, 60)
			}
		}
		lsz, csz := frameSizes(promLabels(ls), lens)
		var lsum, csum int64
		for _, x := range lsz {
			lsum += x
		}
		for _, x := range csz {
			csum += x
		}
		var maxBytes int64
		switch r.Intn(6) {
		case 0:
			maxBytes = 1
			c.Count("frm:budget-below-labels")
		case 1:
			maxBytes = lsum + int64(r.Range(0, 2))
			c.Count("frm:budget-about-zero")
		case 2:
			maxBytes = 1 << 20
			c.Count("frm:one-frame")
		case 3:
			if nch > 0 {
				maxBytes = lsum + csz[0] + int64(r.Range(-1, 1))
			}
			c.Count("frm:first-chunk-boundary")
		default:
			maxBytes = lsum + int64(r.Intn(int(csum)+2))
			c.Count("frm:random")
		}
		il := make([]int64, len(lens))
		for k, x := range lens {
			il[k] = int64(x)
		}
		c.Count(fmt.Sprintf("frm:chunks-%s", bucketCount(nch)))
		c.Do(fmt.Sprintf("frm.split %d %s %s %s %s", maxBytes, showLabels(ls), hlib.Ints(il, ","), hlib.Ints(lsz, ","), hlib.Ints(csz, ",")), nch > 0)
	}
}

// ---- stores for st.* ops

type storeGen struct {
	r          *hlib.Rand
	nextChunk  int
	storedPool []int // names stored series may use
	extPool    []int // names external labels may use (overlaps storedPool: collisions)
}

func (g *storeGen) genSeries(n int, tmin, tmax int64) []specSeries {
	r := g.r
	seen := map[string]bool{}
	var out []specSeries
	for len(out) < n {
		ls := genLabelSet(r, g.storedPool[1:], r.Range(0, 3))
		// most series have a metric name
		if r.Chance(9, 10) {
			ls = append([]specLabel{{nameRankMetric, r.Range(7, 9)}}, ls...)
		}
		if len(ls) == 0 {
			continue
		}
		// few distinct values per name keeps selectors selective but not empty
		for i := range ls {
			if ls[i].n != nameRankMetric {
				ls[i].v = pickInt(r, 1, 3, 5, 6, 11)
			}
		}
		k := showLabels(ls)
		if seen[k] {
			if len(seen) > 200 {
				break
			}
			continue
		}
		seen[k] = true
		var cs []specChunk
		nch := pickInt(r, 1, 1, 2, 3, 5)
		if r.Chance(1, 12) {
			nch = 0
		}
		t := tmin + r.I64Range(0, (tmax-tmin)/2)
		for c := 0; c < nch && t < tmax; c++ {
			w := r.I64Range(0, (tmax-tmin)/4)
			if t+w >= tmax {
				w = tmax - 1 - t
			}
			g.nextChunk++
			cs = append(cs, specChunk{t, t + w, g.nextChunk})
			t += w + r.I64Range(1, 30)
		}
		out = append(out, specSeries{ls, cs})
	}
	return out
}

func (g *storeGen) genBlocks(nb, maxSeries, minExt int) []specBlock {
	r := g.r
	var exts [][]specLabel
	for i, n := 0, r.Range(1, 2); i < n; i++ {
		e := genLabelSet(r, g.extPool, r.Range(minExt, 3))
		exts = append(exts, e)
	}
	var out []specBlock
	t := int64(r.Range(0, 50))
	for i := 0; i < nb; i++ {
		w := int64(r.Range(20, 200))
		b := specBlock{ext: exts[r.Intn(len(exts))], mint: t, maxt: t + w}
		b.series = g.genSeries(r.Range(1, maxSeries), b.mint, b.maxt)
		out = append(out, b)
		switch r.Intn(4) {
		case 0: // overlapping next block
			t += w / 2
		case 1: // gap
			t += w + int64(r.Range(1, 50))
		default:
			t += w
		}
	}
	return out
}

func (g *storeGen) genMatchers(blocks []specBlock) []specMatcher {
	r := g.r
	n := pickInt(r, 1, 1, 2, 2, 3)
	if r.Chance(1, 15) {
		n = 0
	}
	// values that occur under a name (stored or external): equality matchers mostly ask for those
	present := map[int][]int{}
	for _, b := range blocks {
		for _, l := range b.ext {
			present[l.n] = append(present[l.n], l.v)
		}
		for _, s := range b.series {
			for _, l := range s.lset {
				present[l.n] = append(present[l.n], l.v)
			}
		}
	}
	var out []specMatcher
	for i := 0; i < n; i++ {
		var name int
		switch r.Intn(4) {
		case 0:
			name = nameRankMetric
		case 1:
			name = g.extPool[r.Intn(len(g.extPool))]
		default:
			name = g.storedPool[r.Intn(len(g.storedPool))]
		}
		typ := r.Intn(4)
		var pat string
		if typ <= 1 {
			pat = valueTab[r.Intn(len(valueTab))]
			if vs := present[name]; len(vs) > 0 && r.Chance(3, 4) {
				pat = valueTab[vs[r.Intn(len(vs))]]
			}
		} else {
			pat = r.Pick([]string{".*", ".+", "", "a|b", "foo|bar|prod", "a.*", "[ab]+", "a\\.b", "(foo|0)?", "z\\|y|1", "é|a", "x", ".*a.*", "foo|bar", "b|é|0"})
			if typ == 3 && r.Chance(1, 2) {
				pat = r.Pick([]string{"x", "a\\.b", "prod", "1|é", ""})
			}
		}
		m, err := mkMatcher(typ, name, pat)
		if err != nil {
			continue
		}
		out = append(out, specMatcher{typ, name, pat, matcherVals(m)})
	}
	return out
}

func stSeriesLine(kind string, blocks []specBlock, mint, maxt int64, ms []specMatcher, without string, skip bool) string {
	s := 0
	if skip {
		s = 1
	}
	return fmt.Sprintf("st.series %s %s %d %d %s %s %d", kind, showBlocks(blocks), mint, maxt, showMatchers(ms), without, s)
}

func genRange(r *hlib.Rand, blocks []specBlock) (int64, int64) {
	lo, hi := blocks[0].mint, blocks[0].maxt
	for _, b := range blocks {
		if b.mint < lo {
			lo = b.mint
		}
		if b.maxt > hi {
			hi = b.maxt
		}
	}
	switch r.Intn(8) {
	case 0:
		return lo - 10, hi + 10
	case 1:
		t := r.I64Range(lo, hi)
		return t, t
	case 2, 3, 4: // on block and chunk boundaries (half-open block ranges, closed query ranges): both ends are one of
		// MinTime, MaxTime, MaxTime-1, MinTime-1 of a block, the first/last timestamp of a chunk or one next to it;
		// a third of these are point ranges; adjacent blocks share MaxTime = MinTime
		pick := func() int64 {
			b := blocks[r.Intn(len(blocks))]
			cands := []int64{b.mint, b.maxt, b.maxt - 1, b.mint - 1}
			if len(b.series) > 0 {
				if s := b.series[r.Intn(len(b.series))]; len(s.chunks) > 0 {
					c := s.chunks[r.Intn(len(s.chunks))]
					cands = append(cands, c.mint, c.maxt, c.mint-1, c.maxt+1)
				}
			}
			return cands[r.Intn(len(cands))]
		}
		a, b := pick(), pick()
		if r.Chance(1, 3) {
			b = a
		}
		if a > b {
			a, b = b, a
		}
		return a, b
	default:
		a := r.I64Range(lo-5, hi)
		return a, a + r.I64Range(0, hi-lo)
	}
}

func genC08Stores(c *hlib.Ctx, nStores, nReq int) {
	r := c.R
	for i := 0; i < nStores; i++ {
		g := &storeGen{r: r, storedPool: []int{1, 2, 4, 5, 7, 9, 11}, extPool: []int{5, 6, 9, 11}}
		kind := "tsdb"
		nb, minExt := 1, 0
		if r.Bool() {
			kind = "bkt" // block.Upload refuses blocks without external labels
			nb, minExt = r.Range(1, 3), 1
		}
		blocks := g.genBlocks(nb, 12, minExt)
		if kind == "tsdb" {
			genStExt(c, g, blocks, c.N(6, 12)) // external labels replaced at runtime
		}
		for q := 0; q < nReq; q++ {
			ms := g.genMatchers(blocks)
			mint, maxt := genRange(r, blocks)
			without := genNames(r, []int{5, 6, 9, 11, 2}, 2)
			k := kind
			if kind == "tsdb" {
				k = fmt.Sprintf("tsdb+f%d", pickInt(r, 1, 64, 200, 1<<20, 1<<20))
			}
			c.Count("st:" + kind)
			if without != "-" {
				c.Count("st:without-replica")
			}
			ans := c.Do(stSeriesLine(k, blocks, mint, maxt, ms, without, r.Chance(1, 6)), true)
			switch {
			case ans == "ok -":
				c.Count("st:answer-empty")
			case strings.HasPrefix(ans, "ok"):
				c.Count("st:answer-series")
			default:
				c.Count("st:answer-" + ans)
			}
		}
	}
}

func genC08(c *hlib.Ctx) {
	genC08Pure(c, c.N(2000, 100000))
	genFrmSplit(c, c.N(1500, 60000))
	genC08Stores(c, c.N(16, 500), c.N(40, 80)) // writing a block costs 0.1-0.4 s, a request ~1 ms
}
