package main

import (
	"context"
	"fmt"
	"sort"
	"strconv"
	"strings"
	"time"

	"github.com/go-kit/log"
	"github.com/prometheus/prometheus/model/labels"
	"go.uber.org/atomic"

	"github.com/thanos-io/thanos/pkg/component"
	"github.com/thanos-io/thanos/pkg/info/infopb"
	"github.com/thanos-io/thanos/pkg/store"
	"github.com/thanos-io/thanos/pkg/store/storepb"
	"github.com/thanos-io/thanos/verifharness/hlib"
)

// C07 — label name/value APIs cover every label seen by Series.
//
// ops (stores and encodings as in e2e.go / c08.go):
//   st.names  <kind> <blocks> <start> <end> <matchers> <without>            LabelNames  -> ok <name ranks> | <error enum>
//   st.values <kind> <blocks> <start> <end> <matchers> <without> <label>    LabelValues -> ok <value ranks> | invalid | <error enum>
//
//   st.ext <blocks> <new ext> <start> <end> <matchers> <without> <label>   a fresh TSDBStore answers Series, LabelNames and
//                              LabelValues, its external labels are replaced (SetExtLset) and it answers again
//   px.series <blocks> <mint> <maxt> <matchers> <without> <skip>       the same three calls through a ProxyStore (no selector
//   px.names  <blocks> <start> <end> <matchers> <without>              labels, partial response ABORT) in front of the TSDBStore of
//   px.values <blocks> <start> <end> <matchers> <without> <label>      the first block and the BucketStore of all blocks
//
// oracle (on the implementation; the Series call with the same selectors, range and replica labels is made next to
// the label call):
//   name-missing      a label name on a series returned by Series is not in the LabelNames answer
//   value-missing     a value of <label> on a series returned by Series is not in the LabelValues answer
//   not-sorted        the answer is not sorted (LabelValues: not strictly sorted)
//   dropped-label-listed   LabelValues answers for a label the request asked to drop
// (supersets are allowed by the property and are only counted)

func init() {
	props = append(props, &hlib.Prop{ID: "C07", Gen: genC07, Exec: execC07})
}

func (r *stReq) labelNames() ([]string, error, bool) {
	req := &storepb.LabelNamesRequest{Start: r.mint, End: r.maxt, Matchers: r.sms, WithoutReplicaLabels: r.without}
	switch r.kind {
	case "tsdb":
		resp, err := r.b.tsdbs[0].LabelNames(context.Background(), req)
		if err != nil {
			return nil, err, true
		}
		return resp.Names, nil, true
	default:
		cfg, err := parseBucketCfg(r.cfgTok)
		if err != nil {
			return nil, nil, false
		}
		bs, err := r.b.bucketStore(cfg)
		if err != nil {
			return nil, nil, false
		}
		resp, err := bs.LabelNames(context.Background(), req)
		if err != nil {
			return nil, err, true
		}
		return resp.Names, nil, true
	}
}

func (r *stReq) labelValues(label string) ([]string, error, bool) {
	req := &storepb.LabelValuesRequest{Label: label, Start: r.mint, End: r.maxt, Matchers: r.sms, WithoutReplicaLabels: r.without}
	switch r.kind {
	case "tsdb":
		resp, err := r.b.tsdbs[0].LabelValues(context.Background(), req)
		if err != nil {
			return nil, err, true
		}
		return resp.Values, nil, true
	default:
		cfg, err := parseBucketCfg(r.cfgTok)
		if err != nil {
			return nil, nil, false
		}
		bs, err := r.b.bucketStore(cfg)
		if err != nil {
			return nil, nil, false
		}
		resp, err := bs.LabelValues(context.Background(), req)
		if err != nil {
			return nil, err, true
		}
		return resp.Values, nil, true
	}
}

// ---- external labels replaced at runtime (TSDBStore.SetExtLset: receive does it on a hashring reload)

// execStExt: st.ext <blocks> <new ext> <mint> <maxt> <matchers> <without> <label>
//
//	a FRESH TSDBStore over the first block, created with the block's external labels, answers Series (labels only),
//	LabelNames and LabelValues(label); then SetExtLset(new ext) and the same three calls again
//	-> `<series> # <names> # <values> | <series> # <names> # <values>`
//
// oracle: the inclusion (C07) and the label completion (C08) after the update, against the CURRENT external labels.
func execStExt(c *hlib.Ctx, tok []string) string {
	if len(tok) != 8 {
		return "bad-op"
	}
	r, ok := parseStReq([]string{tok[0], "tsdb", tok[1], tok[3], tok[4], tok[5], tok[6]})
	newExt, err := parseLabels(tok[2])
	ln, err2 := strconv.Atoi(tok[7])
	if !ok || err != nil || err2 != nil || ln < 1 || ln >= len(nameTab) {
		return "bad-op"
	}
	label := nameTab[ln]
	st := store.NewTSDBStore(log.NewNopLogger(), blockQueryable{r.b.opened[0]}, component.Rule, promLabels(r.b.blocks[0].ext))
	ctx := context.Background()
	drop := nameSet(r.without)
	round := func(ext labels.Labels, tag string) string {
		srv := &seriesServer{ctx: ctx}
		serr := st.Series(&storepb.SeriesRequest{MinTime: r.mint, MaxTime: r.maxt, Matchers: r.sms, WithoutReplicaLabels: r.without, SkipChunks: true}, srv)
		sAns := ""
		if serr != nil {
			sAns = errEnum(serr)
		} else {
			sAns = "ok " + canonSeries(srv.frames, true)
		}
		nresp, nerr := st.LabelNames(ctx, &storepb.LabelNamesRequest{Start: r.mint, End: r.maxt, Matchers: r.sms, WithoutReplicaLabels: r.without})
		nAns := ""
		var names []string
		if nerr != nil {
			nAns = errEnum(nerr)
		} else {
			names = nresp.Names
			nAns = "ok " + showRanks(nameTab, names)
		}
		vresp, verr := st.LabelValues(ctx, &storepb.LabelValuesRequest{Label: label, Start: r.mint, End: r.maxt, Matchers: r.sms, WithoutReplicaLabels: r.without})
		vAns := ""
		var vals []string
		if verr != nil {
			vAns = errEnum(verr)
		} else {
			vals = vresp.Values
			vAns = "ok " + showRanks(valueTab, vals)
		}
		if serr == nil {
			hn, hv := nameSet(names), nameSet(vals)
			for _, f := range srv.frames {
				for _, l := range f.lset {
					if _, ok := hn[l.Name]; !ok && nerr == nil {
						c.Violation("name-missing", fmt.Sprintf("%s: series %s is returned by Series, LabelNames answers %v", tag, f.lset, names))
					}
					if _, d := drop[l.Name]; d {
						c.Violation("replica-label-present", fmt.Sprintf("%s: series %s carries dropped label %s", tag, f.lset, l.Name))
					}
				}
				if v := f.lset.Get(label); v != "" && verr == nil {
					if _, ok := hv[v]; !ok {
						c.Violation("value-missing", fmt.Sprintf("%s: series %s is returned by Series, LabelValues(%s) answers %v", tag, f.lset, label, vals))
					}
				}
				// the current external labels (not dropped) are on every series
				ext.Range(func(l labels.Label) {
					if _, d := drop[l.Name]; !d && f.lset.Get(l.Name) != l.Value {
						c.Violation("ext-label-missing", fmt.Sprintf("%s: series %s does not carry the current external label %s=%q", tag, f.lset, l.Name, l.Value))
					}
				})
			}
		}
		return sAns + " # " + nAns + " # " + vAns
	}
	a := round(promLabels(r.b.blocks[0].ext), "before SetExtLset")
	st.SetExtLset(promLabels(newExt))
	b := round(promLabels(newExt), "after SetExtLset")
	return a + " | " + b
}

// genStExt: external labels replaced by a set with added / removed / renamed names, or with other values only.
func genStExt(c *hlib.Ctx, g *storeGen, blocks []specBlock, n int) {
	r := c.R
	tb := showBlocks(blocks[:1])
	for i := 0; i < n; i++ {
		old := blocks[0].ext
		var nw []specLabel
		kind := ""
		switch r.Intn(5) {
		case 0:
			kind = "added-name"
			nw = append([]specLabel(nil), old...)
			nw = append(nw, genLabelSet(r, []int{3, 8, 10, 12}, 1)...)
		case 1:
			kind = "removed-name"
			if len(old) > 0 {
				nw = append([]specLabel(nil), old[1:]...)
			}
		case 2:
			kind = "renamed"
			nw = genLabelSet(r, []int{3, 6, 8, 10, 11}, r.Range(1, 3))
		case 3:
			kind = "values-only"
			for _, l := range old {
				nw = append(nw, specLabel{l.n, r.Range(1, len(valueTab)-1)})
			}
		default:
			kind = "random"
			nw = genLabelSet(r, g.extPool, r.Range(0, 3))
		}
		sort.Slice(nw, func(i, j int) bool { return nw[i].n < nw[j].n })
		ms := g.genMatchers(blocks[:1])
		mint, maxt := genRange(r, blocks[:1])
		if r.Bool() {
			mint, maxt = -10, 100000
		}
		without := genNames(r, []int{5, 6, 9, 11, 3, 8}, 2)
		ln := pickInt(r, 1, 3, 5, 6, 8, 9, 10, 11, 12)
		c.Count("ext-update:" + kind)
		c.Do(fmt.Sprintf("st.ext %s %s %d %d %s %s %d", tb, showLabels(nw), mint, maxt, showMatchers(ms), without, ln), true)
	}
}

// ---- the proxy in front of both stores

type localClient struct {
	storepb.StoreClient
	name       string
	lsets      []labels.Labels
	mint, maxt int64
}

func (c localClient) LabelSets() []labels.Labels         { return c.lsets }
func (c localClient) TimeRange() (int64, int64)          { return c.mint, c.maxt }
func (c localClient) TSDBInfos() []infopb.TSDBInfo       { return nil }
func (c localClient) SupportsSharding() bool             { return true }
func (c localClient) SupportsWithoutReplicaLabels() bool { return true }
func (c localClient) String() string                     { return c.name }
func (c localClient) Addr() (string, bool)               { return c.name, true }
func (c localClient) Matches([]*labels.Matcher) bool     { return true }

func (r *stReq) proxy() (*store.ProxyStore, bool) {
	bs, err := r.b.bucketStore(defaultBucketCfg())
	if err != nil {
		return nil, false
	}
	lo, hi := r.b.blocks[0].mint, r.b.blocks[0].maxt
	seen := map[string]bool{}
	var lsets []labels.Labels
	for _, b := range r.b.blocks {
		if b.mint < lo {
			lo = b.mint
		}
		if b.maxt > hi {
			hi = b.maxt
		}
		l := promLabels(b.ext)
		if !seen[l.String()] {
			seen[l.String()] = true
			lsets = append(lsets, l)
		}
	}
	clients := []store.Client{
		localClient{storepb.ServerAsClient(r.b.tsdbs[0], *atomic.NewBool(false)), "tsdb", []labels.Labels{promLabels(r.b.blocks[0].ext)}, r.b.blocks[0].mint, r.b.blocks[0].maxt},
		localClient{storepb.ServerAsClient(bs, *atomic.NewBool(false)), "bucket", lsets, lo, hi},
	}
	return store.NewProxyStore(log.NewNopLogger(), nil, func() []store.Client { return clients }, component.Query, labels.EmptyLabels(), time.Minute, store.EagerRetrieval), true
}

// execProxy: px.series / px.names / px.values through the ProxyStore in front of both stores.
func execProxy(c *hlib.Ctx, tok []string) string {
	want := map[string]int{"px.series": 7, "px.names": 6, "px.values": 7}[tok[0]]
	if len(tok) != want {
		return "bad-op"
	}
	r, ok := parseStReq(append([]string{tok[0], "bkt"}, tok[1:6]...))
	if !ok {
		return "bad-op"
	}
	p, ok := r.proxy()
	if !ok {
		return "bad-op"
	}
	ctx := context.Background()
	skip := tok[0] != "px.series" || tok[6] == "1"
	srv := &seriesServer{ctx: ctx}
	serr := p.Series(&storepb.SeriesRequest{MinTime: r.mint, MaxTime: r.maxt, Matchers: r.sms, WithoutReplicaLabels: r.without, SkipChunks: skip,
		PartialResponseStrategy: storepb.PartialResponseStrategy_ABORT}, srv)
	switch tok[0] {
	case "px.series":
		if serr != nil {
			return errEnum(serr)
		}
		if len(srv.warnings) > 0 {
			return "warning"
		}
		return "ok " + canonSeries(srv.frames, skip)
	case "px.names":
		resp, err := p.LabelNames(ctx, &storepb.LabelNamesRequest{Start: r.mint, End: r.maxt, Matchers: r.sms, WithoutReplicaLabels: r.without,
			PartialResponseStrategy: storepb.PartialResponseStrategy_ABORT})
		if err != nil {
			return errEnum(err)
		}
		if !sort.StringsAreSorted(resp.Names) {
			c.Violation("not-sorted", fmt.Sprintf("proxy LabelNames answer %v", resp.Names))
		}
		if !strictlySorted(resp.Names) {
			// MergeSlices removes a name that two stores answer, not one that a store answers twice (the TSDB store may)
			c.Count("proxy:repeated-name-in-answer")
		}
		if serr != nil {
			c.Count("proxy:series-call-" + errEnum(serr))
			return "ok " + showRanks(nameTab, resp.Names)
		}
		have := nameSet(resp.Names)
		for _, f := range srv.frames {
			for _, l := range f.lset {
				if _, ok := have[l.Name]; !ok {
					c.Violation("name-missing", fmt.Sprintf("proxy: series %s is returned by Series, LabelNames answers %v", f.lset, resp.Names))
				}
			}
		}
		if len(srv.frames) > 0 {
			c.Count("proxy:names-checked-against-series")
		}
		return "ok " + showRanks(nameTab, resp.Names)
	}
	ln, err := strconv.Atoi(tok[6])
	if err != nil || ln < 1 || ln >= len(nameTab) {
		return "bad-op"
	}
	resp, err := p.LabelValues(ctx, &storepb.LabelValuesRequest{Label: nameTab[ln], Start: r.mint, End: r.maxt, Matchers: r.sms, WithoutReplicaLabels: r.without,
		PartialResponseStrategy: storepb.PartialResponseStrategy_ABORT})
	if err != nil {
		return errEnum(err)
	}
	if !strictlySorted(resp.Values) {
		c.Violation("not-sorted", fmt.Sprintf("proxy LabelValues answer %v", resp.Values))
	}
	if serr != nil {
		c.Count("proxy:series-call-" + errEnum(serr))
		return "ok " + showRanks(valueTab, resp.Values)
	}
	have := nameSet(resp.Values)
	for _, f := range srv.frames {
		if v := f.lset.Get(nameTab[ln]); v != "" {
			if _, ok := have[v]; !ok {
				c.Violation("value-missing", fmt.Sprintf("proxy: series %s is returned by Series, LabelValues(%s) answers %v", f.lset, nameTab[ln], resp.Values))
			}
		}
	}
	if len(srv.frames) > 0 {
		c.Count("proxy:values-checked-against-series")
	}
	return "ok " + showRanks(valueTab, resp.Values)
}

func strictlySorted(xs []string) bool {
	for i := 1; i < len(xs); i++ {
		if xs[i-1] >= xs[i] {
			return false
		}
	}
	return true
}

func execC07(c *hlib.Ctx, tok []string) string {
	if len(tok) == 0 {
		return "bad-op"
	}
	switch tok[0] {
	case "px.series", "px.names", "px.values":
		return execProxy(c, tok)
	case "st.ext":
		return execStExt(c, tok)
	case "st.names":
		if len(tok) != 7 {
			return "bad-op"
		}
		r, ok := parseStReq(tok)
		if !ok {
			return "bad-op"
		}
		names, err, ok := r.labelNames()
		if !ok {
			return "bad-op"
		}
		if err != nil {
			return errEnum(err)
		}
		if !sort.StringsAreSorted(names) {
			c.Violation("not-sorted", fmt.Sprintf("LabelNames answer %v", names))
		}
		if !strictlySorted(names) {
			// TSDBStore.LabelNames appends the external label names to the querier's names and sorts: a stored name that is
			// also an external name is listed twice.  Not a matter of this property (inclusion); counted.
			c.Count("names:repeated-name-in-answer")
		}
		have := nameSet(names)
		srv, serr, _ := r.series(true)
		if serr == nil {
			seen := map[string]bool{}
			for _, f := range srv.frames {
				for _, l := range f.lset {
					seen[l.Name] = true
					if _, ok := have[l.Name]; !ok {
						c.Violation("name-missing", fmt.Sprintf("series %s is returned by Series, LabelNames answers %v", f.lset, names))
					}
				}
			}
			if len(seen) < len(names) {
				c.Count("names:superset")
			} else {
				c.Count("names:exact")
			}
		} else {
			c.Count("names:series-call-" + errEnum(serr))
		}
		return "ok " + showRanks(nameTab, names)
	case "st.values":
		if len(tok) != 8 {
			return "bad-op"
		}
		r, ok := parseStReq(tok)
		if !ok {
			return "bad-op"
		}
		ln, err := strconv.Atoi(tok[7])
		if err != nil || ln < 0 || ln >= len(nameTab) {
			return "bad-op"
		}
		label := nameTab[ln]
		vals, verr, ok := r.labelValues(label)
		if !ok {
			return "bad-op"
		}
		if verr != nil {
			return errEnum(verr)
		}
		if !strictlySorted(vals) {
			c.Violation("not-sorted", fmt.Sprintf("LabelValues(%s) answer %v", label, vals))
		}
		for _, w := range r.without {
			if w == label && len(vals) > 0 {
				c.Violation("dropped-label-listed", fmt.Sprintf("LabelValues(%s) answers %v although the label is to be dropped", label, vals))
			}
		}
		have := nameSet(vals)
		srv, serr, _ := r.series(true)
		if serr == nil {
			seen := map[string]bool{}
			for _, f := range srv.frames {
				if v := f.lset.Get(label); v != "" {
					seen[v] = true
					if _, ok := have[v]; !ok {
						c.Violation("value-missing", fmt.Sprintf("series %s is returned by Series, LabelValues(%s) answers %v", f.lset, label, vals))
					}
				}
			}
			if len(seen) < len(vals) {
				c.Count("values:superset")
			} else {
				c.Count("values:exact")
			}
		} else {
			c.Count("values:series-call-" + errEnum(serr))
		}
		return "ok " + showRanks(valueTab, vals)
	}
	return "bad-op"
}

func genC07(c *hlib.Ctx) {
	r := c.R
	nStores, nReq := c.N(16, 400), c.N(30, 60)
	for i := 0; i < nStores; i++ {
		g := &storeGen{r: r, storedPool: []int{1, 2, 4, 5, 7, 9, 11}, extPool: []int{5, 6, 9, 11}}
		kind := "tsdb"
		nb, minExt := 1, 0
		if r.Chance(3, 5) {
			kind = "bkt"
			nb, minExt = r.Range(1, 3), 1
		}
		blocks := g.genBlocks(nb, 10, minExt)
		// a quarter of the store gateways hold downsampled blocks: older ranges present only as 5m and/or 1h blocks (raw
		// retention is shorter), mixed with raw ones; Series is then asked with a maximum resolution
		downsampled := kind == "bkt" && r.Chance(1, 2)
		if downsampled {
			blocks = g.genDownsampled()
			c.Count("st:downsampled-store")
		}
		tb := showBlocks(blocks)
		genStExt(c, g, blocks, c.N(8, 16))
		for q := 0; q < nReq; q++ {
			ms := g.genMatchers(blocks)
			if r.Chance(1, 4) {
				ms = nil
			}
			mint, maxt := genRange(r, blocks)
			if r.Chance(1, 3) {
				mint, maxt = -10, 100000
			}
			without := genNames(r, []int{5, 6, 9, 11, 2}, 2)
			c.Count("st:" + kind)
			if len(ms) == 0 {
				c.Count("st:no-matchers")
			}
			kind := kind
			if downsampled {
				// MaxResolutionWindow of the Series call the label calls are held against (count is the aggregate asked for)
				kind = fmt.Sprintf("bkt+x%d+a1", pickInt(r, 0, 300000, 3600000, 3600000, 1<<40))
				if r.Chance(1, 2) {
					ms = g.genLazyProneMatchers(blocks)[:1] // one selector on a stored label that occurs
				}
			}
			ans := c.Do(fmt.Sprintf("st.names %s %s %d %d %s %s", kind, tb, mint, maxt, showMatchers(ms), without), true)
			c.Count("names:answer-" + answerKind(ans))
			// values of: a stored name, an external name, a dropped name, a name nobody has
			lns := []int{g.storedPool[r.Intn(len(g.storedPool))], g.extPool[r.Intn(len(g.extPool))], pickInt(r, 1, 3, 8, 12)}
			for _, ln := range lns {
				ans := c.Do(fmt.Sprintf("st.values %s %s %d %d %s %s %d", kind, tb, mint, maxt, showMatchers(ms), without, ln), true)
				c.Count("values:answer-" + answerKind(ans))
			}
			// the same through the proxy in front of both stores (bucket stores need external labels on every block)
			if kind == "bkt" && r.Chance(1, 2) {
				c.Count("st:proxy")
				ans := c.Do(fmt.Sprintf("px.series %s %d %d %s %s %d", tb, mint, maxt, showMatchers(ms), without, r.Intn(2)), true)
				c.Count("proxy:series-" + answerKind(ans))
				c.Do(fmt.Sprintf("px.names %s %d %d %s %s", tb, mint, maxt, showMatchers(ms), without), true)
				c.Do(fmt.Sprintf("px.values %s %d %d %s %s %d", tb, mint, maxt, showMatchers(ms), without, lns[r.Intn(3)]), true)
			}
		}
	}
}

func answerKind(ans string) string {
	switch {
	case ans == "ok -":
		return "empty"
	case strings.HasPrefix(ans, "ok"):
		return "some"
	}
	return ans
}

var _ = sort.Strings
