package main

import (
	"fmt"
	"math"
	"sort"
	"strconv"
	"strings"

	"github.com/oklog/ulid/v2"
	"github.com/prometheus/prometheus/model/labels"

	"github.com/thanos-io/thanos/pkg/block"
	"github.com/thanos-io/thanos/pkg/block/metadata"
	"github.com/thanos-io/thanos/pkg/store"
	"github.com/thanos-io/thanos/verifharness/hlib"
)

// C15 — store gateway picks blocks that cover the query at allowed resolutions.
//
// ops:
//   bs.getfor <blocks> <mint> <maxt> <maxres>
//       blocks = `res:mint:maxt:keep` joined by `,` (`-` = none) in add order; a block's id is its position;
//       keep = 1/0: whether the block is in the set selected by the request's block matcher
//       (`__block_id=~"id|id|…"`; when every keep is 1 no matcher is sent)
//     -> `ok f=<failed adds> <res:mint:maxt of the result, in order, joined by ;> <sorted ids joined by ,>` | `panic`
//
//   bs.hist <blocks> <ops> <mint> <maxt> <maxres>
//       ops = `a<i>` add block i / `r<i>` remove block i (by ULID; also when it is not in the set) joined by `,`:
//       a history of the set (retention drops a block, a compacted block replaces its sources, a block comes back);
//       the query is made on what the history leaves
//     -> as bs.getfor (f = failed adds)
//
// oracle (on the implementation's answer, independent of the model):
//   resolution-exceeded   a returned block has resolution > maxres
//   no-overlap            a returned block does not overlap [mint, maxt]
//   dup-finer-block-spans-coarser   a block is returned twice and it strictly spans a coarser allowed block
//                         (F15; repaired in /repo by 5d7491d6a)
//   duplicate-block       any other repeated block
//   uncovered-instant     an instant of [mint,maxt] inside an added allowed block is in no returned block
//                         (only evaluated without block matchers)
//   panic-no-allowed-resolution     getFor panics and maxres is below every resolution (maxres < 0; repaired by 22ba7b303)
//   panic                 any other panic

func init() {
	props = append(props, &hlib.Prop{ID: "C15", Gen: genC15, Exec: execC15})
}

var c15Resolutions = []int64{3600000, 300000, 0}

type c15Block struct {
	res, mint, maxt int64
	keep            bool
}

func parseC15Blocks(s string) ([]c15Block, bool) {
	var out []c15Block
	for _, t := range hlib.Split(s, ",") {
		f := strings.Split(t, ":")
		if len(f) != 4 {
			return nil, false
		}
		var v [4]int64
		for i := range f {
			x, err := strconv.ParseInt(f[i], 10, 64)
			if err != nil {
				return nil, false
			}
			v[i] = x
		}
		out = append(out, c15Block{v[0], v[1], v[2], v[3] != 0})
	}
	return out, true
}

func c15ULID(i int) ulid.ULID {
	var e [10]byte
	e[9] = byte(i)
	e[8] = byte(i >> 8)
	var id ulid.ULID
	_ = id.SetTime(uint64(1000 + i))
	_ = id.SetEntropy(e[:])
	return id
}

func execC15(c *hlib.Ctx, tok []string) (out string) {
	hist := len(tok) == 6 && tok[0] == "bs.hist"
	if !hist && (len(tok) != 5 || tok[0] != "bs.getfor") {
		return "bad-op"
	}
	var opsTok string
	if hist {
		opsTok = tok[2]
		tok = append([]string{tok[0], tok[1]}, tok[3:]...)
	}
	blocks, ok := parseC15Blocks(tok[1])
	mint, e1 := strconv.ParseInt(tok[2], 10, 64)
	maxt, e2 := strconv.ParseInt(tok[3], 10, 64)
	maxRes, e3 := strconv.ParseInt(tok[4], 10, 64)
	if !ok || e1 != nil || e2 != nil || e3 != nil {
		return "bad-op"
	}
	// the history: without one, every block is added once, in order
	var ops []store.VerifStoresBlockSetOp
	if hist {
		for _, t := range hlib.Split(opsTok, ",") {
			i, err := strconv.Atoi(t[1:])
			if err != nil || i < 0 || i >= len(blocks) || (t[0] != 'a' && t[0] != 'r') {
				return "bad-op"
			}
			ops = append(ops, store.VerifStoresBlockSetOp{Add: t[0] == 'a', Idx: i})
		}
	} else {
		for i := range blocks {
			ops = append(ops, store.VerifStoresBlockSetOp{Add: true, Idx: i})
		}
	}
	metas := make([]*metadata.Meta, len(blocks))
	allKeep := true
	var keepIDs []string
	for i, b := range blocks {
		m := &metadata.Meta{}
		m.ULID = c15ULID(i)
		m.MinTime, m.MaxTime = b.mint, b.maxt
		m.Thanos.Downsample.Resolution = b.res
		metas[i] = m
		if b.keep {
			keepIDs = append(keepIDs, m.ULID.String())
		} else {
			allKeep = false
		}
	}
	var ms []*labels.Matcher
	if !allKeep {
		ms = []*labels.Matcher{labels.MustNewMatcher(labels.MatchRegexp, block.BlockIDLabel, strings.Join(keepIDs, "|"))}
		// the truth table handed to the model must be the matcher's own
		for i, b := range blocks {
			if ms[0].Matches(metas[i].ULID.String()) != b.keep {
				return "bad-op"
			}
		}
	}
	defer func() {
		if r := recover(); r != nil {
			c.LastPanic = fmt.Sprint(r)
			if mint <= maxt && maxRes < c15Resolutions[len(c15Resolutions)-1] {
				c.Violation("panic-no-allowed-resolution", fmt.Sprintf("getFor panics when no resolution is <= maxres=%d: %v", maxRes, r))
			} else {
				c.Violation("panic", fmt.Sprintf("getFor panics: %v", r))
			}
			out = "panic"
		}
	}()
	failed, res := store.VerifStoresBlockSetHistory(metas, ops, mint, maxt, maxRes, ms)
	// which blocks the history leaves in the set (an add fails exactly for an unsupported resolution)
	added := make([]bool, len(blocks))
	for _, op := range ops {
		sup := false
		for _, r := range c15Resolutions {
			sup = sup || r == blocks[op.Idx].res
		}
		if op.Add {
			added[op.Idx] = sup
		} else {
			added[op.Idx] = false
		}
	}
	seq := make([]string, len(res))
	ids := make([]int, len(res))
	for i, p := range res {
		seq[i] = fmt.Sprintf("%d:%d:%d", blocks[p].res, blocks[p].mint, blocks[p].maxt)
		ids[i] = p
	}
	sort.Ints(ids)
	idss := make([]string, len(ids))
	for i, p := range ids {
		idss[i] = strconv.Itoa(p)
	}
	out = fmt.Sprintf("ok f=%d %s %s", failed, hlib.Join(seq, ";"), hlib.Join(idss, ","))

	// ---- property oracle
	if mint > maxt {
		if len(res) != 0 {
			c.Violation("no-overlap", "blocks returned for an empty range")
		}
		return out
	}
	allowed := func(b c15Block, ok bool) bool { return ok && b.res <= maxRes }
	seen := map[int]int{}
	for _, p := range res {
		b := blocks[p]
		if b.res > maxRes {
			c.Violation("resolution-exceeded", fmt.Sprintf("block %d has resolution %d > %d", p, b.res, maxRes))
		}
		if !(b.maxt > mint && b.mint <= maxt) {
			c.Violation("no-overlap", fmt.Sprintf("block %d [%d,%d) does not overlap [%d,%d]", p, b.mint, b.maxt, mint, maxt))
		}
		if !b.keep {
			c.Violation("matcher-ignored", fmt.Sprintf("block %d does not match the block matchers", p))
		}
		seen[p]++
	}
	for p, n := range seen {
		if n < 2 {
			continue
		}
		d := blocks[p]
		spans := false
		for q, cb := range blocks {
			if allowed(cb, added[q]) && cb.res > d.res && d.mint < cb.mint && cb.maxt < d.maxt {
				spans = true
			}
		}
		if spans {
			c.Violation("dup-finer-block-spans-coarser", fmt.Sprintf("block %d (res %d, [%d,%d)) returned %d times", p, d.res, d.mint, d.maxt, n))
		} else {
			c.Violation("duplicate-block", fmt.Sprintf("block %d returned %d times", p, n))
		}
	}
	if allKeep {
		// every instant of the range inside an allowed added block must be inside a returned block; coverage only
		// changes at block boundaries, so those instants (and the range ends) suffice
		cand := []int64{mint, maxt}
		for i, b := range blocks {
			if allowed(b, added[i]) {
				cand = append(cand, b.mint, b.mint-1, b.maxt, b.maxt-1)
			}
		}
		for _, t := range cand {
			if t < mint || t > maxt {
				continue
			}
			want, got := false, false
			for i, b := range blocks {
				if allowed(b, added[i]) && b.mint <= t && t < b.maxt {
					want = true
				}
			}
			for _, p := range res {
				if blocks[p].mint <= t && t < blocks[p].maxt {
					got = true
				}
			}
			if want && !got {
				c.Violation("uncovered-instant", fmt.Sprintf("instant %d is inside an allowed block but in no returned block", t))
				break
			}
		}
	}
	return out
}

func c15Line(blocks []c15Block, mint, maxt, maxRes int64) string {
	bs := make([]string, len(blocks))
	for i, b := range blocks {
		k := 0
		if b.keep {
			k = 1
		}
		bs[i] = fmt.Sprintf("%d:%d:%d:%d", b.res, b.mint, b.maxt, k)
	}
	return fmt.Sprintf("bs.getfor %s %d %d %d", hlib.Join(bs, ","), mint, maxt, maxRes)
}

func genC15Layout(c *hlib.Ctx) []c15Block {
	r := c.R
	var bs []c15Block
	pickRes := func() int64 { return c15Resolutions[r.Intn(3)] }
	switch r.Intn(6) {
	case 0: // production-like: contiguous raw blocks, older ranges also (or only) downsampled
		c.Count("layout:production-like")
		t := int64(r.Intn(100))
		for i, n := 0, r.Range(1, 6); i < n; i++ {
			w := int64(r.Range(1, 6)) * 50
			present := r.Range(1, 7) // bit set of resolutions present for this range
			for k := 0; k < 3; k++ {
				if present&(1<<k) != 0 {
					bs = append(bs, c15Block{c15Resolutions[k], t, t + w, true})
				}
			}
			t += w
			if r.Chance(1, 5) {
				t += int64(r.Range(1, 100)) // gap
			}
		}
	case 1: // a finer block spanning one or more coarser ones (the F15 shape), plus noise
		c.Count("layout:finer-spans-coarser")
		lo, hi := int64(r.Range(0, 300)), int64(r.Range(600, 1000))
		fine := r.Range(1, 2)
		bs = append(bs, c15Block{c15Resolutions[fine], lo, hi, true})
		for i, n := 0, r.Range(1, 3); i < n; i++ {
			a := lo + int64(r.Range(1, 100)) + int64(i)*100
			bs = append(bs, c15Block{c15Resolutions[r.Intn(fine)], a, a + int64(r.Range(1, 80)), true})
		}
		for i, n := 0, r.Intn(3); i < n; i++ {
			a := int64(r.Intn(1000))
			bs = append(bs, c15Block{pickRes(), a, a + int64(r.Range(1, 300)), true})
		}
	case 2: // heavy overlaps inside one or two resolutions (start moves backwards)
		c.Count("layout:overlapping")
		for i, n := 0, r.Range(2, 12); i < n; i++ {
			a := int64(r.Intn(20)) * 50
			bs = append(bs, c15Block{c15Resolutions[r.Range(0, 2)%(1+r.Intn(3))], a, a + int64(r.Range(1, 8))*50, true})
		}
	case 3: // equal ranges / ties
		c.Count("layout:ties")
		for i, n := 0, r.Range(2, 8); i < n; i++ {
			a := int64(r.Intn(4)) * 100
			bs = append(bs, c15Block{pickRes(), a, a + int64(r.Range(1, 3))*100, true})
		}
	default: // random
		c.Count("layout:random")
		for i, n := 0, r.Range(0, 12); i < n; i++ {
			a := int64(r.Intn(1000))
			bs = append(bs, c15Block{pickRes(), a, a + int64(r.Range(1, 400)), true})
		}
	}
	// add order is arbitrary
	p := r.Perm(len(bs))
	out := make([]c15Block, len(bs))
	for i, j := range p {
		out[i] = bs[j]
	}
	return out
}

func genC15(c *hlib.Ctx) {
	r := c.R
	n := c.N(6000, 400000)
	maxResChoices := []int64{0, 1, 299999, 300000, 300001, 3599999, 3600000, 3600001, math.MaxInt64}
	for i := 0; i < n; i++ {
		blocks := genC15Layout(c)
		malformed := false
		// malformed stream: unsupported resolution, empty or inverted block range, negative times
		if r.Chance(1, 12) && len(blocks) > 0 {
			malformed = true
			k := r.Intn(len(blocks))
			switch r.Intn(3) {
			case 0:
				blocks[k].res = r.I64Range(1, 5000000)
				c.Count("malformed:unsupported-resolution")
			case 1:
				blocks[k].maxt = blocks[k].mint - int64(r.Intn(50))
				c.Count("malformed:empty-or-inverted-block")
			default:
				blocks[k].mint -= 2000
				c.Count("malformed:negative-mint")
			}
		}
		if r.Chance(1, 6) && len(blocks) > 0 {
			c.Count("matchers:some-blocks-excluded")
			for k := range blocks {
				blocks[k].keep = r.Chance(2, 3)
			}
		}
		var mint, maxt int64
		switch r.Intn(8) {
		case 0:
			mint, maxt = -100, 1500
			c.Count("range:all")
		case 1:
			mint = int64(r.Intn(1000))
			maxt = mint
			c.Count("range:instant")
		case 2:
			mint = int64(r.Intn(1000))
			maxt = mint - int64(r.Range(1, 100))
			c.Count("range:inverted")
		case 3: // ends on block boundaries
			if len(blocks) > 0 {
				b1, b2 := blocks[r.Intn(len(blocks))], blocks[r.Intn(len(blocks))]
				mint, maxt = b1.mint+int64(r.Range(-1, 1)), b2.maxt+int64(r.Range(-1, 1))
				if r.Bool() {
					mint = b1.maxt + int64(r.Range(-1, 1))
				}
				if r.Bool() {
					maxt = b2.mint + int64(r.Range(-1, 1))
				}
			}
			c.Count("range:on-boundaries")
		default:
			mint = int64(r.Range(-50, 1000))
			maxt = mint + int64(r.Intn(1100))
			c.Count("range:random")
		}
		maxRes := maxResChoices[r.Intn(len(maxResChoices))]
		if r.Chance(1, 25) {
			maxRes = -int64(r.Range(1, 1000))
			c.Count("maxres:negative")
			malformed = true
		} else {
			c.Count(fmt.Sprintf("maxres:%d", maxRes))
		}
		c.Count(fmt.Sprintf("blocks:%d", len(blocks)))
		ans := c.Do(c15Line(blocks, mint, maxt, maxRes), len(blocks) > 0 && mint <= maxt)
		_ = malformed
		if strings.HasPrefix(ans, "ok") {
			f := strings.Fields(ans)
			if len(f) == 4 {
				c.Count(fmt.Sprintf("returned:%s", bucketCount(len(hlib.Split(f[3], ",")))))
			}
		}
	}
	genC15Histories(c, c.N(3000, 150000))
	if c.Tier == "thorough" {
		genC15Exhaustive(c)
	}
}

func bucketCount(n int) string {
	switch {
	case n == 0:
		return "0"
	case n <= 2:
		return "1-2"
	case n <= 5:
		return "3-5"
	}
	return "6+"
}

// genC15Exhaustive: every layout of up to 3 blocks over a 5-point grid (all resolutions, all non-empty
// ranges), every query range on the same grid, two maximum resolutions.
func genC15Exhaustive(c *hlib.Ctx) {
	grid := []int64{0, 10, 20, 30, 40}
	var shapes []c15Block
	for _, res := range c15Resolutions {
		for i := 0; i < len(grid); i++ {
			for j := i + 1; j < len(grid); j++ {
				shapes = append(shapes, c15Block{res, grid[i], grid[j], true})
			}
		}
	}
	ranges := [][2]int64{}
	for i := 0; i < len(grid); i++ {
		for j := i; j < len(grid); j++ {
			ranges = append(ranges, [2]int64{grid[i], grid[j]})
		}
	}
	emit := func(bs []c15Block) {
		for _, q := range ranges {
			for _, mr := range []int64{300000, 3600000} {
				c.Count("exhaustive")
				c.Do(c15Line(bs, q[0], q[1], mr), true)
			}
		}
	}
	for a := 0; a < len(shapes); a++ {
		emit([]c15Block{shapes[a]})
		for b := a; b < len(shapes); b++ {
			emit([]c15Block{shapes[a], shapes[b]})
			for d := b; d < len(shapes); d += 2 { // every second third block keeps the count near 10^5
				emit([]c15Block{shapes[a], shapes[b], shapes[d]})
			}
		}
	}
}

// genC15Histories: add/remove histories. Blocks are added (never while present), removed (first, middle, last, absent,
// never added), re-added; the query follows a remove directly in half of the cases.
func genC15Histories(c *hlib.Ctx, n int) {
	r := c.R
	for i := 0; i < n; i++ {
		blocks := genC15Layout(c)
		if len(blocks) < 3 && r.Chance(3, 4) {
			// several blocks of one resolution, so that a removal in the middle matters
			res := c15Resolutions[r.Intn(3)]
			t := int64(r.Intn(100))
			blocks = nil
			for k, m := 0, r.Range(3, 7); k < m; k++ {
				w := int64(r.Range(1, 4)) * 50
				blocks = append(blocks, c15Block{res, t, t + w, true})
				t += w
				if r.Chance(1, 4) {
					t += int64(r.Range(1, 80))
				}
			}
			if r.Bool() {
				blocks = append(blocks, c15Block{c15Resolutions[r.Intn(3)], int64(r.Intn(200)), int64(r.Range(300, 900)), true})
			}
		}
		if len(blocks) == 0 {
			continue
		}
		present := make([]bool, len(blocks))
		var ops []string
		for _, k := range r.Perm(len(blocks)) {
			ops = append(ops, fmt.Sprintf("a%d", k))
			present[k] = true
		}
		steps := r.Range(1, 6)
		for sidx := 0; sidx < steps; sidx++ {
			k := r.Intn(len(blocks))
			switch {
			case present[k] && r.Chance(2, 3):
				ops = append(ops, fmt.Sprintf("r%d", k))
				present[k] = false
				c.Count("hist:remove-present")
			case !present[k] && r.Chance(1, 2):
				ops = append(ops, fmt.Sprintf("a%d", k))
				present[k] = true
				c.Count("hist:re-add")
			case !present[k]:
				ops = append(ops, fmt.Sprintf("r%d", k))
				c.Count("hist:remove-absent")
			}
		}
		if r.Bool() { // the query directly after a remove
			var cand []int
			for k, p := range present {
				if p {
					cand = append(cand, k)
				}
			}
			if len(cand) > 0 {
				k := cand[r.Intn(len(cand))]
				ops = append(ops, fmt.Sprintf("r%d", k))
				present[k] = false
				c.Count("hist:query-after-remove")
			}
		}
		var mint, maxt int64
		switch r.Intn(4) {
		case 0:
			mint, maxt = -100, 1500
		case 1:
			b1, b2 := blocks[r.Intn(len(blocks))], blocks[r.Intn(len(blocks))]
			mint, maxt = b1.mint+int64(r.Range(-1, 1)), b2.maxt+int64(r.Range(-1, 1))
		default:
			mint = int64(r.Range(-50, 1000))
			maxt = mint + int64(r.Intn(1100))
		}
		maxRes := []int64{0, 300000, 3600000, 3600000, math.MaxInt64}[r.Intn(5)]
		bs := make([]string, len(blocks))
		for k, b := range blocks {
			bs[k] = fmt.Sprintf("%d:%d:%d:1", b.res, b.mint, b.maxt)
		}
		c.Do(fmt.Sprintf("bs.hist %s %s %d %d %d", strings.Join(bs, ","), strings.Join(ops, ","), mint, maxt, maxRes), true)
	}
}
