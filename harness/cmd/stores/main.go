// Family binary "stores": C07 C08 C09 C10 C15.
package main

import (
	"os"
	"runtime/pprof"

	"github.com/thanos-io/thanos/verifharness/hlib"
)

var props []*hlib.Prop

func main() {
	defer e2eCleanup() // temp dirs of the end-to-end stores
	if p := os.Getenv("VERIF_PPROF"); p != "" {
		if f, err := os.Create(p); err == nil {
			_ = pprof.StartCPUProfile(f)
			defer pprof.StopCPUProfile()
		}
	}
	hlib.Main(props)
}
