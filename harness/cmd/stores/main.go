// Family binary "stores": C07 C08 C09 C10 C15.
package main

import "github.com/thanos-io/thanos/verifharness/hlib"

var props []*hlib.Prop

func main() {
	defer e2eCleanup() // temp dirs of the end-to-end stores
	hlib.Main(props)
}
