package main

import (
	"context"
	"fmt"
	"sort"
	"strconv"
	"strings"

	"github.com/prometheus/prometheus/model/labels"

	"github.com/thanos-io/thanos/pkg/store"
	"github.com/thanos-io/thanos/verifharness/hlib"
)

// C10 (kernel) — posting groups.
//
//   pg.groups <lvals> <matchers>
//       lvals    = name=v+v+…;name=…   the label values of the block per label name (ranks, ascending, `-` = none)
//       matchers = typ.name.patternhex.value.flags.set.ok joined by `,`
//                  value = rank of the pattern among valueTab (or -1), flags = 1 pattern is ".*" | 2 ".+" | 4 empty,
//                  set = m.SetMatches() as ranks joined by `+` (`_` = none), ok = accepted ranks (truth table)
//     -> the groups of the real matchersToPostingGroups: name:addAll:addKeys:removeKeys joined by `;` | nil
//
// oracle: for every assignment of a value (0 or one of lvals) to the label names of the matchers, evaluating the
// groups as ExpandedPostings/mergeFetchedPostings do must agree with "every matcher accepts the value of its label"
//   posting-groups-unsound

type pgMatcher struct {
	typ, name int
	pattern   string
}

func parseLvals(s string) (map[string][]string, []int, bool) {
	out := map[string][]string{}
	var names []int
	for _, t := range hlib.Split(s, ";") {
		f := strings.SplitN(t, "=", 2)
		if len(f) != 2 {
			return nil, nil, false
		}
		n, err := strconv.Atoi(f[0])
		if err != nil || n < 1 || n >= len(nameTab) {
			return nil, nil, false
		}
		var vals []string
		prev := 0
		for _, v := range hlib.Split(f[1], "+") {
			x, err := strconv.Atoi(v)
			if err != nil || x <= prev || x >= len(valueTab) {
				return nil, nil, false
			}
			prev = x
			vals = append(vals, valueTab[x])
		}
		out[nameTab[n]] = vals
		names = append(names, n)
	}
	return out, names, true
}

func ranksJoin(tab []string, xs []string) (string, bool) {
	if len(xs) == 0 {
		return "_", true
	}
	out := make([]string, len(xs))
	for i, x := range xs {
		r := rankOf(tab, x)
		if r < 0 {
			return "", false
		}
		out[i] = strconv.Itoa(r)
	}
	return strings.Join(out, "+"), true
}

// pgMatcherToken describes a real matcher the way the model needs it.
func pgMatcherToken(typ, name int, pattern string) (string, bool) {
	m, err := mkMatcher(typ, name, pattern)
	if err != nil {
		return "", false
	}
	flags := 0
	if pattern == ".*" {
		flags |= 1
	}
	if pattern == ".+" {
		flags |= 2
	}
	if pattern == "" {
		flags |= 4
	}
	set, ok := ranksJoin(valueTab, m.SetMatches())
	if !ok {
		return "", false
	}
	okv := matcherVals(m)
	oks := make([]string, len(okv))
	for i, v := range okv {
		oks[i] = strconv.Itoa(v)
	}
	o := strings.Join(oks, "+")
	if o == "" {
		o = "_"
	}
	return fmt.Sprintf("%d.%d.%s.%d.%d.%s.%s", typ, name, hlib.HexS(pattern), rankOf(valueTab, pattern), flags, set, o), true
}

func execPgGroups(c *hlib.Ctx, tok []string) string {
	if len(tok) != 3 {
		return "bad-op"
	}
	lvals, _, ok := parseLvals(tok[1])
	if !ok {
		return "bad-op"
	}
	var ms []*labels.Matcher
	var names []string
	for _, t := range hlib.Split(tok[2], ",") {
		f := strings.Split(t, ".")
		if len(f) != 7 {
			return "bad-op"
		}
		typ, e1 := strconv.Atoi(f[0])
		name, e2 := strconv.Atoi(f[1])
		pat, e3 := hlib.UnHex(f[2])
		if e1 != nil || e2 != nil || e3 != nil || typ < 0 || typ > 3 || name < 1 || name >= len(nameTab) {
			return "bad-op"
		}
		want, ok := pgMatcherToken(typ, name, string(pat))
		if !ok || want != t {
			return "bad-op" // the description in the line is not the real matcher's
		}
		m, _ := mkMatcher(typ, name, string(pat))
		ms = append(ms, m)
		names = append(names, nameTab[name])
	}
	lvalsFn := func(name string) ([]string, error) { return append([]string(nil), lvals[name]...), nil }
	groups, found, err := store.VerifStoresPostingGroups(context.Background(), lvalsFn, ms)
	if err != nil {
		return "err"
	}
	ans := "nil"
	if found {
		out := make([]string, len(groups))
		for i, g := range groups {
			a, ok1 := ranksJoin(valueTab, g.AddKeys)
			r, ok2 := ranksJoin(valueTab, g.RemoveKeys)
			if !ok1 || !ok2 {
				return "bad-op"
			}
			aa := 0
			if g.AddAll {
				aa = 1
			}
			out[i] = fmt.Sprintf("%d:%d:%s:%s", rankOf(nameTab, g.Name), aa, a, r)
		}
		ans = hlib.Join(out, ";")
	}
	// ---- oracle: soundness over all assignments of values to the label names of the matchers
	if len(ms) == 0 {
		return ans
	}
	sort.Strings(names)
	var uniq []string
	for i, n := range names {
		if i == 0 || names[i-1] != n {
			uniq = append(uniq, n)
		}
	}
	assign := map[string]string{}
	var rec func(i int) bool
	rec = func(i int) bool {
		if i == len(uniq) {
			want := true
			for _, m := range ms {
				if !m.Matches(assign[m.Name]) {
					want = false
				}
			}
			got := false
			if found {
				allReq, hasAdds, inAdds, removed := false, false, true, false
				in := func(name, k string) bool { return k != "" && assign[name] == k }
				for _, g := range groups {
					allReq = allReq || g.AddAll
					if len(g.AddKeys) > 0 {
						hasAdds = true
						any := false
						for _, k := range g.AddKeys {
							any = any || in(g.Name, k)
						}
						inAdds = inAdds && any
					}
					for _, k := range g.RemoveKeys {
						removed = removed || in(g.Name, k)
					}
				}
				if hasAdds {
					got = inAdds && !removed
				} else {
					got = allReq && !removed
				}
			}
			if got != want {
				c.Violation("posting-groups-unsound", fmt.Sprintf("labels %v: matchers say %v, posting groups %s select %v", assign, want, ans, got))
				return false
			}
			return true
		}
		for _, v := range append([]string{""}, lvals[uniq[i]]...) {
			assign[uniq[i]] = v
			if !rec(i + 1) {
				return false
			}
		}
		return true
	}
	rec(0)
	return ans
}

func genPgGroups(c *hlib.Ctx, n int) {
	r := c.R
	patterns := []string{".*", ".+", "", "a|b", "foo|bar|prod", "a.*", "[ab]+", "a\\.b", "(foo|0)?", "1|é", "x", ".*a.*", "b"}
	for i := 0; i < n; i++ {
		nNames := r.Range(1, 3)
		p := r.Perm(len(allNameRanks))
		var lv []string
		var names []int
		for k := 0; k < nNames; k++ {
			name := allNameRanks[p[k]]
			names = append(names, name)
			var vs []string
			for v := 1; v < len(valueTab); v++ {
				if r.Chance(1, 3) {
					vs = append(vs, strconv.Itoa(v))
				}
			}
			if len(vs) > 0 || r.Bool() {
				lv = append(lv, fmt.Sprintf("%d=%s", name, hlib.Join(vs, "+")))
			}
		}
		sort.Strings(lv)
		nm := pickInt(r, 1, 2, 2, 3, 4, 5)
		var ms []string
		sameName := 0
		for k := 0; k < nm; k++ {
			name := names[r.Intn(len(names))]
			if k > 0 && r.Chance(1, 2) {
				name = names[0] // several matchers on one label: mergeKeys
				sameName++
			}
			typ := r.Intn(4)
			var pat string
			if typ <= 1 {
				pat = valueTab[r.Intn(len(valueTab))]
			} else {
				pat = patterns[r.Intn(len(patterns))]
			}
			t, ok := pgMatcherToken(typ, name, pat)
			if !ok {
				continue
			}
			ms = append(ms, t)
			if k > 0 && r.Chance(1, 10) {
				ms = append(ms, t) // the same matcher twice
			}
		}
		c.Count(fmt.Sprintf("pg:matchers-%d", len(ms)))
		if sameName > 0 {
			c.Count("pg:several-matchers-on-one-label")
		}
		ans := c.Do(fmt.Sprintf("pg.groups %s %s", hlib.Join(lv, ";"), hlib.Join(ms, ",")), len(ms) > 0)
		if ans == "nil" {
			c.Count("pg:answer-nil")
		} else {
			c.Count("pg:answer-groups")
		}
	}
}
