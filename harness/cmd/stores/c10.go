package main

import (
	"context"
	"fmt"
	"sort"
	"strconv"
	"strings"

	"github.com/prometheus/prometheus/model/labels"
	"github.com/prometheus/prometheus/storage"
	"github.com/prometheus/prometheus/tsdb"
	"github.com/prometheus/prometheus/tsdb/chunkenc"

	"github.com/thanos-io/thanos/pkg/block/metadata"
	"github.com/thanos-io/thanos/pkg/compact/downsample"
	"github.com/thanos-io/thanos/pkg/store"
	"github.com/thanos-io/thanos/pkg/store/storepb"
	"github.com/thanos-io/thanos/verifharness/hlib"
)

// C10 — store gateway answers equal a direct TSDB read of the same blocks.
//
// ops:
//   st.series bkt+<cfg> <blocks> <mint> <maxt> <matchers> <without> <skip>     (as in c08.go; the store instance of a
//        configuration is kept for the blocks, so its index cache is as warm as the earlier lines of the run made it)
//   st.hist bkt+<cfg> <blocks> <req>!<req>!…     req = mint~maxt~matchers~without~skip
//        a FRESH BucketStore (cold caches) of the configuration answers the requests in order: cache histories
//        -> the answers of st.series joined by ` | `
//   cfg: l<0|1> lazy expanded postings, b<n> series batch size, s<n> index-header posting offsets sampling,
//        c<0|1|2> no / roomy / tiny (evicting) in-memory index cache, g<n> partitioner max gap,
//        m<n> estimated max series size (0 = default 64 KiB; 1 and values around real series sizes, 6-48, make lazy
//        expansion kick in and series be re-fetched), k<n> estimated max chunk size (0 = default; 1 and 8-40 make
//        chunks be re-fetched)
//   part.gap <maxGap> <start:end,…>             the real gapBasedPartitioner -> parts `start:end:i:j,…`
//
// oracle (st.series / st.hist, store gateway only): the same blocks read with tsdb.OpenBlock + NewBlockChunkQuerier
// (trimming off), per block the selectors that do not name an external label of the block (a block whose external
// labels a selector rejects, or without such a selector left, contributes nothing), labels completed by a map
// (external overrides, replica labels dropped):
//   series-missing / series-extra      a label set is in the reader's answer only / in the store's answer only
//   chunk-missing / chunk-extra        for a label set in both: a (mint, maxt, bytes) chunk is on one side only
//   answer-unsorted                    the store's series are not sorted by labels, or chunks of a series not by time
//   answer-depends-on-configuration    two configurations answered differently for the same blocks and request

func init() {
	props = append(props, &hlib.Prop{ID: "C10", Gen: genC10, Exec: execC10})
}

type refSeries map[string]map[string]struct{} // label set -> "mint/maxt/enc/bytes"

// promRead answers the request by reading the blocks with the Prometheus TSDB reader.
func (r *stReq) promRead() (refSeries, error) {
	out := refSeries{}
	drop := nameSet(r.without)
	if r.mint > r.maxt {
		return out, nil // an inverted range holds no instant
	}
	cfg, _ := parseBucketCfg(r.cfgTok)
	// which blocks: per set of blocks with equal external labels what bucketBlockSet.getFor selects for the range and
	// the maximum resolution (C15 is the property about that selection; here it is taken from the real function)
	selected := map[int]bool{}
	groups := map[string][]int{}
	for i, b := range r.b.blocks {
		k := promLabels(b.ext).String()
		groups[k] = append(groups[k], i)
	}
	for _, idx := range groups {
		metas := make([]*metadata.Meta, len(idx))
		for k, i := range idx {
			m := &metadata.Meta{}
			m.ULID = blockULID(i)
			m.MinTime, m.MaxTime = r.b.blocks[i].mint, r.b.blocks[i].maxt
			m.Thanos.Downsample.Resolution = r.b.blocks[i].res
			metas[k] = m
		}
		_, res := store.VerifStoresBlockSetGetFor(metas, r.mint, r.maxt, int64(cfg.maxRes), nil)
		for _, k := range res {
			selected[idx[k]] = true
		}
	}
	for i, b := range r.b.blocks {
		if !selected[i] {
			continue
		}
		ext := promLabels(b.ext)
		var residual []*labels.Matcher
		rejected := false
		for _, m := range r.pms {
			v := ext.Get(m.Name)
			if v == "" {
				residual = append(residual, m)
			} else if !m.Matches(v) {
				rejected = true
			}
		}
		if rejected || len(residual) == 0 {
			continue
		}
		q, err := tsdb.NewBlockChunkQuerier(r.b.opened[i], r.mint, r.maxt)
		if err != nil {
			return nil, err
		}
		set := q.Select(context.Background(), true, &storage.SelectHints{Start: r.mint, End: r.maxt, DisableTrimming: true}, residual...)
		for set.Next() {
			s := set.At()
			m := map[string]string{}
			s.Labels().Range(func(l labels.Label) { m[l.Name] = l.Value })
			ext.Range(func(l labels.Label) { m[l.Name] = l.Value })
			for n := range drop {
				delete(m, n)
			}
			key := labels.FromMap(m).String()
			it := s.Iterator(nil)
			n := 0
			for it.Next() {
				c := it.At()
				if out[key] == nil {
					out[key] = map[string]struct{}{}
				}
				if c.Chunk.Encoding() == downsample.ChunkEncAggr {
					// the aggregates the request asks for, decoded from the aggregated chunk
					var parts []string
					for a := 0; a < 5; a++ {
						if cfg.aggrs&(1<<a) == 0 {
							continue
						}
						sub, err := downsample.AggrChunk(c.Chunk.Bytes()).Get(downsample.AggrType(a))
						if err != nil {
							parts = append(parts, aggrNames[a]+"=!"+err.Error())
							continue
						}
						parts = append(parts, fmt.Sprintf("%s=%d:%x", aggrNames[a], int(sub.Encoding()), sub.Bytes()))
					}
					out[key][fmt.Sprintf("%d/%d/aggr/%s", c.MinTime, c.MaxTime, strings.Join(parts, ";"))] = struct{}{}
				} else {
					out[key][fmt.Sprintf("%d/%d/%d/%x", c.MinTime, c.MaxTime, int(c.Chunk.Encoding()), c.Chunk.Bytes())] = struct{}{}
				}
				n++
			}
			if err := it.Err(); err != nil {
				_ = q.Close()
				return nil, err
			}
		}
		if err := set.Err(); err != nil {
			_ = q.Close()
			return nil, err
		}
		_ = q.Close()
	}
	return out, nil
}

func encToProm(e storepb.Chunk_Encoding) int {
	switch e {
	case storepb.Chunk_XOR:
		return int(chunkenc.EncXOR)
	case storepb.Chunk_HISTOGRAM:
		return int(chunkenc.EncHistogram)
	case storepb.Chunk_FLOAT_HISTOGRAM:
		return int(chunkenc.EncFloatHistogram)
	}
	return -1
}

// checkAgainstReader is the property oracle of C10.
func (r *stReq) checkAgainstReader(c *hlib.Ctx, frames []frame, skip bool) {
	ref, err := r.promRead()
	if err != nil {
		c.Note("prometheus reader failed: " + err.Error())
		return
	}
	got := refSeries{}
	for i, f := range frames {
		k := f.lset.String()
		if got[k] == nil {
			got[k] = map[string]struct{}{}
		}
		if i > 0 && labels.Compare(frames[i-1].lset, f.lset) > 0 {
			c.Violation("answer-unsorted", fmt.Sprintf("series %s comes after %s", f.lset, frames[i-1].lset))
		}
		for j, ch := range f.chunks {
			if ch.aggr != nil || (ch.data == "" && ch.id < 0) {
				var parts []string
				for a := 0; a < 5; a++ {
					if d, ok := ch.aggr[aggrNames[a]]; ok {
						parts = append(parts, fmt.Sprintf("%s=%d:%x", aggrNames[a], int(chunkenc.EncXOR), d))
					}
				}
				got[k][fmt.Sprintf("%d/%d/aggr/%s", ch.mint, ch.maxt, strings.Join(parts, ";"))] = struct{}{}
			} else {
				got[k][fmt.Sprintf("%d/%d/%d/%x", ch.mint, ch.maxt, encToProm(ch.enc), ch.data)] = struct{}{}
			}
			if j > 0 && f.chunks[j-1].mint > ch.mint {
				c.Violation("answer-unsorted", fmt.Sprintf("chunks of %s are not sorted by min time", f.lset))
			}
		}
	}
	for k, chunks := range ref {
		g, ok := got[k]
		if !ok {
			c.Violation("series-missing", fmt.Sprintf("the TSDB reader returns %s, the store does not", k))
			continue
		}
		if skip {
			continue
		}
		for ch := range chunks {
			if _, ok := g[ch]; !ok {
				c.Violation("chunk-missing", fmt.Sprintf("series %s: chunk %.40s of the TSDB reader is not in the store's answer", k, ch))
			}
		}
		for ch := range g {
			if _, ok := chunks[ch]; !ok {
				c.Violation("chunk-extra", fmt.Sprintf("series %s: chunk %.40s of the store's answer is not in the TSDB reader's", k, ch))
			}
		}
	}
	for k := range got {
		if _, ok := ref[k]; !ok {
			c.Violation("series-extra", fmt.Sprintf("the store returns %s, the TSDB reader does not", k))
		}
	}
}

// last seen values of the path counters, per store instance
var c10Counters = map[string]float64{}

// answers of other configurations for the same (blocks, request), within one run
var c10Seen = map[string]string{}

func execC10Series(c *hlib.Ctx, r *stReq, skip bool, fresh bool) string {
	var srv *seriesServer
	var err error
	if fresh {
		cfg, perr := parseBucketCfg(r.cfgTok)
		if perr != nil {
			return "bad-op"
		}
		_ = cfg
	}
	srv, err, ok := r.series(skip)
	if !ok {
		return "bad-op"
	}
	if err != nil {
		return errEnum(err)
	}
	if len(srv.warnings) > 0 {
		return "warning"
	}
	if r.kind == "bkt" {
		r.checkAgainstReader(c, srv.frames, skip)
		if cfg, err := parseBucketCfg(r.cfgTok); err == nil {
			for _, m := range []string{"thanos_bucket_store_lazy_expanded_postings_total", "thanos_bucket_store_series_refetches_total", "thanos_bucket_store_chunk_refetches_total"} {
				k := cfg.storeKey() + m
				if v := r.b.storeCounter(cfg, m); v > c10Counters[k] {
					c10Counters[k] = v
					c.Count("path:" + strings.TrimSuffix(strings.TrimPrefix(m, "thanos_bucket_store_"), "_total"))
				}
			}
		}
	}
	return "ok " + canonSeries(srv.frames, skip)
}

func execC10(c *hlib.Ctx, tok []string) string {
	if len(tok) == 0 {
		return "bad-op"
	}
	switch tok[0] {
	case "st.series":
		if len(tok) != 8 {
			return "bad-op"
		}
		r, ok := parseStReq(tok)
		if !ok {
			return "bad-op"
		}
		ans := execC10Series(c, r, tok[7] == "1", false)
		key := strings.Join(tok[2:], " ")
		if cfg, err := parseBucketCfg(r.cfgTok); err == nil {
			key = fmt.Sprintf("x%d a%d %s", cfg.maxRes, cfg.aggrs, key) // resolution and aggregates belong to the request
		}
		if prev, ok := c10Seen[key]; ok && prev != ans {
			c.Violation("answer-depends-on-configuration", fmt.Sprintf("%s answered %.200s, another configuration %.200s", tok[1], ans, prev))
		}
		c10Seen[key] = ans
		if len(c10Seen) > 5000 {
			c10Seen = map[string]string{}
		}
		return ans
	case "st.hist":
		if len(tok) != 4 {
			return "bad-op"
		}
		reqs := strings.Split(tok[3], "!")
		var answers []string
		// a fresh store: drop the cached instance of this configuration first
		if b, err := getBuilt(tok[2]); err == nil {
			k := strings.SplitN(tok[1], "+", 2)
			if len(k) == 2 {
				if cfg, err := parseBucketCfg(k[1]); err == nil {
					if s, ok := b.stores[cfg.storeKey()]; ok {
						_ = s.Close()
						delete(b.stores, cfg.storeKey())
						for k := range c10Counters {
							if strings.HasPrefix(k, cfg.storeKey()) {
								delete(c10Counters, k)
							}
						}
					}
				}
			}
		}
		for _, rq := range reqs {
			f := strings.Split(rq, "~")
			if len(f) != 5 {
				return "bad-op"
			}
			sub := []string{"st.series", tok[1], tok[2], f[0], f[1], f[2], f[3], f[4]}
			r, ok := parseStReq(sub)
			if !ok {
				return "bad-op"
			}
			answers = append(answers, execC10Series(c, r, f[4] == "1", true))
		}
		return strings.Join(answers, " | ")
	case "pg.groups":
		return execPgGroups(c, tok)
	case "part.gap":
		if len(tok) != 3 {
			return "bad-op"
		}
		maxGap, err := strconv.ParseUint(tok[1], 10, 64)
		if err != nil {
			return "bad-op"
		}
		var rs [][2]uint64
		for _, t := range hlib.Split(tok[2], ",") {
			f := strings.Split(t, ":")
			if len(f) != 2 {
				return "bad-op"
			}
			a, e1 := strconv.ParseUint(f[0], 10, 64)
			b, e2 := strconv.ParseUint(f[1], 10, 64)
			if e1 != nil || e2 != nil {
				return "bad-op"
			}
			rs = append(rs, [2]uint64{a, b})
		}
		parts := store.NewGapBasedPartitioner(maxGap).Partition(len(rs), func(i int) (uint64, uint64) { return rs[i][0], rs[i][1] })
		out := make([]string, len(parts))
		covered := 0
		for i, p := range parts {
			out[i] = fmt.Sprintf("%d:%d:%d:%d", p.Start, p.End, p.ElemRng[0], p.ElemRng[1])
			// oracle: parts are consecutive element ranges, each covers its elements
			if p.ElemRng[0] != covered || p.ElemRng[1] <= p.ElemRng[0] {
				c.Violation("partition-elements", fmt.Sprintf("part %d has element range %v after %d elements", i, p.ElemRng, covered))
			}
			covered = p.ElemRng[1]
			for k := p.ElemRng[0]; k < p.ElemRng[1] && k < len(rs); k++ {
				if rs[k][0] < p.Start || rs[k][1] > p.End {
					c.Violation("partition-cover", fmt.Sprintf("range %v is not inside part %d [%d,%d)", rs[k], i, p.Start, p.End))
				}
			}
		}
		if covered != len(rs) {
			c.Violation("partition-elements", fmt.Sprintf("%d of %d ranges are in a part", covered, len(rs)))
		}
		return hlib.Join(out, ",")
	}
	return "bad-op"
}

// genC10Cfg draws one of a dozen configurations per dataset (every configuration is a BucketStore instance).
func genC10Cfg(r *hlib.Rand) string {
	return fmt.Sprintf("bkt+l%d+b%d+s%d+c%d+g%d+m%d+k%d", r.Intn(2), pickInt(r, 1, 3, 10000), pickInt(r, 1, 3, 32), r.Intn(3), pickInt(r, 0, 16, 512*1024),
		pickInt(r, 0, 1, r.Range(6, 48), r.Range(6, 48), 512), pickInt(r, 0, 1, r.Range(8, 40), r.Range(8, 40)))
}

func genC10(c *hlib.Ctx) {
	r := c.R
	// ---- partitioner
	for i, n := 0, c.N(1500, 100000); i < n; i++ {
		k := r.Intn(10)
		var rs []string
		start := uint64(r.Intn(50))
		for j := 0; j < k; j++ {
			ln := uint64(r.Range(1, 40))
			if r.Chance(1, 10) {
				ln = 0
			}
			rs = append(rs, fmt.Sprintf("%d:%d", start, start+ln))
			switch r.Intn(4) {
			case 0: // overlap / same start
				start += uint64(r.Intn(int(ln) + 1))
			case 1: // small gap
				start += ln + uint64(r.Intn(8))
			default:
				start += ln + uint64(r.Intn(60))
			}
		}
		c.Count(fmt.Sprintf("part:ranges-%s", bucketCount(k)))
		c.Do(fmt.Sprintf("part.gap %d %s", pickInt(r, 0, 1, 5, 16, 100), hlib.Join(rs, ",")), k > 0)
	}
	// ---- posting groups
	genPgGroups(c, c.N(3000, 150000))
	// ---- stores
	nStores, nReq := c.N(14, 170), c.N(14, 30)
	for i := 0; i < nStores; i++ {
		g := &storeGen{r: r, storedPool: []int{1, 2, 4, 5, 7, 9, 11}, extPool: []int{5, 6, 9, 11}}
		blocks := g.genBlocks(r.Range(1, 3), pickInt(r, 4, 12, 40), 1)
		if r.Chance(1, 3) && len(blocks) > 1 && addSeriesOnce(&blocks[1], blocks[0].series[0]) {
			blocks[1].ext = blocks[0].ext // one series in two blocks
			c.Count("st:series-in-two-blocks")
		}
		// a third of the stores of the thorough tier (a seventh in the quick tier) hold downsampled (5m / 1h aggregate) blocks next to raw ones
		downsampled := (c.Tier != "quick" && r.Chance(1, 3)) || (c.Tier == "quick" && r.Chance(1, 7))
		if downsampled {
			blocks = g.genDownsampled()
			c.Count("st:downsampled-store")
		}
		tb := showBlocks(blocks)
		var cfgs, lazyCfgs []string
		for k := 0; k < 8; k++ {
			cfgs = append(cfgs, genC10Cfg(r))
		}
		for k := 0; k < 3; k++ {
			lazyCfgs = append(lazyCfgs, fmt.Sprintf("bkt+l1+b%d+s%d+c%d+g%d+m%d+k%d", pickInt(r, 1, 3, 10000), pickInt(r, 1, 3, 32), r.Intn(3), pickInt(r, 0, 16), pickInt(r, 1, 1, r.Range(6, 48)), pickInt(r, 0, r.Range(8, 40))))
		}
		for q := 0; q < nReq; q++ {
			ms := g.genMatchers(blocks)
			mint, maxt := genRange(r, blocks)
			if r.Chance(1, 3) {
				mint, maxt = -10, 100000
			}
			without := "-"
			if r.Chance(1, 4) {
				without = genNames(r, []int{5, 6, 9, 11, 2}, 2)
			}
			sk := 0
			if r.Chance(1, 8) {
				sk = 1
			}
			for _, m := range ms {
				c.Count(fmt.Sprintf("matcher:type%d", m.typ))
				if len(m.vals) > 0 && m.vals[0] == 0 {
					c.Count("matcher:matches-empty")
				}
			}
			xres := pickInt(r, 0, 299999, 300000, 3600000, 3600000, 1<<40)
			aggrs := 1 | r.Intn(32)
			// a third of the requests are made for lazy posting expansion: selectors on two or three different stored
			// labels with values that occur, asked under configurations with lazy expansion on and a tiny series size estimate
			lazyProne := r.Chance(1, 3)
			if lazyProne {
				ms = g.genLazyProneMatchers(blocks)
				c.Count("st:lazy-prone-request")
			}
			// the same request under three of the dataset's configurations, the second one twice (warm cache)
			for k := 0; k < 3; k++ {
				cfg := cfgs[r.Intn(len(cfgs))]
				if lazyProne && k < 2 {
					cfg = lazyCfgs[r.Intn(len(lazyCfgs))]
				}
				if downsampled {
					// resolution and aggregates of the request (count is always asked for: it carries the chunk id)
					cfg += fmt.Sprintf("+x%d+a%d", xres, aggrs)
				}
				line := fmt.Sprintf("st.series %s %s %d %d %s %s %d", cfg, tb, mint, maxt, showMatchers(ms), without, sk)
				ans := c.Do(line, true)
				c.Count("st:answer-" + answerKind(ans))
				if k == 1 {
					c.Do(line, false)
				}
			}
			// cache histories with the SAME selectors over DIFFERENT ranges on a fresh store with a real index cache and lazy
			// expansion made to happen: what the first (fully drained) request caches for (block, selectors) — the expanded
			// postings, which have no time range in their key — must serve a later request over another range. Series are
			// sparse (they cover only a part of their block), so a narrow first range leaves matching series without chunks.
			if r.Chance(1, 3) {
				hms := ms
				if !lazyProne {
					hms = g.genLazyProneMatchers(blocks)
				}
				lo, hi := genRange(r, blocks)
				var ranges [][2]int64
				switch r.Intn(3) {
				case 0: // narrow -> wide
					mid := lo + (hi-lo)/2
					ranges = [][2]int64{{mid, mid + r.I64Range(0, 5)}, {-10, 100000}, {lo, hi}}
				case 1: // disjoint
					mid := lo + (hi-lo)/2
					ranges = [][2]int64{{lo, mid}, {mid + 1, hi + 20}, {-10, 100000}}
				default: // shifted
					d := r.I64Range(1, 40)
					ranges = [][2]int64{{lo, hi}, {lo + d, hi + d}, {lo - d, hi - d}, {-10, 100000}}
				}
				var rqs []string
				for _, rg := range ranges {
					rqs = append(rqs, fmt.Sprintf("%d~%d~%s~%s~%d", rg[0], rg[1], showMatchers(hms), without, sk))
				}
				c.Count("st:history-same-selectors-other-ranges")
				c.Do(fmt.Sprintf("st.hist bkt+l1+b%d+s%d+c1+m1 %s %s", pickInt(r, 1, 3, 10000), pickInt(r, 1, 3, 32), tb, strings.Join(rqs, "!")), true)
			}
			// a cache history on a fresh store: the request, another one, the request again
			if r.Chance(1, 3) {
				ms2 := g.genMatchers(blocks)
				rq := func(ms []specMatcher, a, b int64) string {
					return fmt.Sprintf("%d~%d~%s~%s~%d", a, b, showMatchers(ms), without, sk)
				}
				c.Count("st:history")
				c.Do(fmt.Sprintf("st.hist %s %s %s!%s!%s!%s", fmt.Sprintf("bkt+l%d+b%d+s%d+c%d+m%d", r.Intn(2), pickInt(r, 1, 3, 10000), pickInt(r, 1, 3, 32), r.Range(1, 2), pickInt(r, 0, 1, 24)),
					tb, rq(ms, mint, maxt), rq(ms2, mint, maxt), rq(ms, mint, maxt), rq(ms, mint+1, maxt)), true)
			}
		}
	}
}

var _ = sort.Strings

// addSeriesOnce appends s to the block unless the block already holds its label set.
func addSeriesOnce(b *specBlock, s specSeries) bool {
	k := showLabels(s.lset)
	for _, t := range b.series {
		if showLabels(t.lset) == k {
			return false
		}
	}
	b.series = append(b.series, s)
	return true
}

// genDownsampled: one or two external label sets whose time line is cut into ranges that are present as raw, 5m and/or
// 1h blocks (gaps, partial downsampling, a finer block spanning coarser ones), each block with its own series.
func (g *storeGen) genDownsampled() []specBlock {
	r := g.r
	var out []specBlock
	exts := [][]specLabel{genLabelSet(r, g.extPool, r.Range(1, 2))}
	if r.Chance(1, 3) {
		exts = append(exts, genLabelSet(r, g.extPool, r.Range(1, 2)))
	}
	for _, ext := range exts {
		t := int64(r.Intn(30))
		for i, n := 0, r.Range(1, 3); i < n; i++ {
			w := int64(r.Range(2, 6)) * 20
			present := r.Range(1, 7)
			for k, res := range []int64{0, 300000, 3600000} {
				if present&(1<<k) == 0 {
					continue
				}
				b := specBlock{ext: ext, mint: t, maxt: t + w, res: res}
				b.series = g.genSeries(r.Range(1, 6), b.mint, b.maxt)
				out = append(out, b)
			}
			t += w
			if r.Chance(1, 4) {
				t += int64(r.Range(5, 40))
			}
		}
		if r.Chance(1, 3) && len(out) > 0 {
			// a finer block spanning what is there so far
			b := specBlock{ext: ext, mint: out[0].mint - 5, maxt: t + 5, res: []int64{0, 300000}[r.Intn(2)]}
			b.series = g.genSeries(r.Range(1, 5), b.mint, b.maxt)
			out = append(out, b)
		}
	}
	if len(out) > 6 {
		out = out[:6]
	}
	return out
}

// genLazyProneMatchers: two or three selectors on different stored label names, each with at least one posting.
func (g *storeGen) genLazyProneMatchers(blocks []specBlock) []specMatcher {
	r := g.r
	present := map[int][]int{}
	for _, b := range blocks {
		for _, s := range b.series {
			for _, l := range s.lset {
				present[l.n] = append(present[l.n], l.v)
			}
		}
	}
	var names []int
	for n := range present {
		names = append(names, n)
	}
	sort.Ints(names)
	p := r.Perm(len(names))
	var out []specMatcher
	for i := 0; i < len(names) && len(out) < r.Range(2, 3); i++ {
		name := names[p[i]]
		vs := present[name]
		var typ int
		var pat string
		switch r.Intn(5) {
		case 0:
			typ, pat = 1, "" // != ""
		case 1:
			typ, pat = 2, ".+"
		case 2:
			typ, pat = 1, valueTab[vs[r.Intn(len(vs))]]
		case 3:
			typ, pat = 2, valueTab[vs[r.Intn(len(vs))]]+"|"+valueTab[vs[r.Intn(len(vs))]]
			if strings.ContainsAny(pat, ".") {
				typ, pat = 0, valueTab[vs[r.Intn(len(vs))]]
			}
		default:
			typ, pat = 0, valueTab[vs[r.Intn(len(vs))]]
		}
		m, err := mkMatcher(typ, name, pat)
		if err != nil {
			continue
		}
		out = append(out, specMatcher{typ, name, pat, matcherVals(m)})
	}
	return out
}
