package main

import (
	"context"
	"fmt"
	"strconv"
	"strings"
	"sync"

	"github.com/prometheus/client_golang/prometheus"
	dto "github.com/prometheus/client_model/go"
	"github.com/prometheus/prometheus/model/labels"
	"google.golang.org/grpc/codes"
	"google.golang.org/grpc/status"

	"github.com/thanos-io/thanos/pkg/store"
	"github.com/thanos-io/thanos/pkg/store/storepb"
	"github.com/thanos-io/thanos/verifharness/hlib"
)

// C09 — Series request limits are enforced.
//
// ops:
//   lim.seq <limit> <n,n,…>     the real store.Limiter: Reserve(n) in order
//                                 -> `<1|0,…> failed=<value of the failure counter>` (1 = granted)
//   st.limits bkt+<cfg> <blocks> <mint> <maxt> <matchers> <without> <skip>
//                               BucketStore.Series with the series/chunks limits of cfg (sl<n>, cl<n>; 0 = off), lazy
//                               expanded postings off: what is reserved is determined by the data
//                                 -> `ok s=<series> c=<chunks>` (distinct label sets / their distinct chunks) | exhausted | <error enum>
//   o.limits  (same arguments, lazy expanded postings on: reservations depend on posting-size heuristics)
//                               oracle only
//
//   o.lim.conc <limit> <goroutines> <reservations each> <size>   one Limiter, concurrent reservations (oracle: limiter-overgrant)
//   o.limited <blocks> <mint> <maxt> <matchers> <series limit>
//                               the TSDBStore of the first block behind store.NewLimitedStoreServer (the limit of
//                               --store.limits.request-series on sidecar, ruler, receive and querier); oracle only
//
// oracle classes of o.limited: limit-exceeded-silently, truncated (as below), and
//   limited-server-code-not-resource-exhausted   the request exceeds the limit and the call fails, but not with
//                             ResourceExhausted (limitedServer.Send returned a plain wrapped error; repaired in /repo)
//
// oracle classes (both store ops; "demand" is computed from the blocks in the op line with the real matchers):
//   limit-exceeded-silently   the call succeeded with more series (chunks) than the series (chunks) limit
//   truncated                 the call succeeded but returned something else than the same call without limits
//   wrong-error-code          a limit was exceeded and the call failed with another code than ResourceExhausted
//   spurious-exhausted        ResourceExhausted although even the largest possible reservation (all series matching
//                             the selectors in the selected blocks / all their chunks in range) is within both limits
//   exhausted-not-reported    the merged result exceeds a limit, yet the call succeeded  (= limit-exceeded-silently)

func init() {
	props = append(props, &hlib.Prop{ID: "C09", Gen: genC09, Exec: execC09})
}

func counterValue(c prometheus.Counter) int {
	var m dto.Metric
	if err := c.Write(&m); err != nil || m.Counter == nil {
		return -1
	}
	return int(m.Counter.GetValue())
}

func execLimSeq(tok []string) string {
	if len(tok) != 3 {
		return "bad-op"
	}
	limit, err := strconv.ParseUint(tok[1], 10, 64)
	if err != nil {
		return "bad-op"
	}
	ctr := prometheus.NewCounter(prometheus.CounterOpts{Name: "x"})
	l := store.NewLimiter(limit, ctr)
	var out []string
	for _, n := range hlib.ParseInts(tok[2], ",") {
		if n < 0 {
			return "bad-op"
		}
		if l.Reserve(uint64(n)) == nil {
			out = append(out, "1")
		} else {
			out = append(out, "0")
		}
	}
	return fmt.Sprintf("%s failed=%d", hlib.Join(out, ","), counterValue(ctr))
}

// demand is what the request asks of the selected blocks, computed from the op line with the real matchers.
type demand struct {
	postings int // Σ over selected blocks of the series satisfying the residual matchers
	entries  int // … of those with a chunk in range
	chunks   int // Σ of their chunks in range
}

func (r *stReq) demand() demand {
	var d demand
	for _, b := range r.b.blocks {
		if !(b.mint <= r.maxt && r.mint < b.maxt) {
			continue
		}
		ext := promLabels(b.ext)
		var residual []*labels.Matcher
		rejected := false
		for _, m := range r.pms {
			v := ext.Get(m.Name)
			if v == "" {
				residual = append(residual, m)
			} else if !m.Matches(v) {
				rejected = true
			}
		}
		if rejected || len(residual) == 0 {
			continue
		}
		for _, s := range b.series {
			ls := promLabels(s.lset)
			ok := true
			for _, m := range residual {
				if !m.Matches(ls.Get(m.Name)) {
					ok = false
				}
			}
			if !ok {
				continue
			}
			d.postings++
			n := 0
			for _, c := range s.chunks {
				if c.mint <= r.maxt && c.maxt >= r.mint {
					n++
				}
			}
			if n > 0 {
				d.entries++
				d.chunks += n
			}
		}
	}
	return d
}

func countResp(frames []frame) (series, chunks int) {
	type key struct {
		l  string
		id int
	}
	ls := map[string]struct{}{}
	cs := map[key]struct{}{}
	for _, f := range frames {
		k := f.lset.String()
		ls[k] = struct{}{}
		for _, c := range f.chunks {
			cs[key{k, c.id}] = struct{}{}
		}
	}
	return len(ls), len(cs)
}

func execStLimits(c *hlib.Ctx, tok []string) string {
	if len(tok) != 8 {
		return "bad-op"
	}
	r, ok := parseStReq(tok)
	if !ok || r.kind != "bkt" {
		return "bad-op"
	}
	cfg, err := parseBucketCfg(r.cfgTok)
	if err != nil {
		return "bad-op"
	}
	if (tok[0] == "st.limits") == cfg.lazy {
		return "bad-op" // st.limits is the deterministic (non-lazy) variant, o.limits the lazy one
	}
	skip := tok[7] == "1"
	lazyBefore := r.b.storeCounter(cfg, "thanos_bucket_store_lazy_expanded_postings_total")
	srv, serr, ok := r.series(skip)
	if !ok {
		return "bad-op"
	}
	if r.b.storeCounter(cfg, "thanos_bucket_store_lazy_expanded_postings_total") > lazyBefore {
		c.Count(fmt.Sprintf("path:lazy-expansion-taken:skip-chunks=%v", skip))
	}
	// the same request without limits, on the same store instance
	free := *r
	fcfg := cfg
	fcfg.seriesLimit, fcfg.chunksLimit = 0, 0
	free.cfgTok = fcfg.String()
	fsrv, ferr, _ := free.series(skip)
	if ferr != nil {
		return "bad-op"
	}
	d := r.demand()
	ns, nc := countResp(fsrv.frames)
	if skip {
		nc = 0
	}
	overS := cfg.seriesLimit > 0 && uint64(ns) > cfg.seriesLimit
	overC := cfg.chunksLimit > 0 && uint64(nc) > cfg.chunksLimit
	if serr == nil {
		gs, gc := countResp(srv.frames)
		if cfg.seriesLimit > 0 && uint64(gs) > cfg.seriesLimit {
			c.Violation("limit-exceeded-silently", fmt.Sprintf("%d series returned, series limit %d", gs, cfg.seriesLimit))
		}
		if !skip && cfg.chunksLimit > 0 && uint64(gc) > cfg.chunksLimit {
			c.Violation("limit-exceeded-silently", fmt.Sprintf("%d chunks returned, chunks limit %d", gc, cfg.chunksLimit))
		}
		if canonSeries(srv.frames, skip) != canonSeries(fsrv.frames, skip) {
			c.Violation("truncated", "the limited call succeeded with another answer than the unlimited call")
		}
		if overS || overC {
			c.Violation("limit-exceeded-silently", fmt.Sprintf("the request yields %d series / %d chunks, limits %d / %d, and the call succeeded", ns, nc, cfg.seriesLimit, cfg.chunksLimit))
		}
		if skip {
			gc = 0
		}
		return fmt.Sprintf("ok s=%d c=%d", gs, gc)
	}
	code := status.Code(serr)
	if code != codes.ResourceExhausted {
		if overS || overC {
			c.Violation("wrong-error-code", fmt.Sprintf("limit exceeded, but the call failed with %s: %v", code, serr))
		}
		return errEnum(serr)
	}
	maxChunks := d.chunks
	if skip {
		maxChunks = 0
	}
	if !(cfg.seriesLimit > 0 && uint64(d.postings) > cfg.seriesLimit) && !(cfg.chunksLimit > 0 && uint64(maxChunks) > cfg.chunksLimit) {
		c.Violation("spurious-exhausted", fmt.Sprintf("ResourceExhausted although at most %d series / %d chunks can be reserved, limits %d / %d: %v",
			d.postings, maxChunks, cfg.seriesLimit, cfg.chunksLimit, serr))
	}
	return "exhausted"
}

// execLimConc: o.lim.conc <limit> <goroutines> <reservations each> <size>
//
//	one Limiter, several goroutines reserving at the same time (the atomic counter is what makes the limit hold)
//	oracle: limiter-overgrant — the granted reservations sum to more than the limit
func execLimConc(c *hlib.Ctx, tok []string) string {
	if len(tok) != 5 {
		return "bad-op"
	}
	var v [4]uint64
	for i := range v {
		x, err := strconv.ParseUint(tok[i+1], 10, 64)
		if err != nil {
			return "bad-op"
		}
		v[i] = x
	}
	limit, gor, each, size := v[0], int(v[1]), int(v[2]), v[3]
	if gor < 1 || gor > 64 || each > 1000000 {
		return "bad-op"
	}
	l := store.NewLimiter(limit, prometheus.NewCounter(prometheus.CounterOpts{Name: "x"}))
	granted := make([]uint64, gor)
	var wg sync.WaitGroup
	start := make(chan struct{})
	for g := 0; g < gor; g++ {
		wg.Add(1)
		go func(g int) {
			defer wg.Done()
			<-start
			for i := 0; i < each; i++ {
				if l.Reserve(size) == nil {
					granted[g] += size
				}
			}
		}(g)
	}
	close(start)
	wg.Wait()
	var sum uint64
	for _, x := range granted {
		sum += x
	}
	if limit > 0 && sum > limit {
		c.Violation("limiter-overgrant", fmt.Sprintf("%d goroutines were granted %d in total, limit %d", gor, sum, limit))
	}
	demand := uint64(gor) * uint64(each) * size
	if limit > 0 && demand <= limit && sum != demand {
		c.Violation("spurious-exhausted", fmt.Sprintf("demand %d within the limit %d, only %d granted", demand, limit, sum))
	}
	if limit > 0 && sum > limit {
		return "overgrant"
	}
	return "ok"
}

func execLimited(c *hlib.Ctx, tok []string) string {
	if len(tok) != 6 {
		return "bad-op"
	}
	r, ok := parseStReq([]string{tok[0], "tsdb", tok[1], tok[2], tok[3], tok[4], "-"})
	limit, err := strconv.ParseUint(tok[5], 10, 64)
	if !ok || err != nil {
		return "bad-op"
	}
	free, ferr, _ := r.series(false)
	if ferr != nil {
		return "free:" + errEnum(ferr)
	}
	want, _ := countResp(free.frames)
	// the limiter of limitedStoreServer counts every series message, frames of one series included
	frames := len(free.frames)
	lim := store.NewLimitedStoreServer(r.b.tsdbs[0], nil, store.SeriesSelectLimits{SeriesPerRequest: limit})
	srv := &seriesServer{ctx: context.Background()}
	req := &storepb.SeriesRequest{MinTime: r.mint, MaxTime: r.maxt, Matchers: r.sms, PartialResponseStrategy: storepb.PartialResponseStrategy_ABORT}
	serr := lim.Series(req, srv)
	if serr == nil {
		got, _ := countResp(srv.frames)
		if limit > 0 && uint64(got) > limit {
			c.Violation("limit-exceeded-silently", fmt.Sprintf("%d series returned through the limited server, limit %d", got, limit))
		}
		if canonSeries(srv.frames, false) != canonSeries(free.frames, false) {
			c.Violation("truncated", "the limited server succeeded with another answer than the store behind it")
		}
		return fmt.Sprintf("ok s=%d", got)
	}
	code := status.Code(serr)
	if limit == 0 || uint64(frames) <= limit {
		c.Violation("spurious-exhausted", fmt.Sprintf("the limited server failed (%v) although the answer has %d series messages, limit %d", serr, frames, limit))
	} else if code != codes.ResourceExhausted {
		c.Violation("limited-server-code-not-resource-exhausted", fmt.Sprintf("%d series (%d messages) exceed the limit %d and the call fails with code %s: %v", want, frames, limit, code, serr))
	}
	return "failed:" + code.String()
}

func execC09(c *hlib.Ctx, tok []string) string {
	if len(tok) == 0 {
		return "bad-op"
	}
	switch tok[0] {
	case "lim.seq":
		return execLimSeq(tok)
	case "st.limits", "o.limits":
		return execStLimits(c, tok)
	case "o.limited":
		return execLimited(c, tok)
	case "o.lim.conc":
		return execLimConc(c, tok)
	}
	return "bad-op"
}

func genC09(c *hlib.Ctx) {
	r := c.R
	// ---- the limiter itself
	for i, n := 0, c.N(1500, 100000); i < n; i++ {
		k := r.Intn(9)
		ns := make([]int64, k)
		var sum int64
		for j := range ns {
			ns[j] = int64(r.Intn(20))
			if r.Chance(1, 8) {
				ns[j] = 0
			}
			sum += ns[j]
		}
		var limit int64
		switch r.Intn(5) {
		case 0:
			limit = 0
			c.Count("lim:disabled")
		case 1:
			limit = sum
			c.Count("lim:exactly-the-sum")
		case 2:
			limit = sum + 1
			c.Count("lim:sum+1")
		case 3:
			if sum > 0 {
				limit = sum - 1
			}
			c.Count("lim:sum-1")
		default:
			limit = int64(r.Intn(int(sum) + 5))
			c.Count("lim:random")
		}
		c.Do(fmt.Sprintf("lim.seq %d %s", limit, hlib.Ints(ns, ",")), k > 0)
	}
	// ---- one limiter, concurrent reservations
	for i, n := 0, c.N(12, 200); i < n; i++ {
		gor, each, size := pickInt(r, 2, 8, 8, 16), pickInt(r, 2000, 5000, 20000), pickInt(r, 1, 1, 3)
		demand := gor * each * size
		limit := pickInt(r, demand/2, demand/2, demand-1, demand, demand+1, 0)
		c.Count("lim:concurrent")
		c.Do(fmt.Sprintf("o.lim.conc %d %d %d %d", limit, gor, each, size), true)
	}
	// ---- the limited store server in front of a TSDB store
	for i, n := 0, c.N(6, 120); i < n; i++ {
		g := &storeGen{r: r, storedPool: []int{1, 2, 4, 5, 7, 9, 11}, extPool: []int{5, 6, 9, 11}}
		blocks := g.genBlocks(1, 10, 0)
		tb := showBlocks(blocks)
		for q, m := 0, c.N(12, 30); q < m; q++ {
			ms := g.genMatchers(blocks)
			pr, ok := parseStReq([]string{"o.limited", "tsdb", tb, "-10", "100000", showMatchers(ms), "-"})
			if !ok {
				continue
			}
			free, ferr, _ := pr.series(false)
			if ferr != nil {
				continue
			}
			k := len(free.frames)
			limit := pickInt(r, 0, max(k-1, 1), max(k-1, 1), max(k-2, 1), max(k, 1), k+1, r.Range(1, k+2))
			ans := c.Do(fmt.Sprintf("o.limited %s -10 100000 %s %d", tb, showMatchers(ms), limit), true)
			c.Count("limited:" + strings.Fields(ans)[0])
		}
	}
	// ---- the store gateway
	nStores, nReq := c.N(10, 240), c.N(24, 50) // writing a block costs 0.1-0.4 s (write buffers of the Prometheus writers), a request ~1 ms
	for i := 0; i < nStores; i++ {
		g := &storeGen{r: r, storedPool: []int{1, 2, 4, 5, 7, 9, 11}, extPool: []int{5, 6, 9, 11}}
		blocks := g.genBlocks(r.Range(1, 3), 10, 1)
		if r.Chance(1, 3) && len(blocks) > 1 && addSeriesOnce(&blocks[1], blocks[0].series[0]) {
			// the same series in two blocks: merged into one series of the answer, reserved twice
			blocks[1].ext = blocks[0].ext
			c.Count("st:series-in-two-blocks")
		}
		tokBlocks := showBlocks(blocks)
		for q := 0; q < nReq; q++ {
			ms := g.genMatchers(blocks)
			mint, maxt := genRange(r, blocks)
			if r.Chance(1, 2) {
				mint, maxt = -10, 100000
			}
			// a third of the requests are built for lazy posting expansion (selectors on two or three stored labels; asked
			// with a tiny series size estimate): there the per-batch reservation is the only series-limit enforcement
			lazyProne := r.Chance(1, 3)
			if lazyProne {
				ms = g.genLazyProneMatchers(blocks)
			}
			skip := r.Chance(1, 8) || (lazyProne && r.Bool())
			sk := 0
			if skip {
				sk = 1
			}
			// what the request demands, to place the limits around it
			probe := fmt.Sprintf("st.limits bkt %s %d %d %s - %d", tokBlocks, mint, maxt, showMatchers(ms), sk)
			pr, ok := parseStReq(strings.Fields(probe))
			if !ok {
				continue
			}
			d := pr.demand()
			fsrv, ferr, _ := pr.series(skip)
			if ferr != nil {
				continue
			}
			ns, nc := countResp(fsrv.frames)
			place := func(truth, upper int) uint64 {
				switch r.Intn(8) {
				case 0:
					return 0
				case 1:
					return uint64(max(truth-1, 1))
				case 2:
					return uint64(max(truth, 1))
				case 3:
					return uint64(truth + 1)
				case 4:
					return uint64(max(upper-1, 1))
				case 5:
					return uint64(max(upper, 1))
				case 6:
					return uint64(upper + 1)
				}
				return uint64(r.Range(1, upper+3))
			}
			sl, cl := place(ns, d.postings), place(nc, d.chunks)
			for _, lazy := range []int{0, 1} {
				op := "st.limits"
				if lazy == 1 {
					op = "o.limits"
				}
				batch := pickInt(r, 1, 3, 10000)
				cfgTok := fmt.Sprintf("bkt+l%d+b%d+sl%d+cl%d", lazy, batch, sl, cl)
				if lazy == 1 && lazyProne {
					cfgTok += "+m1"
				}
				line := fmt.Sprintf("%s %s %s %d %d %s - %d", op, cfgTok, tokBlocks, mint, maxt, showMatchers(ms), sk)
				ans := c.Do(line, true)
				c.Count(fmt.Sprintf("st:lazy%d:skip%d:%s", lazy, sk, strings.Fields(ans)[0]))
			}
			switch {
			case sl == 0 && cl == 0:
				c.Count("st:limits-off")
			case sl > 0 && uint64(ns) > sl || cl > 0 && uint64(nc) > cl:
				c.Count("st:demand-above-a-limit")
			case (sl == 0 || uint64(d.postings) <= sl) && (cl == 0 || uint64(d.chunks) <= cl):
				c.Count("st:upper-bound-within-limits")
			default:
				c.Count("st:between-answer-and-upper-bound")
			}
		}
	}
}

var _ = context.Background
var _ storepb.SeriesRequest
