// Package hlib is the shared part of the correspondence harness: one seeded PRNG, the
// line protocol writer, the oracle/violation recorder and the run report.
package hlib

import (
	"bufio"
	"encoding/hex"
	"encoding/json"
	"flag"
	"fmt"
	"hash/fnv"
	"os"
	"path/filepath"
	"runtime/debug"
	"sort"
	"strings"
)

// ---------------------------------------------------------------- PRNG (splitmix64)

type Rand struct{ s uint64 }

func NewRand(seed uint64) *Rand { return &Rand{s: seed} }

func (r *Rand) U64() uint64 {
	r.s += 0x9e3779b97f4a7c15
	z := r.s
	z = (z ^ (z >> 30)) * 0xbf58476d1ce4e5b9
	z = (z ^ (z >> 27)) * 0x94d049bb133111eb
	return z ^ (z >> 31)
}

// Intn returns a value in [0,n); n <= 0 gives 0.
func (r *Rand) Intn(n int) int {
	if n <= 0 {
		return 0
	}
	return int(r.U64() % uint64(n))
}

// Range returns a value in [lo,hi].
func (r *Rand) Range(lo, hi int) int { return lo + r.Intn(hi-lo+1) }

func (r *Rand) I64Range(lo, hi int64) int64 {
	if hi <= lo {
		return lo
	}
	return lo + int64(r.U64()%uint64(hi-lo+1))
}

func (r *Rand) Bool() bool { return r.U64()&1 == 1 }

// Chance is true with probability num/den.
func (r *Rand) Chance(num, den int) bool { return r.Intn(den) < num }

func (r *Rand) Bytes(n int) []byte {
	b := make([]byte, n)
	for i := range b {
		b[i] = byte(r.U64())
	}
	return b
}

func (r *Rand) Pick(xs []string) string { return xs[r.Intn(len(xs))] }

func (r *Rand) Perm(n int) []int {
	p := make([]int, n)
	for i := range p {
		p[i] = i
	}
	for i := n - 1; i > 0; i-- {
		j := r.Intn(i + 1)
		p[i], p[j] = p[j], p[i]
	}
	return p
}

// ---------------------------------------------------------------- encoding helpers

// Hex encodes bytes; the empty string is "-" (a token must never be empty).
func Hex(b []byte) string {
	if len(b) == 0 {
		return "-"
	}
	return hex.EncodeToString(b)
}

func HexS(s string) string { return Hex([]byte(s)) }

func UnHex(s string) ([]byte, error) {
	if s == "-" {
		return nil, nil
	}
	return hex.DecodeString(s)
}

func UnHexS(s string) string {
	b, err := UnHex(s)
	if err != nil {
		panic("bad hex token " + s)
	}
	return string(b)
}

// Join joins with sep; the empty list is "-".
func Join(xs []string, sep string) string {
	if len(xs) == 0 {
		return "-"
	}
	return strings.Join(xs, sep)
}

// Split is the inverse of Join.
func Split(s, sep string) []string {
	if s == "-" || s == "" {
		return nil
	}
	return strings.Split(s, sep)
}

func Ints(xs []int64, sep string) string {
	ss := make([]string, len(xs))
	for i, x := range xs {
		ss[i] = fmt.Sprint(x)
	}
	return Join(ss, sep)
}

func ParseInts(s, sep string) []int64 {
	var out []int64
	for _, t := range Split(s, sep) {
		var v int64
		if _, err := fmt.Sscan(t, &v); err != nil {
			panic("bad int token " + t)
		}
		out = append(out, v)
	}
	return out
}

// ---------------------------------------------------------------- run context

type Violation struct {
	Line  int    `json:"line"`  // 1-based line in ops.txt
	Op    string `json:"op"`    // the op line
	Impl  string `json:"impl"`  // what the implementation answered
	Class string `json:"class"` // finding class (matched against known_findings.json)
	What  string `json:"what"`  // human readable
}

type Sample struct {
	Op   string `json:"op"`
	Impl string `json:"impl"`
}

type Prop struct {
	ID string
	// Gen generates op lines by calling c.Do; it is given the tier ("quick", "thorough", "search").
	Gen func(c *Ctx)
	// Exec runs the implementation on one op line (already tokenised) and returns the canonical
	// one-line answer.  It evaluates the property oracle and reports through c.Violation.
	Exec func(c *Ctx, tok []string) string
}

type Ctx struct {
	Prop *Prop
	Tier string
	Seed uint64
	R    *Rand

	ops, impl *bufio.Writer
	line      int
	curOp     string
	pending   []Violation

	Evaluations int
	Distinct    int
	seen        map[uint64]struct{}
	Dist        map[string]int
	Violations  []Violation
	Samples     []Sample
	Notes       []string
	maxSamples  int
	LastPanic   string
}

// N picks the case budget for the tier.
func (c *Ctx) N(quick, thorough int) int {
	switch c.Tier {
	case "thorough":
		return thorough
	case "search":
		return (quick + thorough) / 2
	}
	return quick
}

// Count records one hit of a distribution key (sizes, branches, error kinds …).
func (c *Ctx) Count(key string) { c.Dist[key]++ }

func (c *Ctx) Note(s string) { c.Notes = append(c.Notes, s) }

// Violation is called by Exec (the oracle) when the property fails on the current op.
func (c *Ctx) Violation(class, what string) {
	c.pending = append(c.pending, Violation{Class: class, What: what})
}

// Do runs one op line through the implementation and records it; returns the answer.
// nontrivial marks cases that count towards distinct_nontrivial (deduplicated by content).
func (c *Ctx) Do(op string, nontrivial bool) string {
	c.line++
	c.curOp = op
	c.pending = c.pending[:0]
	out := c.safeExec(op)
	if strings.ContainsAny(out, "\n\r") {
		out = strings.NewReplacer("\n", "\\n", "\r", "\\r").Replace(out)
	}
	fmt.Fprintln(c.ops, op)
	fmt.Fprintln(c.impl, out)
	c.Evaluations++
	if nontrivial {
		h := fnv.New64a()
		h.Write([]byte(op))
		k := h.Sum64()
		if _, ok := c.seen[k]; !ok {
			c.seen[k] = struct{}{}
			c.Distinct++
		}
	}
	for _, v := range c.pending {
		v.Line, v.Op, v.Impl = c.line, op, out
		// keep at most 40 violations per class (a frequent known-finding class must not crowd out
		// an unknown one), 600 in total
		if c.Dist["violation:"+v.Class] < 40 && len(c.Violations) < 600 {
			c.Violations = append(c.Violations, v)
		}
		c.Dist["violation:"+v.Class]++
	}
	if len(c.Samples) < c.maxSamples && (nontrivial || c.line <= 2) && len(op) < 600 {
		c.Samples = append(c.Samples, Sample{Op: op, Impl: out})
	}
	return out
}

func (c *Ctx) safeExec(op string) (out string) {
	defer func() {
		if r := recover(); r != nil {
			c.Dist["impl-panic"]++
			if os.Getenv("VERIF_DEBUG") != "" {
				fmt.Fprintf(os.Stderr, "panic on %q: %v\n%s\n", op, r, debug.Stack())
			}
			c.LastPanic = fmt.Sprint(r)
			out = "panic"
		}
	}()
	return c.Prop.Exec(c, strings.Fields(op))
}

type Report struct {
	Property    string         `json:"property"`
	Tier        string         `json:"tier"`
	Seed        uint64         `json:"seed"`
	Evaluations int            `json:"evaluations"`
	Distinct    int            `json:"distinct_nontrivial"`
	Dist        map[string]int `json:"distribution"`
	Violations  []Violation    `json:"violations"`
	Samples     []Sample       `json:"samples"`
	Notes       []string       `json:"notes"`
}

// Main is the entry point of every family binary:
//
//	h_<family> run <prop> -tier quick -seed 1 -out DIR [-corpus FILE]...   generate + execute
//	h_<family> exec <prop> -out DIR -ops FILE                               execute given op lines only
func Main(props []*Prop) {
	if len(os.Args) < 3 {
		fmt.Fprintln(os.Stderr, "usage: run|exec <prop> [flags]")
		os.Exit(2)
	}
	mode, id := os.Args[1], os.Args[2]
	var p *Prop
	for _, q := range props {
		if q.ID == id {
			p = q
		}
	}
	if p == nil {
		fmt.Fprintf(os.Stderr, "unknown property %s in this family\n", id)
		os.Exit(2)
	}
	fs := flag.NewFlagSet(mode, flag.ExitOnError)
	tier := fs.String("tier", "quick", "quick|thorough|search")
	seed := fs.Uint64("seed", 1, "seed")
	out := fs.String("out", "", "output directory")
	opsFile := fs.String("ops", "", "file of op lines (exec mode)")
	var corpus multi
	fs.Var(&corpus, "corpus", "corpus file of op lines, run before generated cases")
	fs.Parse(os.Args[3:])
	if *out == "" {
		fmt.Fprintln(os.Stderr, "-out required")
		os.Exit(2)
	}
	must(os.MkdirAll(*out, 0o755))
	fo, err := os.Create(filepath.Join(*out, "ops.txt"))
	must(err)
	fi, err := os.Create(filepath.Join(*out, "impl.out"))
	must(err)
	// the PRNG state is derived from the seed and the property id only
	h := fnv.New64a()
	h.Write([]byte(id))
	c := &Ctx{Prop: p, Tier: *tier, Seed: *seed, R: NewRand(*seed*0x9e3779b97f4a7c15 ^ h.Sum64()),
		ops: bufio.NewWriter(fo), impl: bufio.NewWriter(fi),
		seen: map[uint64]struct{}{}, Dist: map[string]int{}, maxSamples: 6}
	runFile := func(path string, tag string) {
		f, err := os.Open(path)
		must(err)
		defer f.Close()
		sc := bufio.NewScanner(f)
		sc.Buffer(make([]byte, 1<<20), 1<<28)
		for sc.Scan() {
			l := strings.TrimSpace(sc.Text())
			if l == "" || strings.HasPrefix(l, "#") {
				continue
			}
			c.Count(tag)
			c.Do(l, true)
		}
		must(sc.Err())
	}
	for _, f := range corpus {
		runFile(f, "corpus")
	}
	switch mode {
	case "run":
		p.Gen(c)
	case "exec":
		if *opsFile != "" {
			runFile(*opsFile, "replayed")
		}
	default:
		fmt.Fprintln(os.Stderr, "unknown mode", mode)
		os.Exit(2)
	}
	must(c.ops.Flush())
	must(c.impl.Flush())
	fo.Close()
	fi.Close()
	rep := Report{Property: id, Tier: *tier, Seed: *seed, Evaluations: c.Evaluations, Distinct: c.Distinct,
		Dist: c.Dist, Violations: c.Violations, Samples: c.Samples, Notes: c.Notes}
	if rep.Violations == nil {
		rep.Violations = []Violation{}
	}
	b, err := json.MarshalIndent(rep, "", " ")
	must(err)
	must(os.WriteFile(filepath.Join(*out, "report.json"), b, 0o644))
}

type multi []string

func (m *multi) String() string     { return strings.Join(*m, ",") }
func (m *multi) Set(s string) error { *m = append(*m, s); return nil }

func must(err error) {
	if err != nil {
		fmt.Fprintln(os.Stderr, "harness error:", err)
		os.Exit(3)
	}
}

// SortedKeys is a small helper for canonical output of Go maps.
func SortedKeys[V any](m map[string]V) []string {
	ks := make([]string, 0, len(m))
	for k := range m {
		ks = append(ks, k)
	}
	sort.Strings(ks)
	return ks
}
