#!/bin/sh
# ./seedtest_all.sh [jobs] — re-runs every seeded change (seeded/*/) against its property's check in scratch worktrees,
# families in parallel; every line must end in exit=1 (caught). Output: /tmp/seedtest-all/<id>.log and a summary.
cd "$(dirname "$0")"
jobs=${1:-4}
out=/tmp/seedtest-all; rm -rf $out; mkdir -p $out
ls -d seeded/*/ | sed 's#/$##' | xargs -P $jobs -I{} sh -c './seedtest.sh {} > '"$out"'/$(basename {}).log 2>&1; tail -1 '"$out"'/$(basename {}).log'
echo; echo "not caught:"; grep -L "exit=1" $out/*.log
