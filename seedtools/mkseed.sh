#!/bin/sh
# mkseed.sh Cxx [suffix] ["variant sentence"]
id=$1; suf=${2:-}; var=${3:-}
wt=/tmp/seed-$id$suf
git -C /repo worktree add -q --detach $wt HEAD || exit 1
mkdir -p $wt/_seed
python3 /verif/.prompts/seed.py $id $wt "$var" | sed "s#':!_seed'#':(exclude)_seed'#" > $wt/_seed/TASK.md
echo $wt
