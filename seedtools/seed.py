import json,sys
pid=sys.argv[1]; wt=sys.argv[2]; variant=sys.argv[3] if len(sys.argv)>3 else ''
p=[json.loads(l) for l in open('/verif/properties.jsonl') if json.loads(l)['id']==pid][0]
print(f'''You are a Go engineer helping to evaluate a verification tool. You work ONLY inside the scratch git worktree {wt} (a checkout of thanos-io/thanos at a pinned commit; it builds and its tests run offline; there is no network). Do not read or write anything under /verif or /repo, and do not look for verification machinery elsewhere on the machine — what you write must be independent of it.

Property under study (this text is all you get):

  id: {pid}
  title: {p['title']}
  statement: {p['statement']}
  quantifier: {p['quantifier']['text']}
  code anchors: {', '.join(p['anchors']['files'])}

Task: make ONE small, realistic change to the Go sources in {wt} (the kind of bug a well-meaning refactor, optimisation or feature patch could introduce) that BREAKS this property while the repository still compiles and the existing tests still pass. The change must need something specific to manifest — a particular interleaving, a crash or fault at a particular point, a multi-step sequence of operations, an unusual input or configuration, or two cooperating sites that each look fine alone — not something ordinary use or the existing tests expose at once. {variant}

Deliver in the directory {wt}/_seed/ (create it):
  1. patch.diff — `git -C {wt} diff -- . ':!_seed'` of your change to non-test source files only (no edits to existing tests; no new files other than, if really needed, new non-test source files);
  2. a demonstration: a NEW Go test file (e.g. {wt}/_seed/demo_test.go plus a note saying into which package directory it must be copied and how to run it) or a small program, that FAILS with your change applied and PASSES without it, and which shows the property (as stated above) being violated — not merely that the code changed;
  3. notes.md — what the change is, why it breaks the property, what exactly is needed for the violation to manifest, which existing test packages you ran (with and without the change) and their results.

Environment for every shell call: `export GOFLAGS=-mod=mod GOPROXY=off GOWORK=off` (do NOT set GOSUMDB or GOTOOLCHAIN; plain `go` switches to the cached 1.26 toolchain by itself). The project's own suite is run WITHOUT build tags: `go test -count=1 -vet=off ./pkg/<package>/...`; run at least the packages you touched and the packages that directly use the changed functions, both with and without your change, and make sure they pass with it. Build everything once with `go build ./...`. Verify your demonstration both ways (fails with the change, passes without it). NEVER use `git stash` (the stash is shared by all worktrees of this repository and other people are working in sibling worktrees): to test without your change do `git diff -- . ':(exclude)_seed' > _seed/patch.diff && git apply -R _seed/patch.diff`, and `git apply _seed/patch.diff` to put it back. Leave the worktree with your change APPLIED and the demo test file only under _seed/ (not inside a package directory) when you finish. Do not commit. Final answer: a 10-line summary (files changed, what manifests the bug, test results).''')
