import json,sys,os,shutil,glob
sid,wt,prop,summary,needs,demo=sys.argv[1:7]
d=f'/verif/seeded/{sid}'
os.makedirs(d,exist_ok=True)
for f in ['patch.diff','notes.md']+[os.path.basename(x) for x in glob.glob(wt+'/_seed/*_test.go')]:
    shutil.copy(f'{wt}/_seed/{f}',d)
json.dump({"property":prop,"source":"independent sub-agent given only the property text and a scratch worktree (nothing from /verif)",
 "summary":summary,"needs_to_manifest":needs,"demo":demo,
 "confirmed":"coordinator re-ran: go build ./... ok with the patch; demo FAILS with the patch and PASSES without it (verify_seed.sh); existing tests of the touched package as reported in notes.md",
 "detected_by":"pending","what_i_ran":"./seedtest.sh seeded/%s"%sid},open(d+'/meta.json','w'),indent=1)
print(d)
