#!/bin/sh
# mkseed3.sh Cxx — third independent seed (-c); tells the agent what the first two were
id=$1
wt=/tmp/seed-${id}c
prev=$(python3 -c "
import json
a=json.load(open('/verif/seeded/$id-a/meta.json'))['summary']; b=json.load(open('/verif/seeded/$id-b/meta.json'))['summary']
print('(1) '+a+'  (2) '+b)")
git -C /repo worktree add -q --detach $wt HEAD || exit 1
mkdir -p $wt/_seed
python3 /verif/.prompts/seed.py $id $wt "Two other engineers have already produced the following changes for this same property: «$prev». Yours must be different in kind from both: a different function or mechanism and a different triggering condition." | sed "s#':!_seed'#':(exclude)_seed'#" > $wt/_seed/TASK.md
echo "Note: this repository's packages pkg/store, pkg/query, pkg/receive, pkg/queryfrontend, pkg/rules, internal/cortex/... only run correctly with \`-tags slicelabels\` (the Makefile's tag) — use that tag for those packages when comparing test results with and without your change. Files named verif_*.go (build tag verif) are test-support re-exports: ignore them, do not edit them." >> $wt/_seed/TASK.md
echo $wt
