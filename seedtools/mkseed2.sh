#!/bin/sh
# mkseed2.sh Cxx  — second independent seed (-b); tells the agent what the first one was so that it differs in kind
id=$1
wt=/tmp/seed-${id}b
prev=$(python3 -c "import json;print(json.load(open('/verif/seeded/$id-a/meta.json'))['summary'])")
git -C /repo worktree add -q --detach $wt HEAD || exit 1
mkdir -p $wt/_seed
python3 /verif/.prompts/seed.py $id $wt "Another engineer has already produced the following change for this same property: «$prev». Yours must be different in kind: a different function or mechanism and a different triggering condition." | sed "s#':!_seed'#':(exclude)_seed'#" > $wt/_seed/TASK.md
echo "Note: this repository's packages pkg/store, pkg/query, pkg/receive, pkg/queryfrontend, pkg/rules, internal/cortex/... only run correctly with \`-tags slicelabels\` (the Makefile's tag) — use that tag for those packages when comparing test results with and without your change. Files named verif_*.go (build tag verif) are test-support re-exports: ignore them, do not edit them." >> $wt/_seed/TASK.md
echo $wt
