#!/bin/sh
id=$1
wt=/tmp/seed-${id}d
prev=$(python3 -c "
import json
print('  '.join('(%d) %s'%(i+1,json.load(open('/verif/seeded/$id-%s/meta.json'%x))['summary']) for i,x in enumerate('abc')))")
git -C /repo worktree add -q --detach $wt HEAD || exit 1
mkdir -p $wt/_seed
python3 /verif/.prompts/seed.py $id $wt "Three other engineers have already produced the following changes for this same property: «$prev». Yours must be different in kind from all three: a different function or mechanism and a different triggering condition. Time-box yourself to about 25 minutes." | sed "s#':!_seed'#':(exclude)_seed'#" > $wt/_seed/TASK.md
echo "Note: this repository's packages pkg/store, pkg/query, pkg/receive, pkg/queryfrontend, pkg/rules, internal/cortex/... only run correctly with \`-tags slicelabels\` (the Makefile's tag) — use that tag for those packages. Files named verif_*.go (build tag verif) are test-support re-exports: ignore them, do not edit them." >> $wt/_seed/TASK.md
echo $wt
