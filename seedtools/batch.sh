#!/bin/bash
# batch.sh: lines "id|pkg|regex|tags|summary|needs"   (id = Cxx for the first seed, Cxxb for the second)
cd /verif/.prompts
while IFS='|' read -r id pkg re tags summary needs; do
  [ -z "$id" ] && continue
  wt=/tmp/seed-$id
  case $id in *b) prop=${id%b}; sid=$prop-b;; *c) prop=${id%c}; sid=$prop-c;; *d) prop=${id%d}; sid=$prop-d;; *) prop=$id; sid=$id-a;; esac
  echo "=== $id verify"
  ./verify_seed.sh $wt $pkg "$re" "$tags" 2>&1 | grep -E "^(==|ok|FAIL|---|BUILD| M )" | head -12
  python3 store_seed.py $sid $wt $prop "$summary" "$needs" "copy demo_test.go into $pkg/; go test $tags -count=1 -vet=off -run '$re' ./$pkg/"
  git -C /repo worktree remove --force $wt
  echo "=== $id seedtest"
  (cd /verif && ./seedtest.sh seeded/$sid 2>&1 | grep -E "^(C[0-9]+ tier|VIOLATION|seedtest|  [A-Z-]+:|model driver)")
done
