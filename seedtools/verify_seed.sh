#!/bin/sh
# verify_seed.sh <wt> <pkgdir> <run-regex> [tags]   — demo must FAIL with the patch and PASS without
wt=$1; pkg=$2; re=$3; tags=${4:-}
export GOFLAGS=-mod=mod GOPROXY=off GOWORK=off
cd $wt || exit 2
git diff -- . ':(exclude)_seed' > /tmp/vs-$$.diff
[ -s /tmp/vs-$$.diff ] || { echo "no change applied in $wt"; exit 2; }
cmp -s /tmp/vs-$$.diff _seed/patch.diff || echo "note: patch.diff differs from applied change (using applied change)"
cp /tmp/vs-$$.diff _seed/patch.diff
for f in _seed/*_test.go; do cp $f $pkg/zz_seed_$(basename $f); done
go build ./... || { echo BUILD-FAIL; exit 1; }
echo "== with change"; go test $tags -count=1 -vet=off -run "$re" ./$pkg/ 2>&1 | tail -4
git apply -R _seed/patch.diff
echo "== without change"; go test $tags -count=1 -vet=off -run "$re" ./$pkg/ 2>&1 | tail -3
git apply _seed/patch.diff
rm -f $pkg/zz_seed_*; rm -f /tmp/vs-$$.diff
git status --short | grep -v _seed
