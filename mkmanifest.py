#!/usr/bin/env python3
"""Regenerates MANIFEST.json from registry.json + manifest_extra.json (run after editing either)."""
import json, os, subprocess
V = os.path.dirname(os.path.abspath(__file__))
reg = {fn[:-5]: json.load(open(os.path.join(V, "registry", fn))) for fn in sorted(os.listdir(os.path.join(V, "registry"))) if fn.endswith(".json")}
reg = {k: v for k, v in reg.items() if not v.get("disabled")}
extra = json.load(open(os.path.join(V, "manifest_extra.json")))
props = [json.loads(l) for l in open(os.path.join(V, "properties.jsonl"))]
checks, na = [], []
for p in props:
    pid = p["id"]
    if pid in reg:
        r = reg[pid]
        checks.append({
            "property_id": pid,
            "quick_cmd": "./check %s --tier quick" % pid,
            "thorough_cmd": "./check %s --tier thorough" % pid,
            "evidence_file": "evidence/%s.json" % pid,
            "replay_cmd_template": "./check %s --replay {path}" % pid,
            "engine": "lean4+correspondence",
            "level_claimed": {"category": "proof", "text": r["level_text"], "design_ref": "DESIGN.md section 7, " + pid},
            "level_note": r["level_note"],
            "technique": r.get("technique", "Lean 4 theorems over a hand-written executable model; model tied to the code by differential correspondence (Go harness vs compiled Lean driver) and regenerated facts"),
        })
    else:
        na.append({"property_id": pid, "reason": extra["not_yet"].get(pid, extra["not_yet_default"])})
m = {
    "version": 1,
    "setup_cmd": "./setup.sh",
    "hooks": extra["hooks"],
    "engines": [{"name": "lean4+correspondence", "path": "check", "serves_properties": sorted(reg.keys()),
                 "kind_free_text": "Lean 4 (core) models + property theorems in lean/, Go differential harness in harness/, go/ast fact extractor in extract/, driver ./check"}],
    "checks": checks,
    "notes": extra["notes"],
    "not_applicable": na,
}
json.dump(m, open(os.path.join(V, "MANIFEST.json"), "w"), indent=1)
print("MANIFEST.json: %d checks, %d not claimed" % (len(checks), len(na)))
