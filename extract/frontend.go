package main

import (
	"go/ast"
	"strings"
)

// regenerated facts of the "frontend" family (C41 C42 C43 C44)

func init() { families = append(families, factsFrontend) }

// feCaseBody returns the statements of the type-switch case of fd whose type list contains typ.
func feCaseBody(fd *ast.FuncDecl, typ string) []ast.Stmt {
	var res []ast.Stmt
	if fd == nil || fd.Body == nil {
		return nil
	}
	ast.Inspect(fd.Body, func(n ast.Node) bool {
		ts, ok := n.(*ast.TypeSwitchStmt)
		if !ok {
			return true
		}
		for _, s := range ts.Body.List {
			cc, ok := s.(*ast.CaseClause)
			if !ok {
				continue
			}
			for _, t := range cc.List {
				if text(t) == typ {
					res = cc.Body
				}
			}
		}
		return false
	})
	return res
}

// feStmts renders statements one per entry; for/if statements are flattened into
// "for <init>; <cond>; <post> {", body…, "}" so that every condition is a separate line.
func feStmts(list []ast.Stmt) []string {
	var out []string
	for _, s := range list {
		switch st := s.(type) {
		case *ast.ForStmt:
			h := "for "
			if st.Init != nil {
				h += text(st.Init)
			}
			h += "; "
			if st.Cond != nil {
				h += text(st.Cond)
			}
			h += "; "
			if st.Post != nil {
				h += text(st.Post)
			}
			out = append(out, h+" {")
			out = append(out, feStmts(st.Body.List)...)
			out = append(out, "}")
		case *ast.RangeStmt:
			h := "for "
			if st.Key != nil {
				h += text(st.Key)
				if st.Value != nil {
					h += ", " + text(st.Value)
				}
				h += " " + st.Tok.String() + " "
			}
			out = append(out, h+"range "+text(st.X)+" {")
			out = append(out, feStmts(st.Body.List)...)
			out = append(out, "}")
		case *ast.IfStmt:
			h := "if "
			if st.Init != nil {
				h += text(st.Init) + "; "
			}
			out = append(out, h+text(st.Cond)+" {")
			out = append(out, feStmts(st.Body.List)...)
			if st.Else != nil {
				out = append(out, "} else {")
				if b, ok := st.Else.(*ast.BlockStmt); ok {
					out = append(out, feStmts(b.List)...)
				} else {
					out = append(out, feStmts([]ast.Stmt{st.Else})...)
				}
			}
			out = append(out, "}")
		default:
			out = append(out, text(s))
		}
	}
	return out
}

func feBody(fd *ast.FuncDecl) []string {
	if fd == nil || fd.Body == nil {
		return nil
	}
	return feStmts(fd.Body.List)
}

// feOrder lists the given identifiers in the order of their first occurrence in fd's body.
func feOrder(fd *ast.FuncDecl, names ...string) []string {
	if fd == nil || fd.Body == nil {
		return nil
	}
	want := map[string]bool{}
	for _, n := range names {
		want[n] = true
	}
	var out []string
	seen := map[string]bool{}
	ast.Inspect(fd.Body, func(n ast.Node) bool {
		if id, ok := n.(*ast.Ident); ok && want[id.Name] && !seen[id.Name] {
			seen[id.Name] = true
			out = append(out, id.Name)
		}
		return true
	})
	return out
}


// feGenState: the generator type's fields, and for every method of it (with the receiver's type as
// written) every use of a receiver field, rendered as the smallest enclosing expression or simple
// statement: a field that is assigned, sliced, appended to or passed on would show up here.
func feGenState(f *ast.File, typ string) (fields, uses []string) {
	if f == nil {
		return nil, nil
	}
	for _, d := range f.Decls {
		gd, ok := d.(*ast.GenDecl)
		if !ok {
			continue
		}
		for _, sp := range gd.Specs {
			ts, ok := sp.(*ast.TypeSpec)
			if !ok || ts.Name.Name != typ {
				continue
			}
			if st, ok := ts.Type.(*ast.StructType); ok {
				for _, fl := range st.Fields.List {
					for _, n := range fl.Names {
						fields = append(fields, n.Name+" "+text(fl.Type))
					}
					if len(fl.Names) == 0 {
						fields = append(fields, "embedded "+text(fl.Type))
					}
				}
			}
		}
	}
	for _, d := range f.Decls {
		fd, ok := d.(*ast.FuncDecl)
		if !ok || fd.Recv == nil || len(fd.Recv.List) != 1 || fd.Body == nil {
			continue
		}
		rt := text(fd.Recv.List[0].Type)
		if strings.TrimPrefix(rt, "*") != typ {
			continue
		}
		recv := "_"
		if len(fd.Recv.List[0].Names) == 1 {
			recv = fd.Recv.List[0].Names[0].Name
		}
		uses = append(uses, "func ("+recv+" "+rt+") "+fd.Name.Name)
		var stack []ast.Node
		ast.Inspect(fd.Body, func(n ast.Node) bool {
			if n == nil {
				stack = stack[:len(stack)-1]
				return true
			}
			if id, ok := n.(*ast.Ident); ok && id.Name == recv && len(stack) > 0 {
				// t alone (passed on / copied) or t.field / t.method(...)
				i := len(stack) - 1
				if sel, ok := stack[i].(*ast.SelectorExpr); ok && sel.X == id {
					if i > 0 {
						if call, ok := stack[i-1].(*ast.CallExpr); ok && call.Fun == sel {
							uses = append(uses, fd.Name.Name+": call "+text(sel))
							stack = append(stack, n)
							return true
						}
						i--
					}
				}
				var encl ast.Node = stack[i]
				switch encl.(type) {
				case *ast.BlockStmt, *ast.ForStmt, *ast.IfStmt, *ast.RangeStmt, *ast.SwitchStmt, *ast.TypeSwitchStmt, *ast.CaseClause:
					encl = stack[len(stack)-1]
				}
				uses = append(uses, fd.Name.Name+": "+text(encl))
			}
			stack = append(stack, n)
			return true
		})
	}
	return
}

func factsFrontend() {
	// ---- C41
	f := parse("pkg/queryfrontend/split_by_interval.go")
	sq := fn(f, "", "splitQuery")
	emitList("splitRangeCase", "pkg/queryfrontend/split_by_interval.go splitQuery: case *ThanosQueryRangeRequest, statement by statement",
		feStmts(feCaseBody(sq, "*ThanosQueryRangeRequest")))
	emitList("splitLabelsCase", "pkg/queryfrontend/split_by_interval.go splitQuery: case SplitRequest, statement by statement",
		feStmts(feCaseBody(sq, "SplitRequest")))
	emitList("nextIntervalBoundaryBody", "pkg/queryfrontend/split_by_interval.go nextIntervalBoundary",
		feBody(fn(f, "", "nextIntervalBoundary")))
	g := parse("internal/cortex/querier/queryrange/step_align.go")
	emitList("stepAlignBody", "internal/cortex/querier/queryrange/step_align.go stepAlign.Do", feBody(fn(g, "stepAlign", "Do")))

	// ---- C43
	ck := parse("pkg/queryfrontend/cache.go")
	var writes []string
	for _, l := range feBody(fn(ck, "thanosCacheKeyGenerator", "generateQueryRangeCacheKey")) {
		if strings.HasPrefix(l, "buf.Write") || strings.HasPrefix(l, "writeCacheKey") {
			writes = append(writes, l)
		}
	}
	emitList("rangeKeyWrites", "pkg/queryfrontend/cache.go generateQueryRangeCacheKey: what is written to the key buffer, in order", writes)
	gk := fn(ck, "thanosCacheKeyGenerator", "GenerateCacheKey")
	emitList("rangeKeyCall", "pkg/queryfrontend/cache.go GenerateCacheKey: case *ThanosQueryRangeRequest", feStmts(feCaseBody(gk, "*ThanosQueryRangeRequest")))
	emitList("labelsKeyFormat", "pkg/queryfrontend/cache.go GenerateCacheKey: case *ThanosLabelsRequest", feStmts(feCaseBody(gk, "*ThanosLabelsRequest")))
	emitList("seriesKeyFormat", "pkg/queryfrontend/cache.go GenerateCacheKey: case *ThanosSeriesRequest", feStmts(feCaseBody(gk, "*ThanosSeriesRequest")))
	emitList("shardInfoKeyBody", "pkg/queryfrontend/cache.go generateShardInfoKey", feBody(fn(ck, "", "generateShardInfoKey")))
	emitList("cacheKeyResolutions", "pkg/queryfrontend/cache.go newThanosCacheKeyGenerator", feBody(fn(ck, "", "newThanosCacheKeyGenerator")))
	gf, gu := feGenState(ck, "thanosCacheKeyGenerator")
	emitList("cacheKeyGenFields", "pkg/queryfrontend/cache.go: fields of thanosCacheKeyGenerator", gf)
	emitList("cacheKeyGenUses", "pkg/queryfrontend/cache.go: methods of thanosCacheKeyGenerator (receiver as written) and every use of the receiver in them", gu)
	var pool []string
	for _, l := range feBody(fn(ck, "thanosCacheKeyGenerator", "generateQueryRangeCacheKey")) {
		if strings.Contains(l, "queryRangeCacheKeyBufferPool") || strings.Contains(l, "buf.String()") || strings.Contains(l, "buf.Reset()") || strings.HasPrefix(l, "return") {
			pool = append(pool, l)
		}
	}
	emitList("rangeKeyBufferLife", "pkg/queryfrontend/cache.go generateQueryRangeCacheKey: life of the pooled buffer (taken, reset, copied out by String, reset, given back, key returned)", pool)
	emitList("shouldCacheBody", "pkg/queryfrontend/roundtrip.go shouldCache", feBody(fn(parse("pkg/queryfrontend/roundtrip.go"), "", "shouldCache")))
	emitList("unsafeTenantBody", "internal/cortex/tenant/resolver.go containsUnsafePathSegments",
		feBody(fn(parse("internal/cortex/tenant/resolver.go"), "", "containsUnsafePathSegments")))

	// ---- C42
	qr := parse("internal/cortex/querier/queryrange/query_range.go")
	emitList("minTimeBody", "internal/cortex/querier/queryrange/query_range.go PrometheusResponse.minTime", feBody(fn(qr, "PrometheusResponse", "minTime")))
	emitList("sliceSamplesBody", "internal/cortex/querier/queryrange/query_range.go SliceSamples", feBody(fn(qr, "", "SliceSamples")))
	rc := parse("internal/cortex/querier/queryrange/results_cache.go")
	emitList("partitionBody", "internal/cortex/querier/queryrange/results_cache.go resultsCache.partition", feBody(fn(rc, "resultsCache", "partition")))
	emitList("atStepBody", "internal/cortex/querier/queryrange/results_cache.go isTimestampAtStep", feBody(fn(rc, "", "isTimestampAtStep")))
	var loop []string
	for _, l := range feBody(fn(rc, "resultsCache", "handleHit")) {
		if strings.Contains(l, "accumulator.End") {
			loop = append(loop, l)
		}
	}
	emitList("extentMergeConds", "internal/cortex/querier/queryrange/results_cache.go handleHit: statements of the extent merge loop that mention accumulator.End", loop)
	emitList("filterRecentBody", "internal/cortex/querier/queryrange/results_cache.go resultsCache.filterRecentExtents", feBody(fn(rc, "resultsCache", "filterRecentExtents")))
	var doLines []string
	for _, l := range feBody(fn(rc, "resultsCache", "Do")) {
		if strings.Contains(l, "maxCacheTime") || strings.Contains(l, "writeBack") || strings.Contains(l, "filterRecentExtents") || strings.Contains(l, "s.put(") {
			doLines = append(doLines, l)
		}
	}
	emitList("doFreshnessLines", "internal/cortex/querier/queryrange/results_cache.go resultsCache.Do: statements about maxCacheTime, writeBack, filterRecentExtents, put", doLines)
	var scLines []string
	for _, name := range []string{"handleMiss", "handleHit"} {
		for _, l := range feBody(fn(rc, "resultsCache", name)) {
			if strings.Contains(l, "shouldCacheResponse") {
				scLines = append(scLines, name+": "+l)
			}
		}
	}
	emitList("shouldCacheResponseUses", "internal/cortex/querier/queryrange/results_cache.go: where handleMiss / handleHit consult shouldCacheResponse", scLines)
	rt := parse("pkg/queryfrontend/roundtrip.go")
	emitList("rangeMiddlewareOrder", "pkg/queryfrontend/roundtrip.go newQueryRangeTripperware: order in which the middlewares are appended",
		feOrder(fn(rt, "", "newQueryRangeTripperware"), "NewLimitsMiddleware", "StepAlignMiddleware", "DownsampledMiddleware", "SplitByIntervalMiddleware", "PromQLShardingMiddleware", "NewResultsCacheMiddleware", "NewRetryMiddleware"))
	steps := "unknown"
	if ck != nil {
		for _, d := range ck.Decls {
			if gd, ok := d.(*ast.GenDecl); ok {
				for _, sp := range gd.Specs {
					if vs, ok := sp.(*ast.ValueSpec); ok && len(vs.Names) == 1 && vs.Names[0].Name == "commonQuerySteps" && len(vs.Values) == 1 {
						steps = text(vs.Values[0])
					}
				}
			}
		}
	}
	emitStr("commonQueryStepsDecl", "pkg/queryfrontend/cache.go commonQuerySteps", steps)
	emitList("lowerStepCandidatesBody", "pkg/queryfrontend/cache.go lowerStepCacheCandidates", feBody(fn(ck, "", "lowerStepCacheCandidates")))
	var alt []string
	for _, l := range feBody(fn(ck, "thanosCacheKeyGenerator", "GenerateCacheKeyAlternatives")) {
		if strings.Contains(l, "step") || strings.Contains(l, "Step") {
			alt = append(alt, l)
		}
	}
	emitList("altKeysStepLines", "pkg/queryfrontend/cache.go GenerateCacheKeyAlternatives: statements mentioning the step", alt)

	// ---- C44
	an := parse("pkg/querysharding/analyzer.go")
	emitList("analyzeBody", "pkg/querysharding/analyzer.go QueryAnalyzer.Analyze", feBody(fn(an, "QueryAnalyzer", "Analyze")))
	as := parse("pkg/querysharding/analysis.go")
	emitList("scopeToLabelsBody", "pkg/querysharding/analysis.go QueryAnalysis.scopeToLabels", feBody(fn(as, "QueryAnalysis", "scopeToLabels")))
	emitList("isShardableBody", "pkg/querysharding/analysis.go QueryAnalysis.IsShardable", feBody(fn(as, "QueryAnalysis", "IsShardable")))
	si := parse("pkg/store/storepb/shard_info.go")
	emitList("matchesZLabelsBody", "pkg/store/storepb/shard_info.go ShardMatcher.MatchesZLabels", feBody(fn(si, "ShardMatcher", "MatchesZLabels")))
	emitList("shardByLabelBody", "pkg/store/storepb/shard_info.go shardByLabel", feBody(fn(si, "", "shardByLabel")))
	emitList("shardQueryBody", "pkg/queryfrontend/shard_query.go querySharder.shardQuery", feBody(fn(parse("pkg/queryfrontend/shard_query.go"), "querySharder", "shardQuery")))
}
