package main

// regenerated facts of the "frontend" family (C41 C42 C43 C44)

func init() { families = append(families, factsFrontend) }

func factsFrontend() {
}
