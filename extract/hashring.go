package main

// regenerated facts of the "hashring" family (C18 C19 C20 C21 C27)

func init() { families = append(families, factsHashring) }

func factsHashring() {
}
