package main

import (
	"go/ast"
	"strings"
)

// regenerated facts of the "hashring" family (C18 C19 C20 C21 C27)

func init() { families = append(families, factsHashring) }

// innerFor returns the first for statement (not range) nested in body whose condition contains substr.
func innerFor(b ast.Node, substr string) *ast.ForStmt {
	var res *ast.ForStmt
	if b == nil {
		return nil
	}
	ast.Inspect(b, func(n ast.Node) bool {
		if res != nil {
			return false
		}
		if f, ok := n.(*ast.ForStmt); ok && f.Cond != nil && strings.Contains(text(f.Cond), substr) {
			res = f
			return false
		}
		return true
	})
	return res
}

// skeleton flattens a block into control statements and statements mentioning `ident`:
// "if:<cond>", "return", "continue", "break", and the text of inc/dec and assignments to ident.
func skeleton(b *ast.BlockStmt, ident string) []string {
	var out []string
	if b == nil {
		return out
	}
	for _, st := range b.List {
		switch s := st.(type) {
		case *ast.IfStmt:
			out = append(out, "if:"+text(s.Cond))
			out = append(out, skeleton(s.Body, ident)...)
			if eb, ok := s.Else.(*ast.BlockStmt); ok {
				out = append(out, "else")
				out = append(out, skeleton(eb, ident)...)
			}
		case *ast.ReturnStmt:
			out = append(out, "return")
		case *ast.BranchStmt:
			out = append(out, s.Tok.String())
		case *ast.IncDecStmt:
			if strings.Contains(text(s.X), ident) {
				out = append(out, text(s))
			}
		case *ast.AssignStmt:
			if len(s.Lhs) == 1 && text(s.Lhs[0]) == ident {
				out = append(out, text(s))
			}
		case *ast.ForStmt:
			out = append(out, "for:"+text(s.Cond))
			out = append(out, skeleton(s.Body, ident)...)
		case *ast.RangeStmt:
			out = append(out, "range:"+text(s.X))
			out = append(out, skeleton(s.Body, ident)...)
		}
	}
	return out
}

func factsHashring() {
	f := parse("pkg/receive/hashring.go")

	// ---- C19 / C18: shape of the replica loop of calculateSectionReplicas
	csr := fn(f, "", "calculateSectionReplicas")
	loop := innerFor(body(csr), "len(replicas)")
	cond, lap := "unknown", "unknown"
	var skel []string
	if loop != nil {
		cond = text(loop.Cond)
		skel = skeleton(loop.Body, "skipped")
		if len(loop.Body.List) > 0 {
			if is, ok := loop.Body.List[0].(*ast.IfStmt); ok {
				lap = text(is.Cond)
			}
		}
	}
	emitStr("ketamaLoopCond", "pkg/receive/hashring.go calculateSectionReplicas: condition of the replica loop", cond)
	emitStr("ketamaLapCheck", "pkg/receive/hashring.go calculateSectionReplicas: condition of the first statement of the replica loop (lap check)", lap)
	emitList("ketamaSkipCounter", "pkg/receive/hashring.go calculateSectionReplicas: control skeleton of the replica loop and every use of the skip counter", skel)
	skipAZ := "unknown"
	if loop != nil {
		skipAZ = firstIfCond(loop.Body, "sizeOfLeastOccupiedAZ")
	}
	emitStr("ketamaSkipAZ", "pkg/receive/hashring.go calculateSectionReplicas: the zone rule of the replica loop", skipAZ)

	// ---- C18: ketamaHashring.GetN and simpleHashring.GetN
	kget := fn(f, "ketamaHashring", "GetN")
	var kg []string
	if b := body(kget); b != nil {
		ast.Inspect(b, func(n ast.Node) bool {
			switch x := n.(type) {
			case *ast.FuncLit:
				for _, st := range x.Body.List {
					if r, ok := st.(*ast.ReturnStmt); ok && len(r.Results) == 1 {
						kg = append(kg, text(r.Results[0]))
					}
				}
				return false
			case *ast.IfStmt:
				if strings.Contains(text(x.Cond), "numSections") {
					kg = append(kg, text(x.Cond))
				}
			case *ast.AssignStmt:
				if len(x.Lhs) == 1 && text(x.Lhs[0]) == "endpointIndex" && len(x.Rhs) == 1 {
					kg = append(kg, text(x.Rhs[0]))
				}
			}
			return true
		})
	}
	emitList("ketamaGetN", "pkg/receive/hashring.go ketamaHashring.GetN: search predicate, wrap test, replica lookup", kg)
	sidx := "unknown"
	if b := body(fn(f, "simpleHashring", "GetN")); b != nil {
		ast.Inspect(b, func(n ast.Node) bool {
			if ix, ok := n.(*ast.IndexExpr); ok && text(ix.X) == "s" {
				sidx = text(ix.Index)
				return false
			}
			return true
		})
	}
	emitStr("simpleGetNIndex", "pkg/receive/hashring.go simpleHashring.GetN: the index expression", sidx)

	// ---- C19 (known finding): metrics registration of shuffle shard rings and the reload sequence
	// skeleton of the constructor: lookup of the shared metrics, user count, registration
	var shared []string
	if b := body(fn(f, "", "newShuffleShardCacheMetrics")); b != nil {
		for _, st := range b.(*ast.BlockStmt).List {
			switch x := st.(type) {
			case *ast.IfStmt:
				shared = append(shared, "if:"+text(x.Cond))
				for _, y := range x.Body.List {
					switch z := y.(type) {
					case *ast.IncDecStmt:
						shared = append(shared, text(z))
					case *ast.ReturnStmt:
						shared = append(shared, "return")
					}
				}
			case *ast.AssignStmt:
				for _, c := range calls(x, "registerShuffleShardCacheMetrics") {
					shared = append(shared, callName(c))
				}
			}
		}
	}
	emitList("shuffleShardMetricsShared", "pkg/receive/hashring.go newShuffleShardCacheMetrics: shared metrics are looked up and counted before anything is registered", shared)
	var closeSk []string
	if b := body(fn(f, "shuffleShardCacheMetrics", "close")); b != nil {
		seenUnreg := false
		for _, st := range b.(*ast.BlockStmt).List {
			switch x := st.(type) {
			case *ast.IncDecStmt:
				closeSk = append(closeSk, text(x))
			case *ast.IfStmt:
				closeSk = append(closeSk, "if:"+text(x.Cond))
				for _, y := range x.Body.List {
					if _, ok := y.(*ast.ReturnStmt); ok {
						closeSk = append(closeSk, "return")
					}
				}
			case *ast.ExprStmt:
				if c, ok := x.X.(*ast.CallExpr); ok {
					n := callName(c)
					if n == "delete" {
						closeSk = append(closeSk, "delete")
					} else if strings.HasSuffix(n, ".Unregister") && !seenUnreg {
						seenUnreg = true
						closeSk = append(closeSk, "Unregister")
					}
				}
			}
		}
	}
	emitList("shuffleShardMetricsClose", "pkg/receive/hashring.go shuffleShardCacheMetrics.close: only the last user unregisters", closeSk)
	var reload []string
	if fr := parse("cmd/thanos/receive.go"); fr != nil {
		for _, d := range fr.Decls {
			if fd, ok := d.(*ast.FuncDecl); ok && fd.Body != nil {
				seq := callSeq(fd.Body, "receive.NewMultiHashring", "webHandler.Hashring")
				for i, c := range seq {
					if c == "receive.NewMultiHashring" && i+1 < len(seq) {
						reload = []string{c, seq[i+1]}
					}
				}
			}
		}
	}
	emitList("hashringReloadOrder", "cmd/thanos/receive.go: the new multi hashring is built before it is handed to the handler (which closes the old one)", reload)
	emitList("handlerHashringSwap", "pkg/receive/handler.go Handler.Hashring: the old hashring is closed when the new one is installed",
		callSeq(body(fn(parse("pkg/receive/handler.go"), "Handler", "Hashring")), "h.hashring.Close"))

	// ---- C27: multiHashring.GetN lock skeleton, what is cached, isExactMatcher
	mget := fn(f, "multiHashring", "GetN")
	emitList("multiGetNLocks", "pkg/receive/hashring.go multiHashring.GetN: lock calls in source order",
		callSeq(body(mget), "m.mu.RLock", "m.mu.RUnlock", "m.mu.Lock", "m.mu.Unlock"))
	var store []string
	if b := body(mget); b != nil {
		ast.Inspect(b, func(n ast.Node) bool {
			switch x := n.(type) {
			case *ast.AssignStmt:
				if len(x.Lhs) == 1 && strings.HasPrefix(text(x.Lhs[0]), "m.cache[") {
					store = append(store, text(x))
				}
			case *ast.ReturnStmt:
				if len(x.Results) == 1 && strings.HasPrefix(text(x.Results[0]), "m.hashrings[") {
					store = append(store, text(x.Results[0]))
				}
			}
			return true
		})
	}
	emitList("multiGetNStore", "pkg/receive/hashring.go multiHashring.GetN: the cache store and the answer on a match", store)
	exact := "unknown"
	if fe := fn(parse("pkg/receive/config.go"), "", "isExactMatcher"); fe != nil && fe.Body != nil && len(fe.Body.List) == 1 {
		if r, ok := fe.Body.List[0].(*ast.ReturnStmt); ok && len(r.Results) == 1 {
			exact = text(r.Results[0])
		}
	}
	emitStr("isExactMatcherBody", "pkg/receive/config.go isExactMatcher", exact)

	// ---- C21: getShardSize cases, take, the sub-ring call
	var cases []string
	if b := body(fn(f, "shuffleShardHashring", "getShardSize")); b != nil {
		ast.Inspect(b, func(n ast.Node) bool {
			if sw, ok := n.(*ast.SwitchStmt); ok && strings.Contains(text(sw.Tag), "TenantMatcherType") {
				for _, st := range sw.Body.List {
					if cc, ok := st.(*ast.CaseClause); ok {
						var es []string
						for _, e := range cc.List {
							es = append(es, text(e))
						}
						if len(es) == 0 {
							es = []string{"default"}
						}
						cases = append(cases, strings.Join(es, ", "))
					}
				}
				return false
			}
			return true
		})
	}
	emitList("shardSizeCases", "pkg/receive/hashring.go getShardSize: the case lists of the switch over the matcher type", cases)
	gts := fn(f, "shuffleShardHashring", "getTenantShard")
	var takeSkel []string
	subRing := "unknown"
	if b := body(gts); b != nil {
		ast.Inspect(b, func(n ast.Node) bool {
			switch x := n.(type) {
			case *ast.IfStmt:
				if strings.HasSuffix(text(x.Cond), "ZoneAwarenessDisabled") && len(x.Body.List) == 1 {
					if as, ok := x.Body.List[0].(*ast.AssignStmt); ok && text(as.Lhs[0]) == "take" {
						takeSkel = append(takeSkel, "if:"+text(x.Cond), text(as))
						if eb, ok := x.Else.(*ast.BlockStmt); ok && len(eb.List) == 1 {
							takeSkel = append(takeSkel, "else", text(eb.List[0]))
						}
					}
				}
			case *ast.ReturnStmt:
				if len(x.Results) == 1 && strings.HasPrefix(text(x.Results[0]), "newKetamaHashring(") {
					subRing = text(x.Results[0])
				}
			}
			return true
		})
	}
	selectedInit := "unknown"
	if b := body(gts); b != nil {
		ast.Inspect(b, func(n ast.Node) bool {
			if as, ok := n.(*ast.AssignStmt); ok && len(as.Lhs) == 1 && text(as.Lhs[0]) == "selected" && len(as.Rhs) == 1 {
				selectedInit = text(as.Rhs[0])
				return false
			}
			return true
		})
	}
	emitStr("shardSelectedInit", "pkg/receive/hashring.go getTenantShard: the per-zone set of already selected endpoints (keyed by ring-global endpoint index)", selectedInit)
	emitList("shardTake", "pkg/receive/hashring.go getTenantShard: how many nodes are taken per zone", takeSkel)
	emitStr("shardSubRing", "pkg/receive/hashring.go getTenantShard: the sub-ring construction", subRing)

	// ---- C21: the sub-ring cache belongs to the hashring instance
	var lruIn []string
	if f != nil {
		for _, d := range f.Decls {
			if fd, ok := d.(*ast.FuncDecl); ok && fd.Body != nil {
				found := false
				ast.Inspect(fd.Body, func(n ast.Node) bool {
					if c, ok := n.(*ast.CallExpr); ok && strings.HasPrefix(text(c.Fun), "lru.New") {
						found = true
					}
					return !found
				})
				if found {
					lruIn = append(lruIn, fd.Name.Name)
				}
			}
		}
	}
	emitList("shuffleShardLruConstructedIn", "pkg/receive/hashring.go: the functions that construct an LRU (lru.NewWithEvict)", lruIn)
	var mfields []string
	cacheField := "unknown"
	if f != nil {
		ast.Inspect(f, func(n ast.Node) bool {
			switch x := n.(type) {
			case *ast.TypeSpec:
				if st, ok := x.Type.(*ast.StructType); ok && x.Name.Name == "shuffleShardCacheMetrics" {
					for _, fl := range st.Fields.List {
						for _, nm := range fl.Names {
							mfields = append(mfields, nm.Name)
						}
					}
				}
			case *ast.CompositeLit:
				if strings.HasSuffix(text(x.Type), "shuffleShardHashring") {
					for _, el := range x.Elts {
						if kv, ok := el.(*ast.KeyValueExpr); ok && text(kv.Key) == "cache" {
							cacheField = text(kv)
						}
					}
				}
			}
			return true
		})
	}
	emitList("shuffleShardMetricsFields", "pkg/receive/hashring.go: the fields of the (shared) shuffleShardCacheMetrics value", mfields)
	emitStr("shuffleShardCacheField", "pkg/receive/hashring.go newShuffleShardHashring: the cache field of the hashring literal", cacheField)

	// ---- C20: what a section hash is computed from
	hin := "unknown"
	if b := body(fn(f, "", "newKetamaHashring")); b != nil {
		for _, c := range calls(b, "Write") {
			if len(c.Args) == 1 && strings.Contains(text(c.Args[0]), "endpoint") {
				hin = text(c.Args[0])
				break
			}
		}
	}
	emitStr("ketamaSectionHashInput", "pkg/receive/hashring.go newKetamaHashring: the bytes hashed for a section", hin)

	emitStr("ketamaTooFew", "pkg/receive/hashring.go newKetamaHashring: the endpoint-count test",
		firstIfCond(body(fn(f, "", "newKetamaHashring")), "replicationFactor"))
}
