package main

// regenerated facts of the "compact" family (C29 C30 C34)

func init() { families = append(families, factsCompact) }

func factsCompact() {
}
