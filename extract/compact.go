package main

// regenerated facts of the "compact" family (C29 C30 C34)

func init() { families = append(families, factsCompact) }

func factsCompact() {
	factsC30()
}

// C30: the conditions of the planner the model transliterates (pkg/compact/planner.go).
func factsC30() {
	const src = "pkg/compact/planner.go"
	f := parse(src)
	plan := fn(f, "tsdbBasedPlanner", "plan")
	emitStr("plannerTombstoneCond", src+" tsdbBasedPlanner.plan: the tombstone-ratio test",
		firstIfCond(body(plan), "NumTombstones"))
	emitStr("plannerTombstoneMinRange", src+" tsdbBasedPlanner.plan: the minimal length of a block considered for a tombstone compaction",
		firstIfCond(body(plan), "meta.MaxTime-meta.MinTime"))
	emitList("plannerPlanCalls", src+" tsdbBasedPlanner.plan: order of the selection calls",
		callSeq(body(plan), "selectOverlappingMetas", "selectMetas"))
	sel := fn(f, "", "selectMetas")
	emitStr("plannerSelectFreshCond", src+" selectMetas: a part is skipped when it does not span the range and reaches beyond the newest considered block",
		firstIfCond(body(sel), "highTime"))
	emitStr("plannerSelectFailedCond", src+" selectMetas: parts with a failed compaction are skipped",
		firstIfCond(body(sel), "Failed"))
	ov := fn(f, "", "selectOverlappingMetas")
	emitStr("plannerOverlapCond", src+" selectOverlappingMetas: the overlap test",
		firstIfCond(body(ov), "globalMaxt"))
	sp := fn(f, "", "splitByRange")
	emitStr("plannerSplitFitCond", src+" splitByRange: a block that does not fit its aligned range is skipped",
		firstIfCond(body(sp), "t0+tr"))
	emitStr("plannerSplitSignCond", src+" splitByRange: the branch on the sign of MinTime",
		firstIfCond(body(sp), "m.MinTime >="))
	sz := fn(f, "largeTotalIndexSizeFilter", "plan")
	emitStr("plannerSizeLimitCond", src+" largeTotalIndexSizeFilter.plan: the size test (15% headroom)",
		firstIfCond(body(sz), "totalIndexBytes"))
	vt := fn(f, "verticalCompactionDownsampleFilter", "Plan")
	emitStr("plannerVerticalResCond", src+" verticalCompactionDownsampleFilter.Plan: which blocks of an overlapping plan are marked",
		firstIfCond(body(vt), "Resolution"))
}
