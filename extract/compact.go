package main

import (
	"go/ast"
	"strings"
)

// regenerated facts of the "compact" family (C29 C30 C34)

func init() { families = append(families, factsCompact) }

func factsCompact() {
	factsC30()
	factsC34()
	factsC29()
}

// C29: the order of the bucket-changing steps of a compaction and of one iteration of the compactor loop.
func factsC29() {
	const src = "pkg/compact/compact.go"
	f := parse(src)
	gc := fn(f, "Group", "compact")
	emitList("groupCompactOrder", src+" Group.compact: order of compaction, upload of the result and marking of blocks (the first deleteBlock is the empty-result branch)",
		callSeq(body(gc), "CompactWithBlockPopulator", "Upload", "deleteBlock"))
	bc := fn(f, "BucketCompactor", "Compact")
	emitList("compactLoopOrder", src+" BucketCompactor.Compact: order of sync, cleaning, garbage collection and grouping in one iteration",
		callSeq(body(bc), "SyncMetas", "DeleteMarkedBlocks", "GarbageCollect", "Groups"))
	emitList("groupCompactUploadGuard", src+" Group.compact: how the error of the result's upload reaches the check in front of the marking loop: "+
		"[assignment token of the innermost assignment whose right side runs block.Upload, its left side, kind of the loop-body statement that contains it, "+
		"condition of the if statement that follows that statement, how that if ends]", uploadGuard(gc))
	cf := parse("cmd/thanos/compact.go")
	rc := fn(cf, "", "runCompact")
	emitList("compactMainFnOrder", "cmd/thanos/compact.go runCompact: order of compaction, the sync before retention, retention and the partial-upload cleanup in compactMainFn / cleanPartialMarked",
		callSeq(body(rc), "compactor.Compact", "ApplyRetentionPolicyByResolution", "BestEffortCleanAbortedPartialUploads", "cleanPartialMarked"))
	emitStr("cleanPartialArg", "cmd/thanos/compact.go cleanPartialMarked: which blocks BestEffortCleanAbortedPartialUploads is given", argText(body(rc), "BestEffortCleanAbortedPartialUploads", 2))
	ff := parse("pkg/block/fetcher.go")
	lm := fn(ff, "BaseFetcher", "loadMeta")
	emitList("loadMetaDecode", "pkg/block/fetcher.go BaseFetcher.loadMeta: how meta.json is read and parsed — a failed read (io.ReadAll) must stay apart from a failed parse (json.Unmarshal -> ErrorSyncMetaCorrupted -> partial)",
		callSeq(body(lm), "io.ReadAll", "json.Unmarshal", "json.NewDecoder", "Decode"))
	del := fn(f, "Group", "deleteBlock")
	emitList("deleteBlockMarks", src+" Group.deleteBlock marks for deletion (it does not delete)", callSeq(body(del), "MarkForDeletion", "Delete"))
}

// argText returns the text of the n-th argument of the first call to name in body ("unknown" if absent).
func argText(b ast.Node, name string, n int) string {
	cs := calls(b, name)
	if len(cs) == 0 || len(cs[0].Args) <= n {
		return "unknown"
	}
	return text(cs[0].Args[n])
}

// flagDefault finds `….Flag("<flag>", …).Default("<v>")…` anywhere in the file and returns v.
func flagDefault(f *ast.File, flag string) string {
	res := "unknown"
	if f == nil {
		return res
	}
	ast.Inspect(f, func(n ast.Node) bool {
		c, ok := n.(*ast.CallExpr)
		if !ok {
			return true
		}
		sel, ok := c.Fun.(*ast.SelectorExpr)
		if !ok || sel.Sel.Name != "Default" || len(c.Args) != 1 {
			return true
		}
		// walk down the receiver chain to the Flag(...) call
		x := sel.X
		for {
			ic, ok := x.(*ast.CallExpr)
			if !ok {
				return true
			}
			isel, ok := ic.Fun.(*ast.SelectorExpr)
			if !ok {
				return true
			}
			if isel.Sel.Name == "Flag" && len(ic.Args) >= 1 {
				if lit, ok := ic.Args[0].(*ast.BasicLit); ok && strings.Trim(lit.Value, "\"") == flag {
					if dl, ok := c.Args[0].(*ast.BasicLit); ok {
						res = strings.Trim(dl.Value, "\"")
					}
				}
				return true
			}
			x = isel.X
		}
	})
	return res
}

// filterOrder lists, in source order, which of the wanted names occur as elements of the first
// []block.MetadataFilter{…} literal in body (an element is an identifier or a call; calls are named by callee).
func filterOrder(b ast.Node, wanted ...string) []string {
	var out []string
	if b == nil {
		return out
	}
	done := false
	ast.Inspect(b, func(n ast.Node) bool {
		if done {
			return false
		}
		cl, ok := n.(*ast.CompositeLit)
		if !ok || !strings.Contains(text(cl.Type), "MetadataFilter") {
			return true
		}
		done = true
		for _, e := range cl.Elts {
			name := ""
			switch v := e.(type) {
			case *ast.Ident:
				name = v.Name
			case *ast.CallExpr:
				name = callName(v)
				if i := strings.LastIndex(name, "."); i >= 0 {
					name = name[i+1:]
				}
			}
			for _, w := range wanted {
				if name == w {
					out = append(out, name)
				}
			}
		}
		return false
	})
	return out
}

// C34: which delay goes where, flag defaults, filter order, the duplicate filter's sort.
func factsC34() {
	const csrc = "cmd/thanos/compact.go"
	cf := parse(csrc)
	rc := fn(cf, "", "runCompact")
	emitStr("compactIgnoreDelayArg", csrc+" runCompact: delay given to NewIgnoreDeletionMarkFilter", argText(body(rc), "NewIgnoreDeletionMarkFilter", 2))
	emitStr("compactCleanerDelayArg", csrc+" runCompact: delay given to NewBlocksCleaner", argText(body(rc), "NewBlocksCleaner", 3))
	emitStr("compactDeleteDelayDefault", csrc+" flag --delete-delay default", flagDefault(cf, "delete-delay"))
	emitList("compactFilterOrder", csrc+" runCompact: order of the deletion-mark and duplicate filters in the syncer's filter list",
		filterOrder(body(rc), "ignoreDeletionMarkFilter", "duplicateBlocksFilter"))
	const ssrc = "cmd/thanos/store.go"
	sf := parse(ssrc)
	rs := fn(sf, "", "runStore")
	emitStr("storeIgnoreDelayArg", ssrc+" runStore: delay given to NewIgnoreDeletionMarkFilter", argText(body(rs), "NewIgnoreDeletionMarkFilter", 2))
	emitStr("storeIgnoreDelayDefault", ssrc+" flag --ignore-deletion-marks-delay default", flagDefault(sf, "ignore-deletion-marks-delay"))
	emitStr("storeSyncIntervalDefault", ssrc+" flag --sync-block-duration default", flagDefault(sf, "sync-block-duration"))
	emitList("storeFilterOrder", ssrc+" runStore: order of the deletion-mark and duplicate filters in the fetcher's filter list",
		filterOrder(body(rs), "ignoreDeletionMarkFilter", "NewDeduplicateFilter"))
	sb := fn(parse("pkg/store/bucket.go"), "BucketStore", "SyncBlocks")
	emitList("storeSyncBlocksOrder", "pkg/store/bucket.go BucketStore.SyncBlocks: order of loading the new blocks of the view and dropping the loaded blocks that left it",
		callSeq(body(sb), "addBlock", "removeBlock", "dropOutdatedBlocks"))
	const fsrc = "pkg/block/fetcher.go"
	ff := parse(fsrc)
	fg := fn(ff, "DefaultDeduplicateFilter", "filterGroup")
	var rets []string
	if fg != nil && fg.Body != nil {
		// the comparator is the first function literal of filterGroup (argument of sort.Slice)
		found := false
		ast.Inspect(fg.Body, func(n ast.Node) bool {
			if found {
				return false
			}
			fl, ok := n.(*ast.FuncLit)
			if !ok {
				return true
			}
			found = true
			ast.Inspect(fl.Body, func(m ast.Node) bool {
				if r, ok := m.(*ast.ReturnStmt); ok && len(r.Results) == 1 {
					rets = append(rets, text(r.Results[0]))
				}
				return true
			})
			return false
		})
	}
	emitList("dedupSortReturns", fsrc+" DefaultDeduplicateFilter.filterGroup: the return expressions of the sort comparator, in source order", rets)
}

// C30: the conditions of the planner the model transliterates (pkg/compact/planner.go).
func factsC30() {
	const src = "pkg/compact/planner.go"
	f := parse(src)
	plan := fn(f, "tsdbBasedPlanner", "plan")
	emitStr("plannerTombstoneCond", src+" tsdbBasedPlanner.plan: the tombstone-ratio test",
		firstIfCond(body(plan), "NumTombstones"))
	emitStr("plannerTombstoneMinRange", src+" tsdbBasedPlanner.plan: the minimal length of a block considered for a tombstone compaction",
		firstIfCond(body(plan), "meta.MaxTime-meta.MinTime"))
	emitList("plannerPlanCalls", src+" tsdbBasedPlanner.plan: order of the selection calls",
		callSeq(body(plan), "selectOverlappingMetas", "selectMetas"))
	sel := fn(f, "", "selectMetas")
	emitStr("plannerSelectFreshCond", src+" selectMetas: a part is skipped when it does not span the range and reaches beyond the newest considered block",
		firstIfCond(body(sel), "highTime"))
	emitStr("plannerSelectFailedCond", src+" selectMetas: parts with a failed compaction are skipped",
		firstIfCond(body(sel), "Failed"))
	ov := fn(f, "", "selectOverlappingMetas")
	emitStr("plannerOverlapCond", src+" selectOverlappingMetas: the overlap test",
		firstIfCond(body(ov), "globalMaxt"))
	sp := fn(f, "", "splitByRange")
	emitStr("plannerSplitFitCond", src+" splitByRange: a block that does not fit its aligned range is skipped",
		firstIfCond(body(sp), "t0+tr"))
	emitStr("plannerSplitSignCond", src+" splitByRange: the branch on the sign of MinTime",
		firstIfCond(body(sp), "m.MinTime >="))
	sz := fn(f, "largeTotalIndexSizeFilter", "plan")
	emitStr("plannerSizeLimitCond", src+" largeTotalIndexSizeFilter.plan: the size test (15% headroom)",
		firstIfCond(body(sz), "totalIndexBytes"))
	vt := fn(f, "verticalCompactionDownsampleFilter", "Plan")
	emitStr("plannerVerticalResCond", src+" verticalCompactionDownsampleFilter.Plan: which blocks of an overlapping plan are marked",
		firstIfCond(body(vt), "Resolution"))
}

// containsCall reports whether n contains a call whose callee is exactly name.
func containsCall(n ast.Node, name string) bool {
	found := false
	ast.Inspect(n, func(m ast.Node) bool {
		if c, ok := m.(*ast.CallExpr); ok && callName(c) == name {
			found = true
		}
		return !found
	})
	return found
}

// uploadGuard describes the statement of Group.compact's `for … range compIDs` body that uploads the result, and the
// statement right after it.  Unrepaired shape: `err = tracing.DoInSpanWithErr(… block.Upload …)` followed by
// `if err != nil { return … }`.  Anything else (an inner `:=` that shadows err, the upload moved into a nested loop,
// a check of another variable, a check that does not return) changes the list.
func uploadGuard(fd *ast.FuncDecl) []string {
	unknown := []string{"unknown"}
	if fd == nil || fd.Body == nil {
		return unknown
	}
	var loop *ast.RangeStmt
	ast.Inspect(fd.Body, func(n ast.Node) bool {
		if loop != nil {
			return false
		}
		if r, ok := n.(*ast.RangeStmt); ok && text(r.X) == "compIDs" && containsCall(r.Body, "block.Upload") {
			loop = r
			return false
		}
		return true
	})
	if loop == nil {
		return unknown
	}
	for i, st := range loop.Body.List {
		if !containsCall(st, "block.Upload") {
			continue
		}
		kind := "other"
		switch st.(type) {
		case *ast.AssignStmt:
			kind = "assign"
		case *ast.ForStmt, *ast.RangeStmt:
			kind = "loop"
		case *ast.IfStmt:
			kind = "if"
		case *ast.ExprStmt:
			kind = "expr"
		}
		// innermost assignment whose right-hand side contains the upload
		tok, lhs := "none", "none"
		ast.Inspect(st, func(n ast.Node) bool {
			if a, ok := n.(*ast.AssignStmt); ok && len(a.Rhs) == 1 && containsCall(a.Rhs[0], "block.Upload") {
				tok = a.Tok.String()
				parts := make([]string, len(a.Lhs))
				for j, l := range a.Lhs {
					parts[j] = text(l)
				}
				lhs = strings.Join(parts, ",")
			}
			return true
		})
		cond, exit := "none", "none"
		if i+1 < len(loop.Body.List) {
			if ifs, ok := loop.Body.List[i+1].(*ast.IfStmt); ok && ifs.Init == nil {
				cond = text(ifs.Cond)
				if n := len(ifs.Body.List); n > 0 {
					if _, ok := ifs.Body.List[n-1].(*ast.ReturnStmt); ok {
						exit = "return"
					} else {
						exit = "falls-through"
					}
				}
			}
		}
		return []string{tok, lhs, kind, cond, exit}
	}
	return unknown
}
