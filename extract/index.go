package main

import (
	"go/ast"
	"sort"
	"strings"
)

// regenerated facts of the "index" family (C11 C12 C13 C14 C16)

func init() { families = append(families, factsIndex) }

func factsIndex() {
	factsC13()
	factsC12()
}

// writeArgs lists, in source order, the first argument of every call of the form
// <recv>.WriteString / WriteByte / WriteRune in body.
func writeArgs(body ast.Node, recv string) []string {
	type hit struct {
		pos int
		s   string
	}
	var hits []hit
	if body == nil {
		return nil
	}
	ast.Inspect(body, func(n ast.Node) bool {
		c, ok := n.(*ast.CallExpr)
		if !ok {
			return true
		}
		sel, ok := c.Fun.(*ast.SelectorExpr)
		if !ok || text(sel.X) != recv || len(c.Args) != 1 {
			return true
		}
		switch sel.Sel.Name {
		case "WriteString", "WriteByte", "WriteRune":
			hits = append(hits, hit{int(c.Pos()), text(c.Args[0])})
		}
		return true
	})
	sort.Slice(hits, func(i, j int) bool { return hits[i].pos < hits[j].pos })
	var r []string
	for _, h := range hits {
		r = append(r, h.s)
	}
	return r
}

func factsC13() {
	f := parse("pkg/store/cache/cache.go")
	// the string hashed for a postings key: first blake2b.Sum256([]byte(X)) in CacheKey.String
	pre := "unknown"
	if cs := calls(body(fn(f, "CacheKey", "String")), "Sum256"); len(cs) > 0 && len(cs[0].Args) == 1 {
		if conv, ok := cs[0].Args[0].(*ast.CallExpr); ok && len(conv.Args) == 1 && strings.HasPrefix(text(conv.Fun), "[]byte") {
			pre = text(conv.Args[0])
		}
	}
	emitStr("postingsKeyPreimage", "pkg/store/cache/cache.go CacheKey.String: the string hashed for a postings key", pre)

	g := parse("pkg/store/cache/matchers_cache.go")
	emitList("matcherKeyWrites", "pkg/store/cache/matchers_cache.go cacheKey: what is written to the key, in order",
		writeArgs(body(fn(g, "", "cacheKey")), "sb"))
}

func factsC12() {
	f := parse("pkg/store/postings_codec.go")
	emitStr("postingsEncodeOrderTest", "pkg/store/postings_codec.go diffVarintEncodeNoHeader: the order test",
		firstIfCond(body(fn(f, "", "diffVarintEncodeNoHeader")), "prev"))
	emitStr("postingsStreamedEncodeOrderTest", "pkg/store/postings_codec.go diffVarintSnappyStreamedEncode: the order test",
		firstIfCond(body(fn(f, "", "diffVarintSnappyStreamedEncode")), "prev"))
	emitStr("postingsSeekGuard", "pkg/store/postings_codec.go diffVarintPostings.Seek: the guard before scanning",
		firstIfCond(body(fn(f, "diffVarintPostings", "Seek")), ">="))
	emitStr("postingsStreamedSeekGuard", "pkg/store/postings_codec.go streamedDiffVarintPostings.Seek: the guard before scanning",
		firstIfCond(body(fn(f, "streamedDiffVarintPostings", "Seek")), ">="))
}
