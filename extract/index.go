package main

// regenerated facts of the "index" family (C11 C12 C13 C14 C16)

func init() { families = append(families, factsIndex) }

func factsIndex() {
}
