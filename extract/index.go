package main

import (
	"go/ast"
	"go/token"
	"os"
	"path/filepath"
	"sort"
	"strings"
)

// regenerated facts of the "index" family (C11 C12 C13 C14 C16)

func init() { families = append(families, factsIndex) }

func factsIndex() {
	factsC13()
	factsC11()
	factsC12()
	factsC14()
	factsC16()
}

// writeArgs lists, in source order, the first argument of every call of the form
// <recv>.WriteString / WriteByte / WriteRune in body.
func writeArgs(body ast.Node, recv string) []string {
	type hit struct {
		pos int
		s   string
	}
	var hits []hit
	if body == nil {
		return nil
	}
	ast.Inspect(body, func(n ast.Node) bool {
		c, ok := n.(*ast.CallExpr)
		if !ok {
			return true
		}
		sel, ok := c.Fun.(*ast.SelectorExpr)
		if !ok || text(sel.X) != recv || len(c.Args) != 1 {
			return true
		}
		switch sel.Sel.Name {
		case "WriteString", "WriteByte", "WriteRune":
			hits = append(hits, hit{int(c.Pos()), text(c.Args[0])})
		}
		return true
	})
	sort.Slice(hits, func(i, j int) bool { return hits[i].pos < hits[j].pos })
	var r []string
	for _, h := range hits {
		r = append(r, h.s)
	}
	return r
}

func factsC13() {
	f := parse("pkg/store/cache/cache.go")
	// the string hashed for a postings key: first blake2b.Sum256([]byte(X)) in CacheKey.String
	pre := "unknown"
	if cs := calls(body(fn(f, "CacheKey", "String")), "Sum256"); len(cs) > 0 && len(cs[0].Args) == 1 {
		if conv, ok := cs[0].Args[0].(*ast.CallExpr); ok && len(conv.Args) == 1 && strings.HasPrefix(text(conv.Fun), "[]byte") {
			pre = text(conv.Args[0])
		}
	}
	emitStr("postingsKeyPreimage", "pkg/store/cache/cache.go CacheKey.String: the string hashed for a postings key", pre)

	// how LabelMatchersToString writes a matcher list (every matcher through Matcher.String, ';' between)
	emitList("labelMatchersWrites", "pkg/store/cache/cache.go LabelMatchersToString: what is written, in order",
		writeArgs(body(fn(f, "", "LabelMatchersToString")), "sb"))

	g := parse("pkg/store/cache/matchers_cache.go")
	ck := fn(g, "", "cacheKey")
	emitList("matcherKeyWrites", "pkg/store/cache/matchers_cache.go cacheKey: what is written to the key, in order",
		writeArgs(body(ck), "sb"))
	// how the length prefix of the key is computed
	nameLen := "unknown"
	if ck != nil && ck.Body != nil {
		ast.Inspect(ck.Body, func(n ast.Node) bool {
			if as, ok := n.(*ast.AssignStmt); ok && len(as.Lhs) == 1 && len(as.Rhs) == 1 && text(as.Lhs[0]) == "nameLen" {
				nameLen = text(as.Rhs[0])
				return false
			}
			return true
		})
	}
	emitStr("matcherKeyNameLen", "pkg/store/cache/matchers_cache.go cacheKey: the length prefix", nameLen)
	// everything in GetOrSet that makes two lookups share a result: the assignment of `key`, and the
	// first argument of the singleflight call and of every access to the LRU cache, in source order
	var sharing []string
	if gos := fn(g, "LruMatchersCache", "GetOrSet"); gos != nil && gos.Body != nil {
		ast.Inspect(gos.Body, func(n ast.Node) bool {
			switch x := n.(type) {
			case *ast.AssignStmt:
				if len(x.Lhs) >= 1 && len(x.Rhs) == 1 && text(x.Lhs[0]) == "key" {
					sharing = append(sharing, "key="+text(x.Rhs[0]))
				}
			case *ast.CallExpr:
				name := callName(x)
				if (strings.HasPrefix(name, "c.sf.") || strings.HasPrefix(name, "c.cache.")) && name != "c.cache.Len" {
					arg := ""
					if len(x.Args) > 0 {
						arg = text(x.Args[0])
					}
					sharing = append(sharing, name+"("+arg+")")
				}
			}
			return true
		})
	}
	emitList("matcherSharingKeys", "pkg/store/cache/matchers_cache.go GetOrSet: the key, and the first argument of the singleflight call and of every LRU access", sharing)
}

func factsC12() {
	// which snappy stream writer the streamed codec uses (no padding option)
	ctor := "unknown"
	if g := parse("pkg/extgrpc/snappy/snappy.go"); g != nil {
		ast.Inspect(g, func(n ast.Node) bool {
			if c, ok := n.(*ast.CallExpr); ok && strings.Contains(callName(c), "Writer") && strings.HasPrefix(callName(c), "snappy.New") {
				ctor = text(c)
				return false
			}
			return true
		})
	}
	emitStr("snappyStreamWriterCtor", "pkg/extgrpc/snappy/snappy.go newCompressor: the stream writer behind extsnappy.Compressor", ctor)
	f := parse("pkg/store/postings_codec.go")
	emitStr("postingsEncodeOrderTest", "pkg/store/postings_codec.go diffVarintEncodeNoHeader: the order test",
		firstIfCond(body(fn(f, "", "diffVarintEncodeNoHeader")), "prev"))
	emitStr("postingsStreamedEncodeOrderTest", "pkg/store/postings_codec.go diffVarintSnappyStreamedEncode: the order test",
		firstIfCond(body(fn(f, "", "diffVarintSnappyStreamedEncode")), "prev"))
	emitStr("postingsSeekGuard", "pkg/store/postings_codec.go diffVarintPostings.Seek: the guard before scanning",
		firstIfCond(body(fn(f, "diffVarintPostings", "Seek")), ">="))
	emitStr("postingsStreamedSeekGuard", "pkg/store/postings_codec.go streamedDiffVarintPostings.Seek: the guard before scanning",
		firstIfCond(body(fn(f, "streamedDiffVarintPostings", "Seek")), ">="))
}

// lockSkeleton lists, in source order, the operations of a LazyBinaryReader method that matter for
// the lock protocol: RLock/RUnlock/Lock/Unlock on r.readerMx (wrapped in "defer(" … ")" when
// deferred), tests of r.reader, assignments to r.reader, NewBinaryReader, r.load(), r.reader.Close()
// and any other call on r.reader ("use").
func lockSkeleton(fd *ast.FuncDecl) []string {
	if fd == nil || fd.Body == nil {
		return nil
	}
	var out []string
	var walk func(n ast.Node)
	walk = func(n ast.Node) {
		ast.Inspect(n, func(n ast.Node) bool {
			switch x := n.(type) {
			case *ast.DeferStmt:
				out = append(out, "defer(")
				if fl, ok := x.Call.Fun.(*ast.FuncLit); ok {
					walk(fl.Body)
				} else {
					walk(x.Call)
				}
				out = append(out, ")")
				return false
			case *ast.IfStmt:
				if x.Init != nil {
					walk(x.Init)
				}
				if c := text(x.Cond); strings.Contains(c, "r.reader ") || strings.HasSuffix(c, "r.reader") {
					out = append(out, "if("+c+")")
				}
				walk(x.Body)
				if x.Else != nil {
					walk(x.Else)
				}
				return false
			case *ast.AssignStmt:
				if len(x.Lhs) == 1 && text(x.Lhs[0]) == "r.reader" && len(x.Rhs) == 1 {
					out = append(out, "reader="+text(x.Rhs[0]))
					return false
				}
			case *ast.CallExpr:
				name := callName(x)
				switch {
				case strings.HasPrefix(name, "r.readerMx."):
					out = append(out, strings.TrimPrefix(name, "r.readerMx."))
				case name == "r.load":
					out = append(out, "load")
				case name == "NewBinaryReader":
					out = append(out, "NewBinaryReader")
				case name == "r.reader.Close":
					out = append(out, "Close")
				case strings.HasPrefix(name, "r.reader."):
					out = append(out, "use")
				}
			}
			return true
		})
	}
	walk(fd.Body)
	return out
}

func factsC16() {
	f := parse("pkg/block/indexheader/lazy_binary_reader.go")
	var methods []string
	for _, m := range []string{"IndexVersion", "PostingsOffsets", "PostingsOffset", "LookupSymbol", "LabelValues", "LabelNames"} {
		methods = append(methods, m+": "+strings.Join(lockSkeleton(fn(f, "LazyBinaryReader", m)), " "))
	}
	emitList("lazyMethodSkeletons", "pkg/block/indexheader/lazy_binary_reader.go: lock skeleton of every Reader method", methods)
	emitList("lazyLoadSkeleton", "pkg/block/indexheader/lazy_binary_reader.go load()", lockSkeleton(fn(f, "LazyBinaryReader", "load")))
	emitList("lazyUnloadSkeleton", "pkg/block/indexheader/lazy_binary_reader.go unloadIfIdleSince()", lockSkeleton(fn(f, "LazyBinaryReader", "unloadIfIdleSince")))
	emitList("lazyIsIdleSkeleton", "pkg/block/indexheader/lazy_binary_reader.go isIdleSince()", lockSkeleton(fn(f, "LazyBinaryReader", "isIdleSince")))
	// which results of Reader methods are handed out as they come from the loaded header
	// (a direct `return r.reader.X(...)`), per method
	var direct []string
	for _, m := range []string{"IndexVersion", "PostingsOffsets", "PostingsOffset", "LookupSymbol", "LabelValues", "LabelNames"} {
		fd := fn(f, "LazyBinaryReader", m)
		if fd == nil || fd.Body == nil {
			continue
		}
		ast.Inspect(fd.Body, func(n ast.Node) bool {
			if r, ok := n.(*ast.ReturnStmt); ok && len(r.Results) == 1 {
				if c, ok := r.Results[0].(*ast.CallExpr); ok && strings.HasPrefix(callName(c), "r.reader.") {
					direct = append(direct, m)
				}
			}
			return true
		})
	}
	// what LabelValues (the one method whose BinaryReader result points into the mmapped header) returns
	var lvRet []string
	if fd := fn(f, "LazyBinaryReader", "LabelValues"); fd != nil && fd.Body != nil {
		ast.Inspect(fd.Body, func(n ast.Node) bool {
			if r, ok := n.(*ast.ReturnStmt); ok && len(r.Results) == 2 {
				lvRet = append(lvRet, text(r.Results[0]))
			}
			return true
		})
	}
	emitList("lazyLabelValuesReturns", "pkg/block/indexheader/lazy_binary_reader.go LabelValues: first result of every return", lvRet)
	emitList("lazyDirectReturns", "pkg/block/indexheader/lazy_binary_reader.go: Reader methods that return the loaded header's result as it is", direct)
	// load(), statement by statement, without logging, metrics, timing and the deferred re-lock
	// (which lazyLoadSkeleton has)
	var loadStmts []string
	for _, st := range flatStmts(body(fn(f, "LazyBinaryReader", "load"))) {
		if strings.HasPrefix(st, "level.") || strings.HasPrefix(st, "r.metrics.load") && !strings.Contains(st, "Failed") ||
			strings.HasPrefix(st, "startTime") || strings.HasPrefix(st, "defer ") || strings.HasPrefix(st, "r.readerMx.") {
			continue
		}
		loadStmts = append(loadStmts, st)
	}
	emitList("lazyLoadStmts", "pkg/block/indexheader/lazy_binary_reader.go load(): tests, assignments and returns, in source order", loadStmts)
	emitList("lazyCloseStmts", "pkg/block/indexheader/lazy_binary_reader.go Close()", flatStmts(body(fn(f, "LazyBinaryReader", "Close"))))
	// the pool's map of tracked readers: every statement that touches it
	pf := parse("pkg/block/indexheader/reader_pool.go")
	var track []string
	for _, name := range []string{"NewBinaryReader", "closeIdleReaders", "getIdleReadersSince", "onLazyReaderClosed"} {
		for _, st := range flatStmts(body(fn(pf, "ReaderPool", name))) {
			if strings.Contains(st, "lazyReaders[") || strings.Contains(st, "p.lazyReaders)") || strings.Contains(st, "p.lazyReaders {") ||
				strings.Contains(st, "lazyReaders, ") || strings.Contains(st, "unloadIfIdleSince") || strings.Contains(st, "isIdleSince") || strings.Contains(st, "getIdleReadersSince(") ||
				strings.HasPrefix(st, "if:p.lazyReaderEnabled") {
				track = append(track, name+": "+st)
			}
		}
	}
	emitList("poolTrackingStmts", "pkg/block/indexheader/reader_pool.go: the statements that read or change p.lazyReaders, and what the sweep does with a reader", track)
}

func factsC14() {
	f := parse("pkg/store/cache/caching_bucket.go")
	cg := fn(f, "CachingBucket", "cachedGetRange")
	emitStr("cachedGetRangeGuard", "pkg/store/cache/caching_bucket.go cachedGetRange: the first test on attrs.Size (requests at or past the end go to the bucket)",
		firstIfCond(body(cg), "attrs.Size"))
	// Iter: the order of "adjust the verb for recursive listings" and "compute the cache key"
	var iterOrder []string
	if it := fn(f, "CachingBucket", "Iter"); it != nil && it.Body != nil {
		ast.Inspect(it.Body, func(n ast.Node) bool {
			as, ok := n.(*ast.AssignStmt)
			if !ok || len(as.Lhs) != 1 || len(as.Rhs) != 1 {
				return true
			}
			l, r := text(as.Lhs[0]), text(as.Rhs[0])
			switch {
			case l == "iterVerb.Verb":
				iterOrder = append(iterOrder, "verb="+r)
			case l == "key" && strings.HasSuffix(r, ".String()"):
				iterOrder = append(iterOrder, "key="+r)
			}
			return true
		})
	}
	emitList("iterKeyOrder", "pkg/store/cache/caching_bucket.go Iter: verb adjustment and key computation, in source order", iterOrder)
	emitStr("mergeRangesCond", "pkg/store/cache/caching_bucket.go mergeRanges: when two ranges are merged",
		firstIfCond(body(fn(f, "", "mergeRanges")), "limit"))
	// the loop that merges until at most MaxSubRequests ranges are left: condition and step
	loop := "unknown"
	if fm := fn(f, "CachingBucket", "fetchMissingSubranges"); fm != nil && fm.Body != nil {
		ast.Inspect(fm.Body, func(n ast.Node) bool {
			if fs, ok := n.(*ast.ForStmt); ok && fs.Cond != nil && strings.Contains(text(fs.Cond), "MaxSubRequests") {
				loop = text(fs.Init) + "; " + text(fs.Cond) + "; " + text(fs.Post)
				return false
			}
			return true
		})
	}
	emitStr("mergeUntilLoop", "pkg/store/cache/caching_bucket.go fetchMissingSubranges: the merge-until loop header", loop)
	store := "unknown"
	if fm := fn(f, "CachingBucket", "fetchMissingSubranges"); fm != nil && fm.Body != nil {
		ast.Inspect(fm.Body, func(n ast.Node) bool {
			if is, ok := n.(*ast.IfStmt); ok && is.Init != nil && strings.Contains(text(is.Init), "hits[key]") {
				store = text(is.Init) + "; " + text(is.Cond)
				return false
			}
			return true
		})
	}
	// every test that involves the (possibly shorter) last subrange of the object
	var last []string
	for _, c := range append(condSeq(body(cg)), condSeq(body(fn(f, "CachingBucket", "fetchMissingSubranges")))...) {
		if strings.Contains(c, "lastSubrangeOffset") || strings.Contains(c, "endRange > attrs.Size") || strings.Contains(c, "attrs.Size") {
			last = append(last, c)
		}
	}
	emitList("lastSubrangeConds", "pkg/store/cache/caching_bucket.go: the tests on attrs.Size / the last subrange in cachedGetRange and fetchMissingSubranges", last)
	emitStr("subrangeStoreCond", "pkg/store/cache/caching_bucket.go fetchMissingSubranges: a fetched subrange is kept and stored only if", store)
}

// condSeq lists, in source order, the conditions of the if and for statements of body
// ("if:" / "for:" prefixes), and labelled break statements ("break <label>").
func condSeq(body ast.Node) []string {
	var out []string
	if body == nil {
		return out
	}
	ast.Inspect(body, func(n ast.Node) bool {
		switch x := n.(type) {
		case *ast.IfStmt:
			out = append(out, "if:"+text(x.Cond))
		case *ast.ForStmt:
			if x.Cond != nil {
				out = append(out, "for:"+text(x.Cond))
			}
		case *ast.BranchStmt:
			if x.Label != nil {
				out = append(out, x.Tok.String()+" "+x.Label.Name)
			}
		}
		return true
	})
	return out
}

func factsC11() {
	f := parse("pkg/block/indexheader/binary_reader.go")
	// the control skeleton of the multi-value lookup, after the v1 branch
	conds := condSeq(body(fn(f, "BinaryReader", "postingsOffset")))
	var v2 []string
	seen := false
	for _, c := range conds {
		if strings.Contains(c, "len(values) == 0") {
			seen = true
		}
		if seen {
			v2 = append(v2, c)
		}
	}
	emitList("postingsOffsetConds", "pkg/block/indexheader/binary_reader.go postingsOffset: conditions of the v2 lookup, in source order", v2)
	// which entries init keeps: every condition of init that mentions the sampling rate
	var samp []string
	for _, c := range condSeq(body(fn(f, "BinaryReader", "init"))) {
		if strings.Contains(c, "postingOffsetsInMemSampling") {
			samp = append(samp, c)
		}
	}
	emitList("headerSamplingConds", "pkg/block/indexheader/binary_reader.go init: the sampling tests", samp)
	// index format v1: the branch of postingsOffset, statement by statement
	var v1 []string
	ast.Inspect(body(fn(f, "BinaryReader", "postingsOffset")), func(n ast.Node) bool {
		if x, ok := n.(*ast.IfStmt); ok && v1 == nil && strings.Contains(text(x.Cond), "FormatV1") {
			v1 = flatStmts(x.Body)
			return false
		}
		return true
	})
	emitList("postingsOffsetV1Stmts", "pkg/block/indexheader/binary_reader.go postingsOffset: the FormatV1 branch, statement by statement", v1)
	// … and the tests of init on the previous entry (the v1 table is read in the first branch)
	var last []string
	for _, c := range condSeq(body(fn(f, "BinaryReader", "init"))) {
		if strings.Contains(c, "lastName") && !strings.Contains(c, "postingOffsetsInMemSampling") {
			last = append(last, c)
		}
	}
	emitList("headerInitLastNameConds", "pkg/block/indexheader/binary_reader.go init: the tests on the previous table entry", last)
	// how postingsOffset gets past key count and label name of an entry
	emitList("skipNAndNameStmts", "pkg/block/indexheader/binary_reader.go skipNAndName, statement by statement", flatStmts(body(fn(f, "", "skipNAndName"))))
	var bufUse []string
	ast.Inspect(body(fn(f, "BinaryReader", "postingsOffset")), func(n ast.Node) bool {
		switch x := n.(type) {
		case *ast.AssignStmt:
			if len(x.Lhs) == 1 && text(x.Lhs[0]) == "buf" {
				bufUse = append(bufUse, text(x))
			}
		case *ast.IncDecStmt:
			if text(x.X) == "buf" {
				bufUse = append(bufUse, text(x))
			}
		case *ast.CallExpr:
			for _, a := range x.Args {
				if strings.Contains(text(a), "buf") && callName(x) != "append" {
					bufUse = append(bufUse, text(x))
					break
				}
			}
		}
		return true
	})
	emitList("postingsOffsetBufInit", "pkg/block/indexheader/binary_reader.go postingsOffset: every assignment to and use of the skip length buf", bufUse)
	// the in-memory index-header: its buffer is freshly allocated and not handed on by Close
	emitList("memoryWriterCtorStmts", "pkg/block/indexheader/binary_reader.go NewMemoryWriter, statement by statement", flatStmts(body(fn(f, "", "NewMemoryWriter"))))
	emitList("memoryWriterCloseStmts", "pkg/block/indexheader/binary_reader.go MemoryWriter.Close, statement by statement", flatStmts(body(fn(f, "MemoryWriter", "Close"))))
	var pools []string
	if ents, err := os.ReadDir(filepath.Join(root, "pkg/block/indexheader")); err == nil {
		for _, e := range ents {
			if !strings.HasSuffix(e.Name(), ".go") || strings.HasSuffix(e.Name(), "_test.go") {
				continue
			}
			pf := parse("pkg/block/indexheader/" + e.Name())
			if pf == nil {
				continue
			}
			for _, d := range pf.Decls {
				gd, ok := d.(*ast.GenDecl)
				if !ok || gd.Tok != token.VAR {
					continue
				}
				for _, sp := range gd.Specs {
					if vs, ok := sp.(*ast.ValueSpec); ok && strings.Contains(text(vs), "Pool") {
						for _, nm := range vs.Names {
							pools = append(pools, e.Name()+": "+nm.Name)
						}
					}
				}
			}
		}
	}
	emitList("indexheaderPoolVars", "pkg/block/indexheader: package-level variables that are or hold a pool", pools)
	emitList("lookupSymbolStmts", "pkg/block/indexheader/binary_reader.go LookupSymbol, statement by statement", flatStmts(body(fn(f, "BinaryReader", "LookupSymbol"))))
	emitList("labelNamesStmts", "pkg/block/indexheader/binary_reader.go LabelNames, statement by statement", flatStmts(body(fn(f, "BinaryReader", "LabelNames"))))
}

// flatStmts lists the statements of a block in source order; compound statements are opened
// ("if:<cond> {", "for:<header> {", "}").
func flatStmts(n ast.Node) []string {
	var out []string
	var walk func(st ast.Stmt)
	block := func(b *ast.BlockStmt) {
		if b == nil {
			return
		}
		for _, st := range b.List {
			walk(st)
		}
	}
	walk = func(st ast.Stmt) {
		switch x := st.(type) {
		case *ast.BlockStmt:
			block(x)
		case *ast.IfStmt:
			h := "if:"
			if x.Init != nil {
				h += text(x.Init) + "; "
			}
			out = append(out, h+text(x.Cond)+" {")
			block(x.Body)
			if x.Else != nil {
				out = append(out, "} else {")
				walk(x.Else)
			}
			out = append(out, "}")
		case *ast.ForStmt:
			out = append(out, "for:"+text(x.Cond)+" {")
			block(x.Body)
			out = append(out, "}")
		case *ast.RangeStmt:
			out = append(out, "range:"+text(x.Key)+","+text(x.Value)+" in "+text(x.X)+" {")
			block(x.Body)
			out = append(out, "}")
		default:
			out = append(out, text(st))
		}
	}
	if b, ok := n.(*ast.BlockStmt); ok {
		block(b)
	}
	return out
}
