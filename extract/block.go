package main

// regenerated facts of the "block" family (C28 C31 C32 C33 C35)

import (
	"go/ast"
	"sort"
	"strings"
)

func init() { families = append(families, factsBlock) }

// blkCalls returns, in source order, the calls in body whose callee (full name or last selector
// component) is one of names.
func blkCalls(body ast.Node, names ...string) []*ast.CallExpr {
	var r []*ast.CallExpr
	if body == nil {
		return r
	}
	want := map[string]bool{}
	for _, n := range names {
		want[n] = true
	}
	ast.Inspect(body, func(n ast.Node) bool {
		if c, ok := n.(*ast.CallExpr); ok {
			full := callName(c)
			last := full
			if i := strings.LastIndex(full, "."); i >= 0 {
				last = full[i+1:]
			}
			if want[full] || want[last] {
				r = append(r, c)
			}
		}
		return true
	})
	sort.Slice(r, func(i, j int) bool { return r[i].Pos() < r[j].Pos() })
	return r
}

func argsText(c *ast.CallExpr) string {
	var xs []string
	for _, a := range c.Args {
		xs = append(xs, text(a))
	}
	return strings.Join(xs, ", ")
}

// phaseOf names the block part a call touches, judged by the identifiers in its arguments.
func phaseOf(c *ast.CallExpr, table [][2]string) string {
	a := argsText(c)
	for _, kv := range table {
		if strings.Contains(a, kv[0]) {
			return kv[1]
		}
	}
	return "unknown:" + callName(c) + "(" + a + ")"
}

func factsBlock() {
	// ---- C28 / C35: pkg/block/block.go
	bf := parse("pkg/block/block.go")
	up := body(fn(bf, "", "upload"))
	var uploadOrder []string
	for _, c := range blkCalls(up, "UploadDir", "UploadFile", "Upload") {
		uploadOrder = append(uploadOrder, phaseOf(c, [][2]string{
			{"ChunksDirname", "chunks"}, {"IndexFilename", "index"}, {"MetaFilename", "meta"}}))
	}
	emitList("uploadOrder", "pkg/block/block.go upload(): bucket uploads in source order (UploadDir/UploadFile/bkt.Upload by what they upload)", uploadOrder)

	del := body(fn(bf, "", "Delete"))
	var deleteOrder []string
	for _, c := range blkCalls(del, "Delete", "deleteDirRec") {
		if callName(c) == "deleteDirRec" {
			deleteOrder = append(deleteOrder, "rest")
			continue
		}
		// bkt.Delete(ctx, <what>)
		what := "unknown:" + argsText(c)
		if len(c.Args) == 2 {
			switch text(c.Args[1]) {
			case "metaFile":
				what = "meta"
			case "deletionMarkFile":
				what = "mark"
			case "p":
				what = "dirmarkers"
			}
		}
		deleteOrder = append(deleteOrder, what)
	}
	emitList("deleteOrder", "pkg/block/block.go Delete(): bucket deletions in source order", deleteOrder)
	keep := "unknown"
	for _, c := range blkCalls(del, "deleteDirRec") {
		if len(c.Args) > 0 {
			if fl, ok := c.Args[len(c.Args)-1].(*ast.FuncLit); ok && len(fl.Body.List) == 1 {
				if rs, ok := fl.Body.List[0].(*ast.ReturnStmt); ok && len(rs.Results) == 1 {
					keep = text(rs.Results[0])
				}
			}
		}
	}
	emitStr("deleteKeepCond", "pkg/block/block.go Delete(): which objects deleteDirRec skips", keep)

	// ---- C28: pkg/replicate/scheme.go
	rf := parse("pkg/replicate/scheme.go")
	rep := body(fn(rf, "replicationScheme", "ensureBlockIsReplicated"))
	var replicateOrder []string
	for _, c := range blkCalls(rep, "rs.fromBkt.Iter", "rs.ensureObjectReplicated", "rs.toBkt.Upload") {
		ph := phaseOf(c, [][2]string{{"chunksDir", "chunks"}, {"indexFile", "index"}, {"metaFile", "meta"}, {"objectName", "chunks-object"}})
		if ph == "chunks-object" {
			continue // the per-object call inside the Iter over chunksDir
		}
		replicateOrder = append(replicateOrder, ph)
	}
	emitList("replicateOrder", "pkg/replicate/scheme.go ensureBlockIsReplicated(): what is copied to the target bucket, in source order", replicateOrder)
	ens := body(fn(rf, "replicationScheme", "ensureObjectReplicated"))
	emitList("replicateObjectOrder", "pkg/replicate/scheme.go ensureObjectReplicated(): target Exists / origin Get / target Upload",
		callSeq(ens, "rs.toBkt.Exists", "rs.fromBkt.Get", "rs.toBkt.Upload"))

	// ---- C28 / C35: pkg/shipper/shipper.go
	sf := parse("pkg/shipper/shipper.go")
	emitList("shipperSyncOrder", "pkg/shipper/shipper.go Sync(): per block Exists → (overlap check) → upload; file written after the loop",
		callSeq(body(fn(sf, "Shipper", "Sync")), "ReadMetaFile", "s.bucket.Exists", "checker.IsOverlapping", "s.upload", "WriteMetaFile"))
	emitList("shipperUploadOrder", "pkg/shipper/shipper.go upload(): hard link, meta rewrite, block.Upload",
		callSeq(body(fn(sf, "Shipper", "upload")), "hardlinkBlock", "meta.WriteToDir", "block.Upload"))

	// ---- C35: external labels are read through the callback at every upload (no cached copy)
	lblExpr := "unknown"
	if ub := body(fn(sf, "Shipper", "upload")); ub != nil {
		ast.Inspect(ub, func(n ast.Node) bool {
			if is, ok := n.(*ast.IfStmt); ok && is.Init != nil && strings.Contains(text(is.Cond), "IsEmpty") && lblExpr == "unknown" {
				lblExpr = text(is.Init)
			}
			return true
		})
	}
	emitStr("shipperUploadLabelsExpr", "pkg/shipper/shipper.go upload(): where the external labels attached to the meta come from", lblExpr)
	var fields []string
	if sf != nil {
		ast.Inspect(sf, func(n ast.Node) bool {
			ts, ok := n.(*ast.TypeSpec)
			if !ok || ts.Name.Name != "Shipper" {
				return true
			}
			if st, ok := ts.Type.(*ast.StructType); ok {
				for _, f := range st.Fields.List {
					for _, nm := range f.Names {
						fields = append(fields, nm.Name)
					}
				}
			}
			return false
		})
	}
	emitList("shipperStructFields", "pkg/shipper/shipper.go: fields of Shipper (no cached label set among them)", fields)
	chkArg := "unknown"
	for _, c := range blkCalls(body(fn(sf, "Shipper", "Sync")), "newLazyOverlapChecker") {
		if len(c.Args) == 3 {
			chkArg = text(c.Args[2])
		}
	}
	emitStr("shipperCheckerLabelsArg", "pkg/shipper/shipper.go Sync(): the labels function handed to the overlap checker", chkArg)

	// ---- C31: pkg/block/fetcher.go DefaultDeduplicateFilter.filterGroup / contains
	ff := parse("pkg/block/fetcher.go")
	fg := body(fn(ff, "DefaultDeduplicateFilter", "filterGroup"))
	containsArgs := "unknown"
	for _, c := range blkCalls(fg, "contains") {
		containsArgs = argsText(c)
	}
	emitStr("dedupContainsArgs", "pkg/block/fetcher.go filterGroup(): arguments of contains(…) — (covering, covered)", containsArgs)
	var rets []string
	levelCond := "unknown"
	for _, c := range blkCalls(fg, "sort.Slice") {
		if len(c.Args) == 2 {
			if fl, ok := c.Args[1].(*ast.FuncLit); ok {
				ast.Inspect(fl.Body, func(n ast.Node) bool {
					if r, ok := n.(*ast.ReturnStmt); ok && len(r.Results) == 1 {
						rets = append(rets, text(r.Results[0]))
					}
					return true
				})
				for _, st := range fl.Body.List {
					if is, ok := st.(*ast.IfStmt); ok {
						rets = append(rets, "if "+text(is.Cond))
						for _, st2 := range is.Body.List {
							if is2, ok := st2.(*ast.IfStmt); ok {
								levelCond = text(is2.Cond)
							}
						}
					}
				}
			}
		}
	}
	emitList("dedupSortLess", "pkg/block/fetcher.go filterGroup(): the sort.Slice comparator (returns, then its if-condition)", rets)
	emitStr("dedupSortLevelCond", "pkg/block/fetcher.go filterGroup(): inside the equal-source-count branch, when the compaction level decides", levelCond)
	cf := fn(ff, "", "contains")
	cparams := "unknown"
	if cf != nil && cf.Type.Params != nil {
		var ns []string
		for _, f := range cf.Type.Params.List {
			for _, n := range f.Names {
				ns = append(ns, n.Name)
			}
		}
		cparams = strings.Join(ns, ", ")
	}
	emitStr("dedupContainsSig", "pkg/block/fetcher.go contains(): parameter list", cparams)
	cloop := "unknown"
	if b := body(cf); b != nil {
		ast.Inspect(b, func(n ast.Node) bool {
			if r, ok := n.(*ast.RangeStmt); ok && cloop == "unknown" {
				cloop = "outer range " + text(r.X)
				if len(r.Body.List) > 1 {
					if r2, ok := r.Body.List[1].(*ast.RangeStmt); ok {
						cloop += "; inner range " + text(r2.X)
					}
				}
				return false
			}
			return true
		})
	}
	emitStr("dedupContainsLoops", "pkg/block/fetcher.go contains(): which slice is quantified universally (outer) / existentially (inner)", cloop)

	// ---- C32: retention / cleaner / partial uploads
	rtf := parse("pkg/compact/retention.go")
	rb := body(fn(rtf, "", "ApplyRetentionPolicyByResolution"))
	maxExpr := "unknown"
	if rb != nil {
		ast.Inspect(rb, func(n ast.Node) bool {
			if a, ok := n.(*ast.AssignStmt); ok && len(a.Lhs) == 1 && len(a.Rhs) == 1 && text(a.Lhs[0]) == "maxTime" {
				maxExpr = text(a.Rhs[0])
			}
			return true
		})
	}
	emitStr("retentionMaxTimeExpr", "pkg/compact/retention.go: how the block's MaxTime (ms) becomes the compared instant", maxExpr)
	emitStr("retentionCond", "pkg/compact/retention.go: the marking condition", firstIfCond(rb, "After"))
	emitStr("retentionDisabledCond", "pkg/compact/retention.go: when a resolution's retention is disabled", firstIfCond(rb, "retentionDuration"))
	clf := parse("pkg/compact/blocks_cleaner.go")
	emitStr("cleanerCond", "pkg/compact/blocks_cleaner.go DeleteMarkedBlocks: when a marked block is deleted",
		firstIfCond(body(fn(clf, "BlocksCleaner", "DeleteMarkedBlocks")), "deleteDelay"))
	cnf := parse("pkg/compact/clean.go")
	pb := body(fn(cnf, "", "BestEffortCleanAbortedPartialUploads"))
	emitStr("partialSkipCond", "pkg/compact/clean.go: when a partial upload is left alone because it is too young", firstIfCond(pb, "PartialUploadThresholdAge"))
	markedCond := "unknown"
	if pb != nil {
		ast.Inspect(pb, func(n ast.Node) bool {
			if is, ok := n.(*ast.IfStmt); ok && is.Init != nil && strings.Contains(text(is.Init), "deletionMarkBlocks[") && markedCond == "unknown" {
				what := "other"
				if len(is.Body.List) > 0 {
					if _, ok := is.Body.List[len(is.Body.List)-1].(*ast.BranchStmt); ok {
						what = text(is.Body.List[len(is.Body.List)-1])
					}
				}
				markedCond = text(is.Init) + "; " + text(is.Cond) + " => " + what
			}
			return true
		})
	}
	emitStr("partialMarkedCond", "pkg/compact/clean.go: blocks passed as marked for deletion are skipped", markedCond)
	thr := "unknown"
	if cnf != nil {
		ast.Inspect(cnf, func(n ast.Node) bool {
			if vs, ok := n.(*ast.ValueSpec); ok && len(vs.Names) == 1 && vs.Names[0].Name == "PartialUploadThresholdAge" && len(vs.Values) == 1 {
				thr = text(vs.Values[0])
			}
			return true
		})
	}
	emitStr("partialThresholdAge", "pkg/compact/clean.go: const PartialUploadThresholdAge", thr)
	gm := body(fn(cnf, "", "getOldestModifiedTime"))
	emitStr("partialLastModifiedCond", "pkg/compact/clean.go getOldestModifiedTime: which modification time wins", firstIfCond(gm, "lastModifiedTime)"))

	// ---- C35: lazyOverlapChecker.sync skips directories without meta.json
	emitStr("shipperCheckerSkipsPartial", "pkg/shipper/shipper.go lazyOverlapChecker.sync: the condition under which a failed DownloadMeta is skipped",
		firstIfCond(body(fn(sf, "lazyOverlapChecker", "sync")), "IsObjNotFoundErr"))

	// ---- C33: what makes a metadata sync fail, and what Compact does then
	fm := body(fn(ff, "BaseFetcher", "fetchMetadata"))
	var cases []string
	if fm != nil {
		ast.Inspect(fm, func(n ast.Node) bool {
			sw, ok := n.(*ast.SwitchStmt)
			if !ok || !strings.Contains(text(sw.Tag), "errors.Cause(err)") {
				return true
			}
			for _, st := range sw.Body.List {
				cc := st.(*ast.CaseClause)
				label := "default"
				if len(cc.List) > 0 {
					var xs []string
					for _, e := range cc.List {
						xs = append(xs, text(e))
					}
					label = strings.Join(xs, ",")
				}
				what := "partial"
				for _, b := range cc.Body {
					if strings.Contains(text(b), "metaErrs.Add") {
						what = "metaErrs"
					}
				}
				cases = append(cases, label+":"+what)
			}
			return false
		})
	}
	emitList("fetchMetaErrCases", "pkg/block/fetcher.go fetchMetadata(): how the cause of a loadMeta error is classified", cases)
	emitStr("fetchIncompleteCond", "pkg/block/fetcher.go fetch(): when the view is reported incomplete",
		firstIfCond(body(fn(ff, "BaseFetcher", "fetch")), "metaErrs"))
	lm := body(fn(ff, "BaseFetcher", "loadMeta"))
	emitList("loadMetaConds", "pkg/block/fetcher.go loadMeta(): not-found test and version test",
		[]string{firstIfCond(lm, "IsObjNotFoundErr"), firstIfCond(lm, "m.Version")})
	emitList("loadMetaBodyCalls", "pkg/block/fetcher.go loadMeta(): how the body of meta.json is read and decoded",
		callSeq(lm, "io.ReadAll", "json.Unmarshal", "json.NewDecoder", "Decode"))
	readErr := "unknown"
	if lm != nil {
		var prevReadAll bool
		ast.Inspect(lm, func(n ast.Node) bool {
			bs, ok := n.(*ast.BlockStmt)
			if !ok {
				return true
			}
			for _, st := range bs.List {
				if as, ok := st.(*ast.AssignStmt); ok && strings.Contains(text(as), "io.ReadAll(") {
					prevReadAll = true
					continue
				}
				if is, ok := st.(*ast.IfStmt); ok && prevReadAll && readErr == "unknown" && len(is.Body.List) > 0 {
					readErr = text(is.Cond) + " => " + text(is.Body.List[0])
				}
				prevReadAll = false
			}
			return true
		})
	}
	emitStr("loadMetaReadErrAction", "pkg/block/fetcher.go loadMeta(): what an error of io.ReadAll becomes", readErr)
	mkf := parse("pkg/block/metadata/markers.go")
	emitList("readMarkerBodyCalls", "pkg/block/metadata/markers.go ReadMarker(): how the body of a marker is read and decoded",
		callSeq(body(fn(mkf, "", "ReadMarker")), "io.ReadAll", "json.Unmarshal", "json.NewDecoder", "Decode"))
	emitList("deletionFilterTolerated", "pkg/block/fetcher.go IgnoreDeletionMarkFilter.Filter: marker read errors that are not failures",
		allIfConds(body(fn(ff, "IgnoreDeletionMarkFilter", "Filter")), "errors.Cause(err) =="))
	// ---- C32 (histories): IgnoreDeletionMarkFilter.Filter rebuilds its map from the bucket on every call
	idf := fn(ff, "IgnoreDeletionMarkFilter", "Filter")
	var upd []string
	guards := []string{"unknown"}
	if idf != nil && idf.Body != nil {
		// statements between the last f.mtx.Lock() and f.mtx.Unlock() of the function body
		in := false
		for _, st := range idf.Body.List {
			t := text(st)
			if t == "f.mtx.Lock()" {
				in, upd = true, nil
				continue
			}
			if t == "f.mtx.Unlock()" {
				in = false
				continue
			}
			if in {
				upd = append(upd, t)
			}
		}
		// if-conditions that enclose the ReadMarker call (its own `if err := …ReadMarker…; err != nil` excluded)
		var stack []ast.Node
		ast.Inspect(idf.Body, func(n ast.Node) bool {
			if n == nil {
				stack = stack[:len(stack)-1]
				return true
			}
			if c, ok := n.(*ast.CallExpr); ok && strings.HasSuffix(callName(c), "ReadMarker") {
				guards = []string{}
				for _, a := range stack {
					if is, ok := a.(*ast.IfStmt); ok && (is.Init == nil || !strings.Contains(text(is.Init), "ReadMarker")) {
						guards = append(guards, text(is.Cond))
					}
				}
			}
			stack = append(stack, n)
			return true
		})
	}
	emitList("deletionFilterMapUpdate", "pkg/block/fetcher.go IgnoreDeletionMarkFilter.Filter: how the filter's map is updated after the marks were read", upd)
	emitList("deletionFilterReadGuards", "pkg/block/fetcher.go IgnoreDeletionMarkFilter.Filter: if-conditions under which deletion-mark.json is read (none = every block, every sync)", guards)
	cpf := parse("pkg/compact/compact.go")
	emitList("noCompactFilterTolerated", "pkg/compact/compact.go GatherNoCompactionMarkFilter.Filter: marker read errors that are not failures",
		allIfConds(body(fn(cpf, "GatherNoCompactionMarkFilter", "Filter")), "errors.Cause(err) =="))
	cb := body(fn(cpf, "BucketCompactor", "Compact"))
	emitList("compactCallOrder", "pkg/compact/compact.go BucketCompactor.Compact: sync, then cleaning, garbage collection, grouping",
		callSeq(cb, "c.sy.SyncMetas", "c.blocksCleaner.DeleteMarkedBlocks", "c.sy.GarbageCollect", "c.grouper.Groups"))
	emitStr("compactSyncErrAction", "pkg/compact/compact.go BucketCompactor.Compact: what happens when SyncMetas fails", ifInitAction(cb, "c.sy.SyncMetas"))
	emitStr("syncMetasErrAction", "pkg/compact/compact.go Syncer.SyncMetas: what happens when Fetch fails",
		ifCondAction(body(fn(cpf, "Syncer", "SyncMetas")), "err != nil"))
}

// allIfConds lists the texts of all if-conditions in body that contain substr, in source order.
func allIfConds(body ast.Node, substr string) []string {
	var r []string
	if body == nil {
		return r
	}
	ast.Inspect(body, func(n ast.Node) bool {
		if s, ok := n.(*ast.IfStmt); ok {
			if t := text(s.Cond); strings.Contains(t, substr) {
				r = append(r, t)
			}
		}
		return true
	})
	return r
}

// ifInitAction: for the first `if <init containing substr>; cond { first statement }` the text "cond => first statement".
func ifInitAction(body ast.Node, substr string) string {
	res := "unknown"
	if body == nil {
		return res
	}
	ast.Inspect(body, func(n ast.Node) bool {
		if s, ok := n.(*ast.IfStmt); ok && res == "unknown" && s.Init != nil && strings.Contains(text(s.Init), substr) && len(s.Body.List) > 0 {
			res = text(s.Cond) + " => " + text(s.Body.List[0])
		}
		return true
	})
	return res
}

// ifCondAction: for the first `if cond { first statement }` whose condition is exactly cond.
func ifCondAction(body ast.Node, cond string) string {
	res := "unknown"
	if body == nil {
		return res
	}
	ast.Inspect(body, func(n ast.Node) bool {
		if s, ok := n.(*ast.IfStmt); ok && res == "unknown" && s.Init == nil && text(s.Cond) == cond && len(s.Body.List) > 0 {
			res = text(s.Cond) + " => " + text(s.Body.List[0])
		}
		return true
	})
	return res
}
