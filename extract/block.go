package main

// regenerated facts of the "block" family (C28 C31 C32 C33 C35)

func init() { families = append(families, factsBlock) }

func factsBlock() {
}
