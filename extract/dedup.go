package main

// regenerated facts of the "dedup" family (C01 C02 C04 C40)

import (
	"go/ast"
	"go/token"
	"strings"
)

func init() { families = append(families, factsDedup) }

// assignsTo lists, in source order, the right-hand sides of the plain assignments `lhs = …`
// in body.
func assignsTo(body ast.Node, lhs string) []string {
	var r []string
	if body == nil {
		return r
	}
	ast.Inspect(body, func(n ast.Node) bool {
		a, ok := n.(*ast.AssignStmt)
		if !ok || a.Tok != token.ASSIGN || len(a.Lhs) != 1 || len(a.Rhs) != 1 {
			return true
		}
		if text(a.Lhs[0]) == lhs {
			r = append(r, text(a.Rhs[0]))
		}
		return true
	})
	return r
}

// constValue returns the value text of `const name = …` declared in body.
func constValue(body ast.Node, name string) string {
	res := "unknown"
	if body == nil {
		return res
	}
	ast.Inspect(body, func(n ast.Node) bool {
		vs, ok := n.(*ast.ValueSpec)
		if !ok {
			return true
		}
		for i, id := range vs.Names {
			if id.Name == name && i < len(vs.Values) {
				res = text(vs.Values[i])
			}
		}
		return true
	})
	return res
}

// callArgs lists the argument texts of every call of callee (full selector text) in body.
func callArgs(body ast.Node, callee string) []string {
	var r []string
	if body == nil {
		return r
	}
	ast.Inspect(body, func(n ast.Node) bool {
		c, ok := n.(*ast.CallExpr)
		if !ok || callName(c) != callee {
			return true
		}
		as := make([]string, len(c.Args))
		for i, a := range c.Args {
			as[i] = text(a)
		}
		r = append(r, strings.Join(as, ", "))
		return true
	})
	return r
}

// forHeader returns "init; cond; post" of the first for statement in body.
func forHeader(body ast.Node) string {
	res := "unknown"
	if body == nil {
		return res
	}
	done := false
	ast.Inspect(body, func(n ast.Node) bool {
		if done {
			return false
		}
		if f, ok := n.(*ast.ForStmt); ok {
			part := func(x ast.Node) string {
				if x == nil || (func() bool { v, ok := x.(ast.Stmt); return ok && v == nil })() {
					return ""
				}
				return text(x)
			}
			var init, cond, post string
			if f.Init != nil {
				init = part(f.Init)
			}
			if f.Cond != nil {
				cond = part(f.Cond)
			}
			if f.Post != nil {
				post = part(f.Post)
			}
			res, done = init+"; "+cond+"; "+post, true
			return false
		}
		return true
	})
	return res
}

// firstAssignText returns the text of the first assignment statement (any operator) to lhs.
func firstAssignText(body ast.Node, lhs string) string {
	res := "unknown"
	if body == nil {
		return res
	}
	done := false
	ast.Inspect(body, func(n ast.Node) bool {
		if done {
			return false
		}
		if a, ok := n.(*ast.AssignStmt); ok && len(a.Lhs) == 1 && text(a.Lhs[0]) == lhs {
			res, done = text(a), true
			return false
		}
		return true
	})
	return res
}

// ddIfConds lists the conditions of all if statements in body, in source order.
func ddIfConds(body ast.Node) []string {
	var r []string
	if body == nil {
		return r
	}
	ast.Inspect(body, func(n ast.Node) bool {
		if s, ok := n.(*ast.IfStmt); ok {
			r = append(r, text(s.Cond))
		}
		return true
	})
	return r
}

// ddStrLits lists the string literals in body (unquoted), in source order.
func ddStrLits(body ast.Node) []string {
	var r []string
	if body == nil {
		return []string{"unknown"}
	}
	ast.Inspect(body, func(n ast.Node) bool {
		if b, ok := n.(*ast.BasicLit); ok && b.Kind == token.STRING {
			r = append(r, strings.Trim(b.Value, "\"`"))
		}
		return true
	})
	return r
}

// ddReturnTexts lists the result expressions of all return statements in body, in source order.
func ddReturnTexts(body ast.Node) []string {
	var r []string
	if body == nil {
		return []string{"unknown"}
	}
	ast.Inspect(body, func(n ast.Node) bool {
		if rs, ok := n.(*ast.ReturnStmt); ok {
			var ps []string
			for _, x := range rs.Results {
				ps = append(ps, text(x))
			}
			r = append(r, strings.Join(ps, ", "))
		}
		return true
	})
	return r
}

func factsDedup() {
	cf := parse("pkg/dedup/chunk_iter.go")
	toChunk := body(fn(cf, "aggrChunkIterator", "toChunk"))
	emitStr("aggrToChunkLoop", "pkg/dedup/chunk_iter.go aggrChunkIterator.toChunk: header of the sample loop", forHeader(toChunk))
	emitStr("aggrToChunkEmptyTest", "pkg/dedup/chunk_iter.go aggrChunkIterator.toChunk: the 'no sample in the window' test", firstIfCond(toChunk, "lastT"))
	emitList("aggrToChunkCounterArgs", "pkg/dedup/chunk_iter.go aggrChunkIterator.toChunk: samples appended outside the loop", callArgs(toChunk, "appender.Append"))

	f := parse("pkg/dedup/iter.go")
	next := body(fn(f, "dedupSeriesIterator", "Next"))
	seek := body(fn(f, "dedupSeriesIterator", "Seek"))
	src := "pkg/dedup/iter.go dedupSeriesIterator"
	emitStr("dedupSeekGuard", src+".Seek: the condition under which Seek starts with one Next (F01 repair)",
		firstIfCond(seek, "MinInt64"))
	emitList("dedupSeekCalls", src+".Seek: iterator calls in source order",
		callSeq(seek, "it.Next", "it.AtT", "it.a.Seek", "it.b.Seek"))
	emitStr("dedupInitialPenalty", src+".Next: const initialPenalty", constValue(next, "initialPenalty"))
	emitList("dedupSeekArgsA", src+".Next: argument of it.a.Seek", callArgs(next, "it.a.Seek"))
	emitList("dedupSeekArgsB", src+".Next: argument of it.b.Seek", callArgs(next, "it.b.Seek"))
	emitList("dedupPenA", src+".Next: values assigned to it.penA, in source order", assignsTo(next, "it.penA"))
	emitList("dedupPenB", src+".Next: values assigned to it.penB, in source order", assignsTo(next, "it.penB"))
	emitList("dedupUseA", src+".Next: values assigned to it.useA, in source order", assignsTo(next, "it.useA"))

	// C01/C02: which function names of the select hints are treated as counter functions
	isc := body(fn(f, "", "isCounter"))
	emitList("dedupCounterFuncs", "pkg/dedup/iter.go isCounter: every function name the function mentions", ddStrLits(isc))
	emitList("dedupCounterReturns", "pkg/dedup/iter.go isCounter: its return statements", ddReturnTexts(isc))
	nsb := body(fn(f, "", "newDedupSeries"))
	emitList("dedupNewSeriesCounter", "pkg/dedup/iter.go newDedupSeries: argument of isCounter (the field that selects the counter wrapper)", callArgs(nsb, "isCounter"))

	// C01, set level: how dedupSeriesSet decides that the peeked series is a replica of the current one
	dsn := body(fn(f, "dedupSeriesSet", "next"))
	emitList("dedupSetNextConds", "pkg/dedup/iter.go dedupSeriesSet.next: its if-conditions (the second one is the grouping comparison)", ddIfConds(dsn))
	emitStr("dedupSetNextLset", "pkg/dedup/iter.go dedupSeriesSet.next: the label set compared with the current one", firstAssignText(dsn, "nextLset"))
	dsN := body(fn(f, "dedupSeriesSet", "Next"))
	emitList("dedupSetCurLset", "pkg/dedup/iter.go dedupSeriesSet.Next: values assigned to s.lset", assignsTo(dsN, "s.lset"))

	// C02: counter adjustment
	adj := body(fn(f, "counterErrAdjustSeriesIterator", "adjustAtValue"))
	emitStr("ctrAdjustCond", "pkg/dedup/iter.go counterErrAdjustSeriesIterator.adjustAtValue: when the replica is adjusted", firstIfCond(adj, "lastFloatValue"))
	emitStr("ctrAdjustStmt", "pkg/dedup/iter.go counterErrAdjustSeriesIterator.adjustAtValue: the adjustment", firstAssignText(adj, "it.errAdjust"))
	emitStr("dedupSwitchCond", src+".Next: when the deferred adjustAtValue runs", firstIfCond(next, "lastUseA"))
	nadj := body(fn(f, "dedupSeriesIterator", "adjustAtValue"))
	emitList("dedupAdjustCalls", src+".adjustAtValue: forwarded to both sides", callSeq(nadj, "it.a.adjustAtValue", "it.b.adjustAtValue"))

	// C04: querier composition
	osn := body(fn(f, "overlapSplitSet", "Next"))
	emitStr("overlapSplitFit", "pkg/dedup/iter.go overlapSplitSet.Next: first-fit test", firstIfCond(osn, "currMinTime"))
	qi := parse("pkg/query/iter.go")
	csn := body(fn(qi, "chunkSeriesIterator", "Next"))
	emitList("chunkIterSwitchSeek", "pkg/query/iter.go chunkSeriesIterator.Next: Seek target after switching chunks", callArgs(csn, "it.Seek"))
	css := body(fn(qi, "chunkSeriesIterator", "Seek"))
	emitStr("chunkIterSeekStop", "pkg/query/iter.go chunkSeriesIterator.Seek: loop exit test", firstIfCond(css, "ct"))
	qq := parse("pkg/query/querier.go")
	sel := body(fn(qq, "querier", "selectFn"))
	emitList("selectFnPipeline", "pkg/query/querier.go querier.selectFn: set constructors in source order", callSeq(sel, "NewPromSeriesSet", "newStoreSeriesSet", "dedup.NewOverlapSplit", "dedup.NewSeriesSet"))
	// C04: what a TSDB-backed store does with the requested replica labels (the querier never removes them)
	ts := parse("pkg/store/tsdb.go")
	tss := body(fn(ts, "TSDBStore", "Series"))
	emitList("readPathTSDBStrip", "pkg/store/tsdb.go TSDBStore.Series: how the replica labels leave the external and the series labels",
		[]string{firstAssignText(tss, "finalExtLset"), firstAssignText(tss, "completeLabelset")})
	emitList("readPathTSDBStripArgs", "pkg/store/tsdb.go TSDBStore.Series: arguments of every rmLabels call", callArgs(tss, "rmLabels"))
	var guards []string
	for _, cnd := range ddIfConds(tss) {
		if strings.Contains(cnd, "Lset") || strings.Contains(cnd, "eplica") || strings.Contains(cnd, "ToRemove") {
			guards = append(guards, cnd)
		}
	}
	emitList("readPathTSDBStripGuards", "pkg/store/tsdb.go TSDBStore.Series: if-conditions that mention label sets or replica labels (none: the stripping is unconditional)", guards)
	bs := body(fn(f, "boundedSeriesIterator", "Seek"))
	emitList("boundedSeekTests", "pkg/dedup/iter.go boundedSeriesIterator.Seek: its if-conditions", ddIfConds(bs))
}
