package main

// regenerated facts of the "dedup" family (C01 C02 C04 C40)

func init() { families = append(families, factsDedup) }

func factsDedup() {
}
