package main

// regenerated facts of the "proxy" family (C03 C05 C06 C17)

func init() { families = append(families, factsProxy) }

func factsProxy() {
}
