package main

import (
	"go/ast"
	"strconv"
)

// regenerated facts of the "proxy" family (C03 C05 C06 C17)

func init() { families = append(families, factsProxy) }

// ifConds lists, in source order, every if-condition in body whose text contains substr.
func ifConds(body ast.Node, substr string) []string {
	var out []string
	if body == nil {
		return out
	}
	ast.Inspect(body, func(n ast.Node) bool {
		if s, ok := n.(*ast.IfStmt); ok {
			if t := text(s.Cond); containsStr(t, substr) {
				out = append(out, t)
			}
		}
		return true
	})
	return out
}

func containsStr(s, sub string) bool {
	for i := 0; i+len(sub) <= len(s); i++ {
		if s[i:i+len(sub)] == sub {
			return true
		}
	}
	return false
}

// ifBody returns the statements of the first if whose condition contains substr.
func ifBody(body ast.Node, substr string) []string {
	var out []string
	if body == nil {
		return out
	}
	done := false
	ast.Inspect(body, func(n ast.Node) bool {
		if done {
			return false
		}
		if s, ok := n.(*ast.IfStmt); ok && containsStr(text(s.Cond), substr) {
			for _, st := range s.Body.List {
				out = append(out, text(st))
			}
			done = true
			return false
		}
		return true
	})
	return out
}

// deferredCalls lists the deferred calls of body (source order) whose callee name is `name`.
func deferredCalls(body ast.Node, name string) []string {
	var out []string
	if body == nil {
		return out
	}
	ast.Inspect(body, func(n ast.Node) bool {
		if d, ok := n.(*ast.DeferStmt); ok && callName(d.Call) == name {
			out = append(out, "defer "+name)
		}
		return true
	})
	return out
}

// compositeElems returns the element texts of the first composite literal in body whose type text
// contains typ.
func compositeElems(body ast.Node, typ string) []string {
	var out []string
	if body == nil {
		return out
	}
	done := false
	ast.Inspect(body, func(n ast.Node) bool {
		if done {
			return false
		}
		if cl, ok := n.(*ast.CompositeLit); ok && cl.Type != nil && containsStr(text(cl.Type), typ) {
			for _, e := range cl.Elts {
				out = append(out, text(e))
			}
			done = true
			return false
		}
		return true
	})
	return out
}

// sortSliceLess returns the returned expression of the comparator literal given to sort.Slice in body.
func sortSliceLess(body ast.Node) string {
	res := "unknown"
	for _, c := range calls(body, "Slice") {
		if len(c.Args) != 2 {
			continue
		}
		fl, ok := c.Args[1].(*ast.FuncLit)
		if !ok || len(fl.Body.List) != 1 {
			continue
		}
		if r, ok := fl.Body.List[0].(*ast.ReturnStmt); ok && len(r.Results) == 1 {
			return text(r.Results[0])
		}
	}
	return res
}

// stmtsContaining lists the simple statements (expression / assignment) of body whose text contains sub.
func stmtsContaining(body ast.Node, sub string) []string {
	var out []string
	if body == nil {
		return out
	}
	ast.Inspect(body, func(n ast.Node) bool {
		switch st := n.(type) {
		case *ast.ExprStmt, *ast.AssignStmt:
			if t := text(st); containsStr(t, sub) && !containsStr(t, "func(") {
				out = append(out, t)
				return false
			}
		}
		return true
	})
	return out
}

func prefixed(p string, xs []string) []string {
	out := make([]string, len(xs))
	for i, x := range xs {
		out[i] = p + x
	}
	return out
}

func factsProxy() {
	// ---- C05: the conditions the pruning theorems hinge on
	px := parse("pkg/store/proxy.go")
	emitStr("pruneTimeCond", "pkg/store/proxy.go storeMatches: the time-range test",
		firstIfCond(body(fn(px, "", "storeMatches")), "storeMaxTime"))
	emitStr("pruneLabelCond", "pkg/store/proxy.go LabelSetsMatch: when a matcher rejects a label set (lv := ls.Get(m.Name))",
		firstIfCond(body(fn(px, "", "LabelSetsMatch")), "Matches"))
	emitStr("pruneEmptySetsCond", "pkg/store/proxy.go LabelSetsMatch: no label set advertised",
		firstIfCond(body(fn(px, "", "LabelSetsMatch")), "len(lset)"))
	pr := parse("pkg/store/prometheus.go")
	emitStr("pruneExtAgnosticCond", "pkg/store/prometheus.go matchesExternalLabels: matcher kept when the external labels do not have the name",
		firstIfCond(body(fn(pr, "", "matchesExternalLabels")), "extValue"))
	emitStr("pruneExtRejectCond", "pkg/store/prometheus.go matchesExternalLabels: request rejected",
		firstIfCond(body(fn(pr, "", "matchesExternalLabels")), "tm.Matches"))

	// ---- C03: the deduplicator's field order and sort, the batching and limit conditions
	pmg := parse("pkg/store/proxy_merge.go")
	chainFn := body(fn(pmg, "responseDeduplicator", "chainSeriesAndRemIdenticalChunks"))
	emitList("chainFieldOrder", "pkg/store/proxy_merge.go chainSeriesAndRemIdenticalChunks: the fields of a chunk, in the order they are looked at",
		compositeElems(chainFn, "storepb.Chunk"))
	// ---- C03: sortWithoutLabels strips and then sorts, unconditionally
	{
		var shape []string
		nret := 0
		if swl := fn(pmg, "", "sortWithoutLabels"); swl != nil && swl.Body != nil {
			for _, st := range swl.Body.List {
				switch x := st.(type) {
				case *ast.RangeStmt:
					shape = append(shape, "range "+text(x.X))
				case *ast.IfStmt:
					shape = append(shape, "if "+text(x.Cond))
				case *ast.ReturnStmt:
					shape = append(shape, "return")
				case *ast.ExprStmt:
					if call, ok := x.X.(*ast.CallExpr); ok {
						shape = append(shape, "call "+text(call.Fun))
					} else {
						shape = append(shape, text(st))
					}
				default:
					shape = append(shape, text(st))
				}
			}
			// return statements of the function itself (not of the comparator closure)
			ast.Inspect(swl.Body, func(n ast.Node) bool {
				if _, ok := n.(*ast.FuncLit); ok {
					return false
				}
				if _, ok := n.(*ast.ReturnStmt); ok {
					nret++
				}
				return true
			})
		}
		emitList("sortWithoutLabelsShape", "pkg/store/proxy_merge.go sortWithoutLabels: its top-level statements (strip loop, then sort.Slice)", shape)
		emitStr("sortWithoutLabelsReturns", "pkg/store/proxy_merge.go sortWithoutLabels: number of return statements outside the comparator (no early exit before the sort)", strconv.Itoa(nret))
	}
	emitStr("chainSortLess", "pkg/store/proxy_merge.go chainSeriesAndRemIdenticalChunks: the comparator of sort.Slice", sortSliceLess(chainFn))
	bt := parse("pkg/store/batchable.go")
	emitStr("batchFlushCond", "pkg/store/batchable.go batchableServer.Send: when a batch is sent",
		firstIfCond(body(fn(bt, "batchableServer", "Send")), "batchSize"))
	emitStr("seriesLimitCond", "pkg/store/proxy.go ProxyStore.Series: the limit test of the response loop",
		firstIfCond(body(fn(px, "ProxyStore", "Series")), "r.Limit"))

	// ---- C05 with a TSDB selector: the shape of MatchLabelSets and the quoting in MatchersForLabelSets
	ts := parse("pkg/store/tsdb_selector.go")
	emitList("selMatchLabelSetsConds", "pkg/store/tsdb_selector.go TSDBSelector.MatchLabelSets: every if-condition, in source order",
		ifConds(body(fn(ts, "TSDBSelector", "MatchLabelSets")), ""))
	emitList("selValueInsert", "pkg/store/tsdb_selector.go MatchersForLabelSets: how a label value enters the alternatives",
		stmtsContaining(body(fn(ts, "", "MatchersForLabelSets")), "labelNameValues[l.Name]["))
	emitList("selUnionAppend", "pkg/store/proxy.go matchingStores: how the matched label sets of a store enter the union",
		stmtsContaining(body(fn(px, "ProxyStore", "matchingStores")), "storeLabelSets = append"))

	// ---- C06: where the partial-response strategy is consulted, and how a failing Recv is reported
	seriesFn := body(fn(px, "ProxyStore", "Series"))
	emitStr("proxyOpenErrContinueCond", "pkg/store/proxy.go ProxyStore.Series: when a failing Series() call of a store is only a warning",
		firstIfCond(seriesFn, "!r.PartialResponseDisabled"))
	emitStr("proxyAbortOnWarningCond", "pkg/store/proxy.go ProxyStore.Series: when a warning response ends the request",
		firstIfCond(seriesFn, "resp.GetWarning()"))
	var rw []string
	rw = append(rw, prefixed("lazy:", stmtsContaining(body(fn(pmg, "", "newLazyRespSet")), "NewWarnSeriesResponse(rerr)"))...)
	rw = append(rw, prefixed("eager:", stmtsContaining(body(fn(pmg, "", "newEagerRespSet")), "NewWarnSeriesResponse(rerr)"))...)
	emitList("recvErrorToWarning", "pkg/store/proxy_merge.go: what both receivers do with a failing Recv", rw)
	var ee []string
	ee = append(ee, prefixed("lazy:", ifConds(body(fn(pmg, "", "newLazyRespSet")), "EOF"))...)
	ee = append(ee, prefixed("eager:", ifConds(body(fn(pmg, "", "newEagerRespSet")), "EOF"))...)
	emitList("recvEndOfStreamTests", "pkg/store/proxy_merge.go: every test of a Recv error against io.EOF in both receivers (the stream-end predicate)", ee)

	// ---- C06 at the querier: every successful return of selectFn carries the collected warnings
	qf := parse("pkg/query/querier.go")
	var succ []string
	if sf := fn(qf, "querier", "selectFn"); sf != nil && sf.Body != nil {
		ast.Inspect(sf.Body, func(n ast.Node) bool {
			if r, ok := n.(*ast.ReturnStmt); ok && len(r.Results) == 3 && text(r.Results[2]) == "nil" {
				succ = append(succ, text(r.Results[0]))
			}
			return true
		})
	}
	emitList("selectFnSuccessReturns", "pkg/query/querier.go selectFn: the series set of every return with a nil error", succ)
	emitList("selectFnWarns", "pkg/query/querier.go selectFn: where `warns` is defined and used to build `set`",
		stmtsContaining(body(fn(qf, "querier", "selectFn")), "warns"))
	emitStr("seriesServerWarning", "pkg/query/querier.go seriesServer.Send: which responses become annotations",
		firstIfCond(body(fn(qf, "seriesServer", "Send")), "GetWarning"))

	// ---- C17: who puts the shard buffer back, how often, and how the byte pool tests its budget
	si := parse("pkg/store/storepb/shard_info.go")
	emitList("shardMatcherCloseBody", "pkg/store/storepb/shard_info.go ShardMatcher.Close: body of `if s.buffers != nil`",
		ifBody(body(fn(si, "ShardMatcher", "Close")), "s.buffers != nil"))
	pm := parse("pkg/store/proxy_merge.go")
	var sites []string
	sites = append(sites, prefixed("tree:", callSeq(body(fn(pm, "", "NewProxyResponseLoserTree")), "s.Close"))...)
	sites = append(sites, prefixed("series:", deferredCalls(body(fn(px, "ProxyStore", "Series")), "respSet.Close"))...)
	sites = append(sites, prefixed("lazy:", callSeq(body(fn(pm, "lazyRespSet", "Close")), "l.shardMatcher.Close"))...)
	sites = append(sites, prefixed("eager:", callSeq(body(fn(pm, "eagerRespSet", "Close")), "l.shardMatcher.Close"))...)
	emitList("proxyCloseSites", "who closes a response set / its shard matcher (loser-tree callback, deferred call in Series, respSet.Close)", sites)
	pl := parse("pkg/pool/pool.go")
	emitList("bucketedPoolBudgetTests", "pkg/pool/pool.go BucketedPool.Get: the budget tests in source order",
		ifConds(body(fn(pl, "BucketedPool", "Get")), "maxTotal"))
}
