package main

// regenerated facts of the "proxy" family (C03 C05 C06 C17)

func init() { families = append(families, factsProxy) }

func factsProxy() {
	// ---- C05: the three conditions the pruning theorems hinge on
	px := parse("pkg/store/proxy.go")
	emitStr("pruneTimeCond", "pkg/store/proxy.go storeMatches: the time-range test",
		firstIfCond(body(fn(px, "", "storeMatches")), "storeMaxTime"))
	emitStr("pruneLabelCond", "pkg/store/proxy.go LabelSetsMatch: when a matcher rejects a label set (lv := ls.Get(m.Name))",
		firstIfCond(body(fn(px, "", "LabelSetsMatch")), "Matches"))
	emitStr("pruneEmptySetsCond", "pkg/store/proxy.go LabelSetsMatch: no label set advertised",
		firstIfCond(body(fn(px, "", "LabelSetsMatch")), "len(lset)"))
	pr := parse("pkg/store/prometheus.go")
	emitStr("pruneExtAgnosticCond", "pkg/store/prometheus.go matchesExternalLabels: matcher kept when the external labels do not have the name",
		firstIfCond(body(fn(pr, "", "matchesExternalLabels")), "extValue"))
	emitStr("pruneExtRejectCond", "pkg/store/prometheus.go matchesExternalLabels: request rejected",
		firstIfCond(body(fn(pr, "", "matchesExternalLabels")), "tm.Matches"))
}
