package main

// regenerated facts of the "receive" family (C22 C23 C24 C25 C26)

func init() { families = append(families, factsReceive) }

func factsReceive() {
}
