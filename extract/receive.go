package main

import (
	"go/ast"
	"sort"
	"strings"
)

// regenerated facts of the "receive" family (C22 C23 C24 C25 C26)

func init() { families = append(families, factsReceive) }

// stmtSeq lists, in source order and only at the top level of the function body, the statements
// that matter for the write gate: "Start" (a statement containing a call of .Start), "deferDone"
// (a defer of .Done), "checkErr" (the first `if err != nil` that returns).
func gateSkeleton(fd *ast.FuncDecl) []string {
	var seq []string
	if fd == nil || fd.Body == nil {
		return seq
	}
	for _, st := range fd.Body.List {
		switch s := st.(type) {
		case *ast.DeferStmt:
			if sel, ok := s.Call.Fun.(*ast.SelectorExpr); ok && sel.Sel.Name == "Done" && text(sel.X) == "writeGate" {
				seq = append(seq, "deferDone")
			}
		case *ast.IfStmt:
			if text(s.Cond) == "err != nil" && len(seq) > 0 && !contains(seq, "checkErr") {
				// the error check that follows Start: must end in a return
				if n := len(s.Body.List); n > 0 {
					if _, ok := s.Body.List[n-1].(*ast.ReturnStmt); ok {
						seq = append(seq, "checkErr")
					}
				}
			}
		default:
			if len(callSeq(st, "writeGate.Start")) > 0 {
				seq = append(seq, "Start")
			}
		}
	}
	return seq
}

func contains(xs []string, x string) bool {
	for _, y := range xs {
		if y == x {
			return true
		}
	}
	return false
}

func factsReceive() {
	f := parse("pkg/receive/handler.go")

	// C23: which variable fanoutForward passes as the threshold of the per-series replication errors
	arg := "unknown"
	if cs := calls(body(fn(f, "Handler", "fanoutForward")), "newReplicationErrors"); len(cs) == 1 && len(cs[0].Args) == 2 {
		arg = text(cs[0].Args[0])
	}
	emitStr("replicationErrorsThresholdArg", "pkg/receive/handler.go fanoutForward: first argument of newReplicationErrors", arg)

	// C22: the quorum expression and the two thresholds
	wq := fn(f, "Handler", "writeQuorum")
	var rets []string
	if wq != nil && wq.Body != nil {
		ast.Inspect(wq.Body, func(n ast.Node) bool {
			if r, ok := n.(*ast.ReturnStmt); ok && len(r.Results) == 1 {
				rets = append(rets, text(r.Results[0]))
			}
			return true
		})
	}
	emitList("writeQuorumReturns", "pkg/receive/handler.go writeQuorum: returned expressions, in source order", rets)
	emitStr("writeQuorumSpecialCase", "pkg/receive/handler.go writeQuorum: the condition of the special case", firstIfCond(body(wq), "ReplicationFactor"))
	ff := fn(f, "Handler", "fanoutForward")
	ft := "unknown"
	if ff != nil && ff.Body != nil {
		ast.Inspect(ff.Body, func(n ast.Node) bool {
			if a, ok := n.(*ast.AssignStmt); ok && len(a.Lhs) == 1 && len(a.Rhs) == 1 && text(a.Lhs[0]) == "failureThreshold" {
				ft = text(a.Rhs[0])
			}
			return true
		})
	}
	emitStr("failureThresholdExpr", "pkg/receive/handler.go fanoutForward: definition of failureThreshold", ft)
	emitStr("canReturnEarlyCond", "pkg/receive/handler.go canReturnEarly: the test that keeps the loop waiting",
		firstIfCond(body(fn(f, "", "canReturnEarly")), "successThreshold"))

	// C26: where the symbol table of a v2 request is indexed, and the bounds test in front of it
	var idxFuncs []string
	boundCheck := "unknown"
	if f != nil {
		for _, d := range f.Decls {
			fd, ok := d.(*ast.FuncDecl)
			if !ok || fd.Body == nil {
				continue
			}
			indexes := false
			ast.Inspect(fd.Body, func(n ast.Node) bool {
				if ix, ok := n.(*ast.IndexExpr); ok {
					x := text(ix.X)
					if x == "symbols" || strings.HasSuffix(x, ".Symbols") {
						indexes = true
					}
				}
				return true
			})
			if indexes {
				idxFuncs = append(idxFuncs, fd.Name.Name)
				if c := firstIfCond(fd.Body, "len(symbols)"); c != "unknown" {
					boundCheck = c
				} else if c := firstIfCond(fd.Body, "len(w.Symbols)"); c != "unknown" {
					boundCheck = c
				}
			}
		}
	}
	emitList("v2SymbolIndexFuncs", "pkg/receive/handler.go: functions that index the symbol table of a remote-write 2.0 request", idxFuncs)
	emitStr("v2SymbolBoundCheck", "pkg/receive/handler.go: the bounds test in the function that indexes the symbol table", boundCheck)

	// C26: every field of the v1 messages is assigned by translateV2ToV1
	tr := fn(f, "", "translateV2ToV1")
	assigned := map[string]bool{}
	varType := map[string]string{"v1Ts": "TimeSeries", "v1Histogram": "Histogram", "v1Exemplar": "Exemplar"}
	if tr != nil && tr.Body != nil {
		scan := func(b ast.Node) {
			ast.Inspect(b, func(n ast.Node) bool {
				switch x := n.(type) {
				case *ast.CompositeLit:
					t := text(x.Type)
					if strings.HasPrefix(t, "prompb.") {
						for _, e := range x.Elts {
							if kv, ok := e.(*ast.KeyValueExpr); ok {
								assigned[strings.TrimPrefix(t, "prompb.")+"."+text(kv.Key)] = true
							}
						}
					}
				case *ast.AssignStmt:
					for _, l := range x.Lhs {
						if sel, ok := l.(*ast.SelectorExpr); ok {
							if ty, ok := varType[text(sel.X)]; ok {
								assigned[ty+"."+sel.Sel.Name] = true
							}
						}
					}
				}
				return true
			})
		}
		scan(tr.Body)
		if sp := fn(f, "", "translateV2SpansToV1"); sp != nil && sp.Body != nil {
			scan(sp.Body)
		}
	}
	var as []string
	for k := range assigned {
		as = append(as, k)
	}
	sort.Strings(as)
	emitList("v2TranslateAssigned", "pkg/receive/handler.go translateV2ToV1 / translateV2SpansToV1: v1 fields that are assigned", as)
	pb := parse("pkg/store/storepb/prompb/types.pb.go")
	var fields []string
	if pb != nil {
		want := map[string]bool{"Sample": true, "Exemplar": true, "Histogram": true, "BucketSpan": true, "TimeSeries": true}
		for _, d := range pb.Decls {
			gd, ok := d.(*ast.GenDecl)
			if !ok {
				continue
			}
			for _, sp := range gd.Specs {
				ts, ok := sp.(*ast.TypeSpec)
				if !ok || !want[ts.Name.Name] {
					continue
				}
				st, ok := ts.Type.(*ast.StructType)
				if !ok {
					continue
				}
				for _, fl := range st.Fields.List {
					for _, nm := range fl.Names {
						if !strings.HasPrefix(nm.Name, "XXX_") {
							fields = append(fields, ts.Name.Name+"."+nm.Name)
						}
					}
				}
			}
		}
	}
	sort.Strings(fields)
	emitList("v1MessageFields", "pkg/store/storepb/prompb/types.pb.go: fields of Sample, Exemplar, Histogram, BucketSpan, TimeSeries", fields)

	// C25: the fields of the capnp Histogram struct (generated accessors) vs. prompb.Histogram
	cp := parse("pkg/receive/writecapnp/write_request.capnp.go")
	capnpFields := map[string]bool{}
	if cp != nil {
		for _, d := range cp.Decls {
			fd, ok := d.(*ast.FuncDecl)
			if !ok || fd.Recv == nil || len(fd.Recv.List) != 1 || text(fd.Recv.List[0].Type) != "Histogram" {
				continue
			}
			n := fd.Name.Name
			switch {
			case strings.HasPrefix(n, "Set") && len(n) > 3:
				capnpFields[n[3:]] = true
			case strings.HasPrefix(n, "New") && len(n) > 3:
				capnpFields[n[3:]] = true
			case n == "Count" || n == "ZeroCount":
				capnpFields[n] = true
			}
		}
	}
	var cf []string
	for k := range capnpFields {
		cf = append(cf, "Histogram."+k)
	}
	sort.Strings(cf)
	emitList("capnpHistogramFields", "pkg/receive/writecapnp/write_request.capnp.go: fields of the capnp Histogram struct (from its setters / group accessors)", cf)
	// … and which of them marshalHistogram sets / readHistogram reads
	mh := fn(parse("pkg/receive/writecapnp/marshal.go"), "", "marshalHistogram")
	var setCalls []string
	if mh != nil && mh.Body != nil {
		seen := map[string]bool{}
		ast.Inspect(mh.Body, func(n ast.Node) bool {
			if c, ok := n.(*ast.CallExpr); ok {
				if sel, ok := c.Fun.(*ast.SelectorExpr); ok {
					nm := sel.Sel.Name
					if (strings.HasPrefix(nm, "Set") || strings.HasPrefix(nm, "New")) && len(nm) > 3 && !seen[nm[3:]] {
						seen[nm[3:]] = true
						setCalls = append(setCalls, nm[3:])
					}
				}
			}
			return true
		})
	}
	sort.Strings(setCalls)
	emitList("capnpMarshalHistogramSets", "pkg/receive/writecapnp/marshal.go marshalHistogram: members it sets", setCalls)

	// C22/C23: how the Cap'n Proto client reports a peer's failure to the fan-out
	cl := parse("pkg/receive/writecapnp/client.go")
	lastRet := "unknown"
	if rw := fn(cl, "RemoteWriteClient", "RemoteWrite"); rw != nil && rw.Body != nil && len(rw.Body.List) > 0 {
		lastRet = text(rw.Body.List[len(rw.Body.List)-1])
	}
	emitStr("capnpClientFallback", "pkg/receive/writecapnp/client.go RemoteWrite: the answer for an RPC error that is neither deadline nor cancellation", lastRet)
	var internalRets []string
	if wr := fn(cl, "RemoteWriteClient", "writeWithReconnect"); wr != nil && wr.Body != nil {
		ast.Inspect(wr.Body, func(n ast.Node) bool {
			cc, ok := n.(*ast.CaseClause)
			if !ok || len(cc.List) != 1 || text(cc.List[0]) != "WriteError_internal" || len(cc.Body) == 0 {
				return true
			}
			internalRets = append(internalRets, text(cc.Body[len(cc.Body)-1]))
			return true
		})
	}
	emitList("capnpClientInternal", "pkg/receive/writecapnp/client.go writeWithReconnect: how case WriteError_internal ends", internalRets)
	sv := parse("pkg/receive/capnp_server.go")
	var serverMap []string
	if wr := fn(sv, "CapNProtoHandler", "Write"); wr != nil && wr.Body != nil {
		ast.Inspect(wr.Body, func(n ast.Node) bool {
			cc, ok := n.(*ast.CaseClause)
			if !ok || len(cc.Body) == 0 {
				return true
			}
			for _, st := range cc.Body {
				for _, c := range calls(st, "SetError") {
					if len(c.Args) == 1 {
						k := "default"
						if len(cc.List) == 1 {
							k = text(cc.List[0])
						}
						serverMap = append(serverMap, k+"=>"+text(c.Args[0]))
					}
				}
			}
			return true
		})
	}
	emitList("capnpServerErrorMap", "pkg/receive/capnp_server.go CapNProtoHandler.Write: cause => WriteError", serverMap)

	// C25: how readHistogram reads the zero count
	rh := fn(parse("pkg/receive/writecapnp/write_request.go"), "Request", "readHistogram")
	var zc []string
	if rh != nil && rh.Body != nil {
		ast.Inspect(rh.Body, func(n ast.Node) bool {
			if kv, ok := n.(*ast.KeyValueExpr); ok && text(kv.Key) == "ZeroCount" {
				zc = append(zc, text(kv.Value))
			}
			return true
		})
	}
	emitList("capnpReadZeroCount", "pkg/receive/writecapnp/write_request.go readHistogram: the expressions assigned to ZeroCount (int histogram, float histogram)", zc)

	// C24: order of Start / deferred Done / error check in the two HTTP entry points
	emitList("receiveHTTPGate", "pkg/receive/handler.go receiveHTTP: gate skeleton", gateSkeleton(fn(f, "Handler", "receiveHTTP")))
	// C24: each handler starts and releases the gate exactly once
	emitList("receiveHTTPGateCalls", "pkg/receive/handler.go receiveHTTP: calls of writeGate.Start / writeGate.Done",
		callSeq(body(fn(f, "Handler", "receiveHTTP")), "writeGate.Start", "writeGate.Done"))
	fo := parse("pkg/receive/handler_otlp.go")
	emitList("receiveOTLPHTTPGateCalls", "pkg/receive/handler_otlp.go receiveOTLPHTTP: calls of writeGate.Start / writeGate.Done",
		callSeq(body(fn(fo, "Handler", "receiveOTLPHTTP")), "writeGate.Start", "writeGate.Done"))
	// C24: the gate is looked up once per request: the statements that call WriteGate()
	lookups := func(fd *ast.FuncDecl) []string {
		var out []string
		if fd == nil || fd.Body == nil {
			return out
		}
		ast.Inspect(fd.Body, func(n ast.Node) bool {
			switch st := n.(type) {
			case *ast.AssignStmt, *ast.ExprStmt, *ast.DeferStmt, *ast.ReturnStmt:
				if len(calls(st, "WriteGate")) > 0 {
					out = append(out, text(st))
					return false
				}
			}
			return true
		})
		return out
	}
	emitList("receiveHTTPGateLookup", "pkg/receive/handler.go receiveHTTP: statements that call Limiter.WriteGate()", lookups(fn(f, "Handler", "receiveHTTP")))
	emitList("receiveOTLPHTTPGateLookup", "pkg/receive/handler_otlp.go receiveOTLPHTTP: statements that call Limiter.WriteGate()", lookups(fn(fo, "Handler", "receiveOTLPHTTP")))
	// C24: the gate wrappers of pkg/gate and the limiter's decision to build a gate
	gf := parse("pkg/gate/gate.go")
	emitStr("gateNewNoopCond", "pkg/gate/gate.go New: when the noop gate is used", firstIfCond(body(fn(gf, "", "New")), "maxConcurrent"))
	emitList("gateNewWrappers", "pkg/gate/gate.go New: the instrumenting wrappers, outermost first",
		callSeq(body(fn(gf, "", "New")), "InstrumentGateDuration", "InstrumentGateTotal", "InstrumentGateInFlight"))
	emitList("gateInFlightStart", "pkg/gate/gate.go instrumentedInFlightGate.Start: inner Start, then Inc",
		callSeq(body(fn(gf, "instrumentedInFlightGate", "Start")), "Start", "Inc"))
	emitList("gateInFlightDone", "pkg/gate/gate.go instrumentedInFlightGate.Done: Dec, then inner Done",
		callSeq(body(fn(gf, "instrumentedInFlightGate", "Done")), "Dec", "Done"))
	emitList("gateTotalStart", "pkg/gate/gate.go instrumentedTotalGate.Start: Inc, then inner Start",
		callSeq(body(fn(gf, "instrumentedTotalGate", "Start")), "Inc", "Start"))
	emitList("gateNoopCalls", "pkg/gate/gate.go noopGate: calls made by Start and Done (none)",
		append(callSeq(body(fn(gf, "noopGate", "Start")), "Start", "Done", "Inc", "Dec", "Err"), callSeq(body(fn(gf, "noopGate", "Done")), "Start", "Done", "Inc", "Dec")...))
	lf := parse("pkg/receive/limiter.go")
	emitStr("limiterGateCond", "pkg/receive/limiter.go loadConfig: when a write gate is built", firstIfCond(body(fn(lf, "Limiter", "loadConfig")), "maxWriteConcurrency"))
	// C24: the gate has an identity — where it is constructed, stored and handed out
	var builtIn, assignedIn, wgBody []string
	if lf != nil {
		for _, d := range lf.Decls {
			fd, ok := d.(*ast.FuncDecl)
			if !ok || fd.Body == nil {
				continue
			}
			if len(calls(fd.Body, "gate.New")) > 0 {
				builtIn = append(builtIn, fd.Name.Name)
			}
			assigns := false
			ast.Inspect(fd.Body, func(n ast.Node) bool {
				switch x := n.(type) {
				case *ast.AssignStmt:
					for _, l := range x.Lhs {
						if strings.HasSuffix(text(l), ".writeGate") {
							assigns = true
						}
					}
				case *ast.KeyValueExpr:
					if text(x.Key) == "writeGate" {
						assigns = true
					}
				}
				return true
			})
			if assigns {
				assignedIn = append(assignedIn, fd.Name.Name)
			}
		}
		if wg := fn(lf, "Limiter", "WriteGate"); wg != nil && wg.Body != nil {
			for _, st := range wg.Body.List {
				wgBody = append(wgBody, text(st))
			}
		}
	}
	emitList("limiterGateBuiltIn", "pkg/receive/limiter.go: functions that call gate.New", builtIn)
	emitList("limiterGateAssignedIn", "pkg/receive/limiter.go: functions that assign the writeGate field", assignedIn)
	emitList("limiterWriteGateBody", "pkg/receive/limiter.go Limiter.WriteGate: its statements", wgBody)
	emitList("limiterLoadConfigSeq", "pkg/receive/limiter.go loadConfig: lock, deferred unlock, construction of the gate",
		callSeq(body(fn(lf, "Limiter", "loadConfig")), "l.Lock", "l.Unlock", "gate.New"))
	emitList("limiterDefaultGate", "pkg/receive/limiter.go NewLimiter: the gate a new limiter starts with",
		callSeq(body(fn(lf, "", "NewLimiter")), "gate.NewNoop", "gate.New"))
	emitList("receiveOTLPHTTPGate", "pkg/receive/handler_otlp.go receiveOTLPHTTP: gate skeleton", gateSkeleton(fn(fo, "Handler", "receiveOTLPHTTP")))
}
