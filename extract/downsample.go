package main

import (
	"go/ast"
	"strings"
)

func init() { families = append(families, factsDownsample) }

// ---------------------------------------------------------------- downsample family

// dsAssignRHS returns the text of the right-hand side of the first `name := …` / `name = …` in body.
func dsAssignRHS(b ast.Node, name string) string {
	res := "unknown"
	if b == nil {
		return res
	}
	done := false
	ast.Inspect(b, func(n ast.Node) bool {
		if done {
			return false
		}
		if a, ok := n.(*ast.AssignStmt); ok && len(a.Lhs) == 1 && len(a.Rhs) == 1 {
			if id, ok := a.Lhs[0].(*ast.Ident); ok && id.Name == name {
				res, done = text(a.Rhs[0]), true
				return false
			}
		}
		return true
	})
	return res
}

// dsForConds lists the conditions of the for statements in body, in source order (range loops: "range").
func dsForConds(b ast.Node) []string {
	var r []string
	if b == nil {
		return r
	}
	ast.Inspect(b, func(n ast.Node) bool {
		switch s := n.(type) {
		case *ast.ForStmt:
			if s.Cond == nil {
				r = append(r, "true")
			} else {
				r = append(r, text(s.Cond))
			}
		case *ast.RangeStmt:
			r = append(r, "range "+text(s.X))
		}
		return true
	})
	return r
}

// dsFirstReturn is the text of the results of the first return statement in body.
func dsFirstReturn(b ast.Node) string {
	res := "unknown"
	if b == nil {
		return res
	}
	done := false
	ast.Inspect(b, func(n ast.Node) bool {
		if done {
			return false
		}
		if r, ok := n.(*ast.ReturnStmt); ok {
			parts := make([]string, len(r.Results))
			for i, x := range r.Results {
				parts[i] = text(x)
			}
			res, done = strings.Join(parts, ", "), true
			return false
		}
		return true
	})
	return res
}

// dsVarInit returns the text of the initial value of `var name = …` inside body.
func dsVarInit(b ast.Node, name string) string {
	res := "unknown"
	if b == nil {
		return res
	}
	ast.Inspect(b, func(n ast.Node) bool {
		if vs, ok := n.(*ast.ValueSpec); ok {
			for i, id := range vs.Names {
				if id.Name == name && i < len(vs.Values) {
					res = text(vs.Values[i])
				}
			}
		}
		return true
	})
	return res
}

// dsCallContexts lists, for every call of callee inside body (source order), the chain of enclosing
// loops and if-statements: "for range chks > if cutNewChunk(...)"; a call outside any loop/if is "top".
func dsCallContexts(b ast.Node, callee string) []string {
	var res []string
	if b == nil {
		return res
	}
	var walk func(n ast.Node, path []string)
	walk = func(n ast.Node, path []string) {
		if n == nil {
			return
		}
		switch s := n.(type) {
		case *ast.RangeStmt:
			walk(s.Body, append(append([]string{}, path...), "for range "+text(s.X)))
			return
		case *ast.ForStmt:
			c := "true"
			if s.Cond != nil {
				c = text(s.Cond)
			}
			walk(s.Body, append(append([]string{}, path...), "for "+c))
			return
		case *ast.IfStmt:
			if s.Init != nil {
				walk(s.Init, append(append([]string{}, path...), "if-init "+text(s.Cond)))
			}
			walk(s.Body, append(append([]string{}, path...), "if "+text(s.Cond)))
			if s.Else != nil {
				walk(s.Else, append(append([]string{}, path...), "else-of "+text(s.Cond)))
			}
			return
		case *ast.FuncLit:
			walk(s.Body, append(append([]string{}, path...), "func"))
			return
		case *ast.CallExpr:
			if callName(s) == callee {
				if len(path) == 0 {
					res = append(res, "top")
				} else {
					res = append(res, strings.Join(path, " > "))
				}
			}
		}
		// generic descent over children
		ast.Inspect(n, func(m ast.Node) bool {
			if m == nil || m == n {
				return true
			}
			walk(m, path)
			return false
		})
	}
	walk(b, nil)
	return res
}

// dsCallArgs lists the text of argument idx of every call of callee inside body (source order).
func dsCallArgs(b ast.Node, callee string, idx int) []string {
	var res []string
	for _, c := range calls(b, callee) {
		if idx < len(c.Args) {
			res = append(res, text(c.Args[idx]))
		} else {
			res = append(res, "unknown")
		}
	}
	return res
}

// dsIfConds lists every if-condition in body, in source order.
func dsIfConds(b ast.Node) []string {
	var r []string
	if b == nil {
		return r
	}
	ast.Inspect(b, func(n ast.Node) bool {
		if s, ok := n.(*ast.IfStmt); ok {
			r = append(r, text(s.Cond))
		}
		return true
	})
	return r
}

func factsDownsample() {
	f := parse("pkg/compact/downsample/aggr.go")
	get := fn(f, "AggrChunk", "Get")
	emitStr("aggrGetSizeTest", "pkg/compact/downsample/aggr.go AggrChunk.Get: the size test of the loop",
		firstIfCond(body(get), "len(b[n:])"))

	d := parse("pkg/compact/downsample/downsample.go")
	emitStr("dsCurrentWindow", "downsample.go currentWindow: the returned expression", dsFirstReturn(body(fn(d, "", "currentWindow"))))
	cw := body(fn(d, "", "currentWindow"))
	emitStr("dsCurrentWindowRem", "downsample.go currentWindow: the remainder m", dsAssignRHS(cw, "m"))
	emitList("dsCurrentWindowConds", "downsample.go currentWindow: if-conditions (the shift of a negative remainder)", dsIfConds(cw))
	db := body(fn(d, "", "downsampleBatch"))
	emitStr("dsBatchNextTInit", "downsample.go downsampleBatch: initial value of nextT (no window started yet)", dsVarInit(db, "nextT"))
	emitList("dsBatchConds", "downsample.go downsampleBatch: if-conditions in source order (new window / emit previous window / final emit)", dsIfConds(db))
	emitStr("dsBatchNextT", "downsample.go downsampleBatch: how the next emission timestamp is chosen", dsAssignRHS(db, "nextT"))
	rl := body(fn(d, "", "downsampleRawLoop"))
	emitStr("dsRawBatchSize", "downsample.go downsampleRawLoop: batchSize", dsAssignRHS(rl, "batchSize"))
	emitList("dsRawLoops", "downsample.go downsampleRawLoop: loop conditions in source order (outer loop, window extension, NaN filter)", dsForConds(rl))
	emitStr("dsRawCurW", "downsample.go downsampleRawLoop: the window the batch is extended to", dsAssignRHS(rl, "curW"))
	emitList("dsRawBatchFn", "downsample.go DownsampleRaw: the batch function handed to downsampleRawLoop (histogram branch, float branch)",
		dsCallArgs(body(fn(d, "", "DownsampleRaw")), "downsampleRawLoop", 4))
	emitList("dsFloatBatchAggr", "downsample.go downsampleFloatBatch: the aggregator handed to downsampleBatch (a fresh one per batch)",
		dsCallArgs(body(fn(d, "", "downsampleFloatBatch")), "downsampleBatch", 2))
	emitList("dsFloatBatchCalls", "downsample.go downsampleFloatBatch: calls in source order", callSeq(body(fn(d, "", "downsampleFloatBatch")), "newAggrChunkBuilder", "Append", "downsampleBatch", "encode", "downsampleFloatBatchWith"))
	emitList("dsDownsampleRawCalls", "downsample.go Downsample(): where DownsampleRaw is called (enclosing loops / ifs of every call, source order)",
		dsCallContexts(body(fn(d, "", "Downsample")), "DownsampleRaw"))
	q := parse("pkg/query/iter.go")
	csi := body(fn(q, "chunkSeries", "Iterator"))
	emitList("dsQuerierChunkLoops", "pkg/query/iter.go chunkSeries.Iterator: what every loop that builds the per-chunk iterators ranges over (all chunks of the series: no trimming)", dsForConds(csi))
	emitList("dsQuerierBounded", "pkg/query/iter.go chunkSeries.Iterator: the NewBoundedSeriesIterator calls that wrap the result", func() []string {
		var r []string
		for _, c := range calls(csi, "NewBoundedSeriesIterator") {
			r = append(r, text(c))
		}
		return r
	}())
	al := body(fn(d, "", "downsampleAggrLoop"))
	emitStr("dsAggrBatchSize", "downsample.go downsampleAggrLoop: batchSize", dsAssignRHS(al, "batchSize"))
	emitList("dsAggrLoopConds", "downsample.go downsampleAggrLoop: if-conditions in source order", dsIfConds(al))
	add := body(fn(d, "floatAggregator", "add"))
	emitList("dsAggregatorAddConds", "downsample.go floatAggregator.add: if-conditions in source order", dsIfConds(add))
	nx := body(fn(d, "ApplyCounterResetsSeriesIterator", "Next"))
	emitList("dsCounterNextConds", "downsample.go ApplyCounterResetsSeriesIterator.Next: if-conditions in source order", dsIfConds(nx))
	emitList("dsCounterNextSeek", "downsample.go ApplyCounterResetsSeriesIterator.Next: the Seek call made when a chunk is exhausted", func() []string {
		var r []string
		for _, c := range calls(nx, "Seek") {
			r = append(r, text(c))
		}
		return r
	}())
}
