package main

import (
	"go/ast"
	"strings"
)

func init() { families = append(families, factsDownsample) }

// ---------------------------------------------------------------- downsample family

// dsAssignRHS returns the text of the right-hand side of the first `name := …` / `name = …` in body.
func dsAssignRHS(b ast.Node, name string) string {
	res := "unknown"
	if b == nil {
		return res
	}
	done := false
	ast.Inspect(b, func(n ast.Node) bool {
		if done {
			return false
		}
		if a, ok := n.(*ast.AssignStmt); ok && len(a.Lhs) == 1 && len(a.Rhs) == 1 {
			if id, ok := a.Lhs[0].(*ast.Ident); ok && id.Name == name {
				res, done = text(a.Rhs[0]), true
				return false
			}
		}
		return true
	})
	return res
}

// dsForConds lists the conditions of the for statements in body, in source order (range loops: "range").
func dsForConds(b ast.Node) []string {
	var r []string
	if b == nil {
		return r
	}
	ast.Inspect(b, func(n ast.Node) bool {
		switch s := n.(type) {
		case *ast.ForStmt:
			if s.Cond == nil {
				r = append(r, "true")
			} else {
				r = append(r, text(s.Cond))
			}
		case *ast.RangeStmt:
			r = append(r, "range "+text(s.X))
		}
		return true
	})
	return r
}

// dsFirstReturn is the text of the results of the first return statement in body.
func dsFirstReturn(b ast.Node) string {
	res := "unknown"
	if b == nil {
		return res
	}
	done := false
	ast.Inspect(b, func(n ast.Node) bool {
		if done {
			return false
		}
		if r, ok := n.(*ast.ReturnStmt); ok {
			parts := make([]string, len(r.Results))
			for i, x := range r.Results {
				parts[i] = text(x)
			}
			res, done = strings.Join(parts, ", "), true
			return false
		}
		return true
	})
	return res
}

// dsVarInit returns the text of the initial value of `var name = …` inside body.
func dsVarInit(b ast.Node, name string) string {
	res := "unknown"
	if b == nil {
		return res
	}
	ast.Inspect(b, func(n ast.Node) bool {
		if vs, ok := n.(*ast.ValueSpec); ok {
			for i, id := range vs.Names {
				if id.Name == name && i < len(vs.Values) {
					res = text(vs.Values[i])
				}
			}
		}
		return true
	})
	return res
}

// dsIfConds lists every if-condition in body, in source order.
func dsIfConds(b ast.Node) []string {
	var r []string
	if b == nil {
		return r
	}
	ast.Inspect(b, func(n ast.Node) bool {
		if s, ok := n.(*ast.IfStmt); ok {
			r = append(r, text(s.Cond))
		}
		return true
	})
	return r
}

func factsDownsample() {
	f := parse("pkg/compact/downsample/aggr.go")
	get := fn(f, "AggrChunk", "Get")
	emitStr("aggrGetSizeTest", "pkg/compact/downsample/aggr.go AggrChunk.Get: the size test of the loop",
		firstIfCond(body(get), "len(b[n:])"))

	d := parse("pkg/compact/downsample/downsample.go")
	emitStr("dsCurrentWindow", "downsample.go currentWindow: the returned expression", dsFirstReturn(body(fn(d, "", "currentWindow"))))
	cw := body(fn(d, "", "currentWindow"))
	emitStr("dsCurrentWindowRem", "downsample.go currentWindow: the remainder m", dsAssignRHS(cw, "m"))
	emitList("dsCurrentWindowConds", "downsample.go currentWindow: if-conditions (the shift of a negative remainder)", dsIfConds(cw))
	db := body(fn(d, "", "downsampleBatch"))
	emitStr("dsBatchNextTInit", "downsample.go downsampleBatch: initial value of nextT (no window started yet)", dsVarInit(db, "nextT"))
	emitList("dsBatchConds", "downsample.go downsampleBatch: if-conditions in source order (new window / emit previous window / final emit)", dsIfConds(db))
	emitStr("dsBatchNextT", "downsample.go downsampleBatch: how the next emission timestamp is chosen", dsAssignRHS(db, "nextT"))
	rl := body(fn(d, "", "downsampleRawLoop"))
	emitStr("dsRawBatchSize", "downsample.go downsampleRawLoop: batchSize", dsAssignRHS(rl, "batchSize"))
	emitList("dsRawLoops", "downsample.go downsampleRawLoop: loop conditions in source order (outer loop, window extension, NaN filter)", dsForConds(rl))
	emitStr("dsRawCurW", "downsample.go downsampleRawLoop: the window the batch is extended to", dsAssignRHS(rl, "curW"))
	al := body(fn(d, "", "downsampleAggrLoop"))
	emitStr("dsAggrBatchSize", "downsample.go downsampleAggrLoop: batchSize", dsAssignRHS(al, "batchSize"))
	emitList("dsAggrLoopConds", "downsample.go downsampleAggrLoop: if-conditions in source order", dsIfConds(al))
	add := body(fn(d, "floatAggregator", "add"))
	emitList("dsAggregatorAddConds", "downsample.go floatAggregator.add: if-conditions in source order", dsIfConds(add))
	nx := body(fn(d, "ApplyCounterResetsSeriesIterator", "Next"))
	emitList("dsCounterNextConds", "downsample.go ApplyCounterResetsSeriesIterator.Next: if-conditions in source order", dsIfConds(nx))
	emitList("dsCounterNextSeek", "downsample.go ApplyCounterResetsSeriesIterator.Next: the Seek call made when a chunk is exhausted", func() []string {
		var r []string
		for _, c := range calls(nx, "Seek") {
			r = append(r, text(c))
		}
		return r
	}())
}
