package main

func init() { families = append(families, factsDownsample) }

// ---------------------------------------------------------------- downsample family

func factsDownsample() {
	f := parse("pkg/compact/downsample/aggr.go")
	get := fn(f, "AggrChunk", "Get")
	emitStr("aggrGetSizeTest", "pkg/compact/downsample/aggr.go AggrChunk.Get: the size test of the loop",
		firstIfCond(body(get), "len(b[n:])"))
}
