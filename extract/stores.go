package main

import (
	"go/ast"
	"go/token"
	"strconv"
	"strings"
)

// regenerated facts of the "stores" family (C07 C08 C09 C10 C15)

func init() { families = append(families, factsStores) }

// storesConstText returns the source text of the value of a package-level constant.
func storesConstText(f *ast.File, name string) string {
	if f == nil {
		return "unknown"
	}
	for _, d := range f.Decls {
		gd, ok := d.(*ast.GenDecl)
		if !ok || gd.Tok != token.CONST {
			continue
		}
		for _, sp := range gd.Specs {
			vs, ok := sp.(*ast.ValueSpec)
			if !ok {
				continue
			}
			for i, n := range vs.Names {
				if n.Name == name && i < len(vs.Values) {
					return text(vs.Values[i])
				}
			}
		}
	}
	return "unknown"
}

// storesKeyValue returns the text of the value of `key:` in the first composite literal of body that has it.
func storesKeyValue(body ast.Node, key string) string {
	res := "unknown"
	if body == nil {
		return res
	}
	done := false
	ast.Inspect(body, func(n ast.Node) bool {
		if done {
			return false
		}
		if kv, ok := n.(*ast.KeyValueExpr); ok {
			if id, ok := kv.Key.(*ast.Ident); ok && id.Name == key {
				res, done = text(kv.Value), true
				return false
			}
		}
		return true
	})
	return res
}

// storesIfConds lists the conditions of all if statements of body, in source order.
func storesIfConds(body ast.Node) []string {
	var r []string
	if body == nil {
		return r
	}
	ast.Inspect(body, func(n ast.Node) bool {
		if s, ok := n.(*ast.IfStmt); ok {
			r = append(r, text(s.Cond))
		}
		return true
	})
	return r
}

func storesCallArgs(cs []*ast.CallExpr) []string {
	var r []string
	for _, c := range cs {
		s := ""
		for i, a := range c.Args {
			if i > 0 {
				s += ", "
			}
			s += text(a)
		}
		r = append(r, s)
	}
	return r
}

// storesAssigns lists, in source order, the assignments / short variable declarations of body whose
// left-hand side is the single identifier lhs.
func storesAssigns(body ast.Node, lhs string) []string {
	var r []string
	if body == nil {
		return r
	}
	ast.Inspect(body, func(n ast.Node) bool {
		if a, ok := n.(*ast.AssignStmt); ok && len(a.Lhs) == 1 {
			if id, ok := a.Lhs[0].(*ast.Ident); ok && id.Name == lhs {
				r = append(r, text(a))
			}
		}
		return true
	})
	return r
}

func storesTail(xs []string) []string {
	if len(xs) == 0 {
		return nil
	}
	return xs[1:]
}

// storesSkeleton renders a statement list one level deep: what each statement tests and does.
func storesSkeleton(list []ast.Stmt) []string {
	var direct func(st ast.Stmt) string
	direct = func(st ast.Stmt) string {
		switch x := st.(type) {
		case *ast.ReturnStmt:
			return "return"
		case *ast.BranchStmt:
			if x.Label != nil {
				return x.Tok.String() + " " + x.Label.Name
			}
			return x.Tok.String()
		case *ast.ExprStmt:
			if c, ok := x.X.(*ast.CallExpr); ok {
				return callName(c)
			}
			return text(x.X)
		case *ast.AssignStmt:
			r := text(x.Lhs[0]) + " " + x.Tok.String()
			if len(x.Rhs) == 1 {
				if c, ok := x.Rhs[0].(*ast.CallExpr); ok {
					r += " " + callName(c)
				}
			}
			return r
		case *ast.IfStmt:
			if x.Init != nil {
				if a, ok := x.Init.(*ast.AssignStmt); ok && len(a.Rhs) == 1 {
					if c, ok := a.Rhs[0].(*ast.CallExpr); ok {
						return "if " + callName(c)
					}
				}
			}
			return "if " + text(x.Cond)
		case *ast.IncDecStmt:
			return text(x.X) + x.Tok.String()
		case *ast.ForStmt, *ast.RangeStmt:
			return "loop"
		case *ast.LabeledStmt:
			return x.Label.Name + ": loop"
		}
		return "stmt"
	}
	var out []string
	for _, st := range list {
		if ifs, ok := st.(*ast.IfStmt); ok && ifs.Init == nil {
			var inner []string
			for _, b := range ifs.Body.List {
				inner = append(inner, direct(b))
			}
			out = append(out, "if "+text(ifs.Cond)+" { "+strings.Join(inner, "; ")+" }")
			continue
		}
		out = append(out, direct(st))
	}
	return out
}

func factsStores() {
	// ---- C15
	bucket := parse("pkg/store/bucket.go")
	ds := parse("pkg/compact/downsample/downsample.go")
	emitStr("storesBlockSetResolutions", "pkg/store/bucket.go newBucketBlockSet: the resolutions of the levels, in order",
		storesKeyValue(body(fn(bucket, "", "newBucketBlockSet")), "resolutions"))
	emitList("storesResLevels", "pkg/compact/downsample/downsample.go: ResLevel0, ResLevel1, ResLevel2",
		[]string{storesConstText(ds, "ResLevel0"), storesConstText(ds, "ResLevel1"), storesConstText(ds, "ResLevel2")})
	getFor := fn(bucket, "bucketBlockSet", "getFor")
	emitList("storesGetForConds", "pkg/store/bucket.go bucketBlockSet.getFor: conditions of its if statements, in order",
		storesIfConds(body(getFor)))
	emitList("storesGetForRecursion", "pkg/store/bucket.go bucketBlockSet.getFor: arguments of the recursive calls, in order",
		storesCallArgs(calls(body(getFor), "getFor")))
	emitList("storesGetForAppends", "pkg/store/bucket.go bucketBlockSet.getFor: how results are appended (recursive results must go through appendMissingBlocks), in order",
		callSeq(body(getFor), "append", "appendMissingBlocks"))

	rmAssign := "unknown"
	ast.Inspect(body(fn(bucket, "bucketBlockSet", "remove")), func(n ast.Node) bool {
		if a, ok := n.(*ast.AssignStmt); ok && len(a.Lhs) == 1 && text(a.Lhs[0]) == "s.blocks[i]" {
			rmAssign = text(a)
		}
		return true
	})
	emitList("storesBlockSetRemove", "pkg/store/bucket.go bucketBlockSet.remove: its statements, flattened (the deletion must keep the order of the remaining blocks)",
		append([]string{rmAssign}, callSeq(body(fn(bucket, "bucketBlockSet", "remove")), "append", "Lock", "Unlock")...))

	// ---- C08
	tsdbf := parse("pkg/store/tsdb.go")
	tser := body(fn(tsdbf, "TSDBStore", "Series"))
	emitList("storesTSDBComplete", "pkg/store/tsdb.go TSDBStore.Series: how the served label set is put together",
		append(storesAssigns(tser, "finalExtLset"), storesAssigns(tser, "completeLabelset")...))
	emitList("storesBucketComplete", "pkg/store/bucket.go newBlockSeriesClient / blockSeriesClient.nextBatch: how the served label set is put together",
		append(storesTail(storesAssigns(body(fn(bucket, "", "newBlockSeriesClient")), "extLset")), storesAssigns(body(fn(bucket, "blockSeriesClient", "nextBatch")), "completeLabelset")...))

	// ---- C09
	var codesArgs []string
	for _, name := range []string{"ExpandPostings", "nextBatch"} {
		for _, c := range calls(body(fn(bucket, "blockSeriesClient", name)), "Errorf") {
			if callName(c) == "httpgrpc.Errorf" && len(c.Args) > 0 {
				codesArgs = append(codesArgs, text(c.Args[0]))
			}
		}
	}
	emitList("storesLimitErrorCodes", "pkg/store/bucket.go blockSeriesClient.ExpandPostings / nextBatch: status codes of the limiter errors", codesArgs)
	custom := parse("pkg/store/storepb/custom.go")
	emitStr("storesWarnCodeCond", "pkg/store/storepb/custom.go GRPCCodeFromWarn: the ResourceExhausted test",
		firstIfCond(body(fn(custom, "", "GRPCCodeFromWarn")), "ResourceExhausted"))
	lim := parse("pkg/store/limiter.go")
	limCond := "unknown"
	ast.Inspect(body(fn(lim, "Limiter", "ReserveWithType")), func(n ast.Node) bool {
		if s, ok := n.(*ast.IfStmt); ok && s.Init != nil {
			limCond = text(s.Init) + "; " + text(s.Cond)
		}
		return true
	})
	var sendErrs []string
	ast.Inspect(body(fn(lim, "limitedServer", "Send")), func(n ast.Node) bool {
		if ifs, ok := n.(*ast.IfStmt); ok && ifs.Init != nil {
			for _, st := range ifs.Body.List {
				if ret, ok := st.(*ast.ReturnStmt); ok && len(ret.Results) == 1 {
					sendErrs = append(sendErrs, text(ret.Results[0]))
				}
			}
		}
		return true
	})
	emitList("storesLimitedSendErrors", "pkg/store/limiter.go limitedServer.Send: what is returned when a limiter refuses", sendErrs)
	limStatus := "unknown"
	ast.Inspect(body(fn(lim, "limitError", "GRPCStatus")), func(n ast.Node) bool {
		if ret, ok := n.(*ast.ReturnStmt); ok && len(ret.Results) == 1 {
			limStatus = text(ret.Results[0])
		}
		return true
	})
	emitStr("storesLimitErrorStatus", "pkg/store/limiter.go limitError.GRPCStatus: the status of a violated limit", limStatus)
	emitStr("storesLimiterCond", "pkg/store/limiter.go Limiter.ReserveWithType: the reservation and its test", limCond)

	// ---- C07 / C08: the TSDB store keeps one copy of its external labels, and every call reads it
	var fields []string
	if tsdbf != nil {
		for _, d := range tsdbf.Decls {
			gd, ok := d.(*ast.GenDecl)
			if !ok || gd.Tok != token.TYPE {
				continue
			}
			for _, sp := range gd.Specs {
				ts, ok := sp.(*ast.TypeSpec)
				if !ok || ts.Name.Name != "TSDBStore" {
					continue
				}
				if st, ok := ts.Type.(*ast.StructType); ok {
					for _, f := range st.Fields.List {
						if len(f.Names) == 0 {
							fields = append(fields, text(f.Type))
						}
						for _, n := range f.Names {
							fields = append(fields, n.Name)
						}
					}
				}
			}
		}
	}
	emitList("storesTSDBStoreFields", "pkg/store/tsdb.go TSDBStore: its fields (extLsetAsLabelSets is the only copy of the external labels)", fields)
	var readers []string
	for _, name := range []string{"Series", "LabelNames", "LabelValues"} {
		b := body(fn(tsdbf, "TSDBStore", name))
		n := len(calls(b, "getExtLset"))
		direct := 0
		if b != nil {
			ast.Inspect(b, func(x ast.Node) bool {
				if se, ok := x.(*ast.SelectorExpr); ok && se.Sel.Name == "extLsetAsLabelSets" {
					direct++
				}
				return true
			})
		}
		readers = append(readers, name+": getExtLset x"+strconv.Itoa(n)+", extLsetAsLabelSets x"+strconv.Itoa(direct))
	}
	emitList("storesTSDBStoreExtReads", "pkg/store/tsdb.go TSDBStore.Series / LabelNames / LabelValues: how often the current external labels are read", readers)

	// ---- C07: the block pre-filter of LabelNames / LabelValues
	overlap := "unknown"
	ast.Inspect(body(fn(bucket, "bucketBlock", "overlapsClosedInterval")), func(n ast.Node) bool {
		if ret, ok := n.(*ast.ReturnStmt); ok && len(ret.Results) == 1 {
			overlap = text(ret.Results[0])
		}
		return true
	})
	emitStr("storesOverlapsClosedInterval", "pkg/store/bucket.go bucketBlock.overlapsClosedInterval: which blocks LabelNames / LabelValues look at", overlap)

	// ---- C07: which blocks the label calls skip (the `continue` conditions at the top of their block loops)
	for _, name := range []string{"LabelNames", "LabelValues"} {
		var conds []string
		if fd := fn(bucket, "BucketStore", name); fd != nil && fd.Body != nil {
			ast.Inspect(fd.Body, func(n ast.Node) bool {
				rs, ok := n.(*ast.RangeStmt)
				if !ok || text(rs.X) != "s.blocks" {
					return true
				}
				for _, st := range rs.Body.List {
					if ifs, ok := st.(*ast.IfStmt); ok && len(ifs.Body.List) == 1 {
						if br, ok := ifs.Body.List[0].(*ast.BranchStmt); ok && br.Tok == token.CONTINUE {
							conds = append(conds, text(ifs.Cond))
						}
					}
				}
				return false
			})
		}
		emitList("stores"+name+"BlockFilter", "pkg/store/bucket.go BucketStore."+name+": the conditions under which a block is skipped", conds)
	}

	// ---- C09 / C10: the skeleton of blockSeriesClient.nextBatch
	var loopBody, tail []string
	if nb := fn(bucket, "blockSeriesClient", "nextBatch"); nb != nil && nb.Body != nil {
		for i, st := range nb.Body.List {
			if ls, ok := st.(*ast.LabeledStmt); ok && ls.Label.Name == "OUTER" {
				if rs, ok := ls.Stmt.(*ast.RangeStmt); ok {
					loopBody = storesSkeleton(rs.Body.List)
				}
				tail = storesSkeleton(nb.Body.List[i+1:])
			}
		}
	}
	emitList("storesNextBatchLoop", "pkg/store/bucket.go blockSeriesClient.nextBatch: the statements of the loop over a batch of postings", loopBody)
	emitList("storesNextBatchTail", "pkg/store/bucket.go blockSeriesClient.nextBatch: what follows the loop (series reservation of lazily expanded postings, chunk loading)", tail)
	var stored []string
	for _, f := range []struct{ recv, name string }{{"bucketIndexReader", "ExpandedPostings"}, {"blockSeriesClient", "nextBatch"}} {
		for _, c := range calls(body(fn(bucket, f.recv, f.name)), "storeExpandedPostingsToCache") {
			if len(c.Args) >= 2 {
				stored = append(stored, f.name+": "+text(c.Args[0])+", "+text(c.Args[1]))
			}
		}
	}
	emitList("storesExpandedPostingsStored", "pkg/store/bucket.go: what is stored as the expanded postings of (block, matchers)", stored)
}
