package main

// regenerated facts of the "stores" family (C07 C08 C09 C10 C15)

func init() { families = append(families, factsStores) }

func factsStores() {
}
