package main

import "go/ast"

// regenerated facts of the "misc" family (C45 C46 C47 C48 C49)

func init() { families = append(families, factsMisc) }

// returnTexts lists the results of every return statement of a function body in source order
// (nested function literals excluded).
func returnTexts(b ast.Node) []string {
	var r []string
	if b == nil {
		return r
	}
	ast.Inspect(b, func(n ast.Node) bool {
		switch s := n.(type) {
		case *ast.FuncLit:
			return false
		case *ast.ReturnStmt:
			t := ""
			for i, e := range s.Results {
				if i > 0 {
					t += ", "
				}
				t += text(e)
			}
			r = append(r, t)
		}
		return true
	})
	return r
}

func factsMisc() {
	// ---- C45: pkg/rules/rules.go matches — which return statements the loop over selector sets has
	f := parse("pkg/rules/rules.go")
	emitList("rulesMatchesReturns", "pkg/rules/rules.go matches: results of its return statements in source order",
		returnTexts(body(fn(f, "", "matches"))))
	emitStr("rulesMatchesTemplateScope", "pkg/rules/rules.go matches: is template.New called in the function body (one template shared by all labels) or inside the per-label closure",
		templateScope(fn(f, "", "matches")))

	// ---- C49: SetServers sorts lexically (canonical start) and then naturally
	f = parse("pkg/cacheutil/memcached_server_selector.go")
	emitList("setServersSortCalls", "pkg/cacheutil/memcached_server_selector.go SetServers: the sorting calls in source order",
		callSeq(body(fn(f, "MemcachedJumpHashSelector", "SetServers")), "sort.Strings", "natsort.Sort", "sort.Sort", "sort.Slice", "sort.SliceStable", "sort.Stable"))
}

// templateScope: "function" when template.New is called outside every function literal of fd,
// "closure" when it is only called inside one, "unknown" otherwise.
func templateScope(fd *ast.FuncDecl) string {
	if fd == nil || fd.Body == nil {
		return "unknown"
	}
	outer, inner := 0, 0
	var walk func(n ast.Node, depth int)
	walk = func(n ast.Node, depth int) {
		ast.Inspect(n, func(m ast.Node) bool {
			switch x := m.(type) {
			case *ast.FuncLit:
				walk(x.Body, depth+1)
				return false
			case *ast.CallExpr:
				if callName(x) == "template.New" {
					if depth == 0 {
						outer++
					} else {
						inner++
					}
				}
			}
			return true
		})
	}
	walk(fd.Body, 0)
	switch {
	case outer > 0 && inner == 0:
		return "function"
	case outer == 0 && inner > 0:
		return "closure"
	}
	return "unknown"
}
