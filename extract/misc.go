package main

import (
	"go/ast"
	"go/token"
	"strings"
)

// regenerated facts of the "misc" family (C45 C46 C47 C48 C49)

func init() { families = append(families, factsMisc) }

// returnTexts lists the results of every return statement of a function body in source order
// (nested function literals excluded).
func returnTexts(b ast.Node) []string {
	var r []string
	if b == nil {
		return r
	}
	ast.Inspect(b, func(n ast.Node) bool {
		switch s := n.(type) {
		case *ast.FuncLit:
			return false
		case *ast.ReturnStmt:
			t := ""
			for i, e := range s.Results {
				if i > 0 {
					t += ", "
				}
				t += text(e)
			}
			r = append(r, t)
		}
		return true
	})
	return r
}

func factsMisc() {
	// ---- C45: pkg/rules/rules.go matches — which return statements the loop over selector sets has
	f := parse("pkg/rules/rules.go")
	emitList("rulesMatchesReturns", "pkg/rules/rules.go matches: results of its return statements in source order",
		returnTexts(body(fn(f, "", "matches"))))
	emitList("rulesSelectorLoop", "pkg/rules/rules.go GRPCClient.Rules: how matcherSets is allocated and the whole body of the loop over req.MatcherString (assignments, conditions, return / continue / break) in source order",
		selectorLoop(fn(f, "GRPCClient", "Rules")))
	emitStr("rulesMatchesTemplateScope", "pkg/rules/rules.go matches: is template.New called in the function body (one template shared by all labels) or inside the per-label closure",
		templateScope(fn(f, "", "matches")))

	// ---- C49: SetServers sorts lexically (canonical start) and then naturally
	f = parse("pkg/cacheutil/memcached_server_selector.go")
	emitList("setServersSortCalls", "pkg/cacheutil/memcached_server_selector.go SetServers: the sorting calls in source order",
		callSeq(body(fn(f, "MemcachedJumpHashSelector", "SetServers")), "sort.Strings", "natsort.Sort", "sort.Sort", "sort.Slice", "sort.SliceStable", "sort.Stable"))

	emitList("setServersBuild", "pkg/cacheutil/memcached_server_selector.go SetServers: how the new address list is built and installed — definition of naddr, the loop, every write to naddr, early returns in the loop, the lock and the assignment to s.addrs, in source order",
		setServersBuild(fn(f, "MemcachedJumpHashSelector", "SetServers")))

	// ---- C46: synchronisation skeleton of Queue.Pop / Queue.Push
	f = parse("pkg/alert/alert.go")
	emitList("alertQueuePopSkeleton", "pkg/alert/alert.go Queue.Pop: channel operations, mutex calls, the conditions that guard them and returns, in source order",
		syncSkeleton(fn(f, "Queue", "Pop")))
	emitList("alertQueuePushSkeleton", "pkg/alert/alert.go Queue.Push: channel operations, mutex calls, the conditions that guard them and returns, in source order",
		syncSkeleton(fn(f, "Queue", "Push")))

	// ---- C47: does apply() record an output file in r.lastCfgDirFiles[i] inside the loop over the
	// entries of a config directory (so that a pass that fails later still tracks it), and how the
	// decision to reload is written
	f = parse("pkg/reloader/reloader.go")
	ap := fn(f, "Reloader", "apply")
	emitStr("reloaderTracksWrittenOutputs", "pkg/reloader/reloader.go apply: assignment r.lastCfgDirFiles[i][outFile] = … inside the loop over directory entries",
		tracksWritten(ap))
	emitList("reloaderHashAssignments", "pkg/reloader/reloader.go: every assignment to r.lastCfgHash / r.lastCfgDirsHash / r.lastWatchedDirsHash (also element-wise, also in New), with where it stands: in the retry closure of apply after the call of r.triggerReload, elsewhere in the closure, in apply outside the closure, or in New",
		hashAssignments(f))
	emitStr("reloaderNoReloadCond", "pkg/reloader/reloader.go apply: the condition under which nothing is reloaded",
		firstIfCond(body(ap), "forceReload"))

	// ---- C47: the decision skeleton of the Watch loop (the last `for { … }` of Reloader.Watch) and of
	// the retry loop (runutil.RetryWithLog)
	emitList("reloaderWatchLoop", "pkg/reloader/reloader.go Watch: the endless loop — select, exits, timer reset and apply, in source order",
		loopSkeleton(fn(f, "Reloader", "Watch"), "applyCancel", "context.WithTimeout", "r.apply", "wg.Wait"))
	fr := parse("pkg/runutil/runutil.go")
	emitList("retryLoop", "pkg/runutil/runutil.go RetryWithLog: the loop — call, exits, select, in source order",
		loopSkeleton(fn(fr, "", "RetryWithLog"), "f"))

	// ---- C48: what the chunk iterator does with a chunk that loses all its samples
	f = parse("pkg/compactv2/modifiers.go")
	emitStr("rewriteEmptyChunkAction", "pkg/compactv2/modifiers.go delChunkSeriesIterator.Next: last statement of the branch `p.currDelIter.Next() == chunkenc.ValNone`",
		emptyChunkAction(fn(f, "delChunkSeriesIterator", "Next")))
}

// emptyChunkAction: the last statement of the branch of delChunkSeriesIterator.Next taken when the
// deleted iterator of a chunk yields no sample at all.
func emptyChunkAction(fd *ast.FuncDecl) string {
	res := "unknown"
	if fd == nil || fd.Body == nil {
		return res
	}
	ast.Inspect(fd.Body, func(n ast.Node) bool {
		s, ok := n.(*ast.IfStmt)
		if ok && strings.Contains(text(s.Cond), "p.currDelIter.Next() == chunkenc.ValNone") && len(s.Body.List) > 0 {
			res = text(s.Body.List[len(s.Body.List)-1])
			return false
		}
		return true
	})
	return res
}

// loopSkeleton describes the last condition-less `for { … }` of a function: select statements with
// their cases, if-conditions, return / continue / break statements and the calls named in `names`
// (with their arguments), in source order.
func loopSkeleton(fd *ast.FuncDecl, names ...string) []string {
	var r []string
	if fd == nil || fd.Body == nil {
		return r
	}
	var loop *ast.ForStmt
	ast.Inspect(fd.Body, func(n ast.Node) bool {
		if _, ok := n.(*ast.FuncLit); ok {
			return false
		}
		if f, ok := n.(*ast.ForStmt); ok && f.Cond == nil && f.Init == nil && f.Post == nil {
			loop = f
		}
		return true
	})
	if loop == nil {
		return r
	}
	want := map[string]bool{}
	for _, n := range names {
		want[n] = true
	}
	comm := func(c *ast.CommClause) string {
		switch x := c.Comm.(type) {
		case nil:
			return "default"
		case *ast.SendStmt:
			return "send " + text(x.Chan)
		case *ast.ExprStmt:
			if u, ok := x.X.(*ast.UnaryExpr); ok {
				return "recv " + text(u.X)
			}
		}
		return "unknown"
	}
	var walk func(n ast.Node)
	walk = func(n ast.Node) {
		ast.Inspect(n, func(m ast.Node) bool {
			switch x := m.(type) {
			case *ast.FuncLit:
				return false
			case *ast.SelectStmt:
				var cs []string
				for _, c := range x.Body.List {
					cs = append(cs, comm(c.(*ast.CommClause)))
				}
				r = append(r, "select{"+strings.Join(cs, "|")+"}")
				for _, c := range x.Body.List {
					for _, st := range c.(*ast.CommClause).Body {
						walk(st)
					}
				}
				return false
			case *ast.IfStmt:
				c := text(x.Cond)
				if x.Init != nil {
					c = text(x.Init) + "; " + c
				}
				r = append(r, "if "+c)
				if x.Init != nil {
					walk(x.Init)
				}
				walk(x.Body)
				if x.Else != nil {
					r = append(r, "else")
					walk(x.Else)
				}
				return false
			case *ast.ReturnStmt:
				r = append(r, "return")
			case *ast.BranchStmt:
				r = append(r, x.Tok.String())
			case *ast.CallExpr:
				if want[callName(x)] {
					r = append(r, text(x))
				}
			}
			return true
		})
	}
	walk(loop.Body)
	return r
}

// hashAssignments lists where the three "last…Hash" fields of the Reloader are written.
func hashAssignments(f *ast.File) []string {
	var r []string
	if f == nil {
		return []string{"unknown"}
	}
	isHashField := func(t string) bool {
		return strings.HasPrefix(t, "r.lastCfgHash") || strings.HasPrefix(t, "r.lastCfgDirsHash") || strings.HasPrefix(t, "r.lastWatchedDirsHash")
	}
	// composite literal of New
	if nw := fn(f, "", "New"); nw != nil && nw.Body != nil {
		ast.Inspect(nw.Body, func(n ast.Node) bool {
			if kv, ok := n.(*ast.KeyValueExpr); ok {
				k := text(kv.Key)
				if k == "lastCfgHash" || k == "lastCfgDirsHash" || k == "lastWatchedDirsHash" {
					r = append(r, "New: "+k+": "+text(kv.Value))
				}
			}
			if a, ok := n.(*ast.AssignStmt); ok && len(a.Lhs) == 1 && isHashField(text(a.Lhs[0])) {
				r = append(r, "New: "+text(a.Lhs[0])+" = "+text(a.Rhs[0]))
			}
			return true
		})
	}
	ap := fn(f, "Reloader", "apply")
	if ap == nil || ap.Body == nil {
		return append(r, "unknown")
	}
	var walk func(n ast.Node, where string)
	walk = func(n ast.Node, where string) {
		triggered := false
		ast.Inspect(n, func(m ast.Node) bool {
			switch x := m.(type) {
			case *ast.FuncLit:
				walk(x.Body, "closure")
				return false
			case *ast.CallExpr:
				if callName(x) == "r.triggerReload" {
					triggered = true
				}
			case *ast.AssignStmt:
				for i, l := range x.Lhs {
					if isHashField(text(l)) {
						w := where
						if where == "closure" && triggered {
							w = "closure after r.triggerReload"
						}
						rhs := ""
						if i < len(x.Rhs) {
							rhs = text(x.Rhs[i])
						}
						r = append(r, w+": "+text(l)+" = "+rhs)
					}
				}
			}
			return true
		})
	}
	walk(ap.Body, "apply")
	return r
}

// selectorLoop: the definition of matcherSets and every statement of the loop over req.MatcherString.
func selectorLoop(fd *ast.FuncDecl) []string {
	var r []string
	if fd == nil || fd.Body == nil {
		return []string{"unknown"}
	}
	found := false
	ast.Inspect(fd.Body, func(n ast.Node) bool {
		switch x := n.(type) {
		case *ast.FuncLit:
			return false
		case *ast.AssignStmt:
			if !found && len(x.Lhs) == 1 && text(x.Lhs[0]) == "matcherSets" {
				r = append(r, text(x))
			}
		case *ast.RangeStmt:
			if text(x.X) != "req.MatcherString" {
				return true
			}
			found = true
			r = append(r, "range "+text(x.X))
			ast.Inspect(x.Body, func(m ast.Node) bool {
				switch y := m.(type) {
				case *ast.FuncLit:
					return false
				case *ast.AssignStmt:
					r = append(r, text(y))
				case *ast.IfStmt:
					c := text(y.Cond)
					if y.Init != nil {
						c = text(y.Init) + "; " + c
						r = append(r, "if "+c)
						ast.Inspect(y.Body, func(k ast.Node) bool {
							switch z := k.(type) {
							case *ast.ReturnStmt:
								r = append(r, "return")
							case *ast.BranchStmt:
								r = append(r, z.Tok.String())
							case *ast.AssignStmt:
								r = append(r, text(z))
							}
							return true
						})
						if y.Else != nil {
							r = append(r, "else")
						}
						return false
					}
					r = append(r, "if "+c)
				case *ast.ReturnStmt:
					r = append(r, "return")
				case *ast.BranchStmt:
					r = append(r, y.Tok.String())
				case *ast.IncDecStmt:
					r = append(r, text(y))
				case *ast.ExprStmt:
					r = append(r, text(y))
				}
				return true
			})
			return false
		}
		return true
	})
	if !found {
		return []string{"unknown"}
	}
	return r
}

func setServersBuild(fd *ast.FuncDecl) []string {
	var r []string
	if fd == nil || fd.Body == nil {
		return []string{"unknown"}
	}
	inLoop := 0
	var walk func(n ast.Node)
	walk = func(n ast.Node) {
		ast.Inspect(n, func(m ast.Node) bool {
			switch x := m.(type) {
			case *ast.FuncLit:
				return false
			case *ast.RangeStmt:
				r = append(r, "range "+text(x.X))
				inLoop++
				walk(x.Body)
				inLoop--
				r = append(r, "end range")
				return false
			case *ast.AssignStmt:
				for _, l := range x.Lhs {
					t := text(l)
					if t == "naddr" || strings.HasPrefix(t, "naddr[") || t == "s.addrs" {
						r = append(r, text(x))
						break
					}
				}
			case *ast.ReturnStmt:
				if inLoop > 0 {
					r = append(r, "return in loop")
				}
			case *ast.CallExpr:
				if n := callName(x); n == "s.mu.Lock" || n == "s.mu.Unlock" {
					r = append(r, n)
				}
			}
			return true
		})
	}
	walk(fd.Body)
	return r
}

func tracksWritten(fd *ast.FuncDecl) string {
	if fd == nil || fd.Body == nil {
		return "unknown"
	}
	res := "no"
	found := false
	ast.Inspect(fd.Body, func(n ast.Node) bool {
		rs, ok := n.(*ast.RangeStmt)
		if !ok || text(rs.X) != "entries" {
			return true
		}
		found = true
		ast.Inspect(rs.Body, func(m ast.Node) bool {
			if a, ok := m.(*ast.AssignStmt); ok && len(a.Lhs) == 1 && strings.HasPrefix(text(a.Lhs[0]), "r.lastCfgDirFiles[i][") {
				res = "yes"
			}
			return true
		})
		return false
	})
	if !found {
		return "unknown"
	}
	return res
}

// syncSkeleton lists, in source order: select statements (their communication clauses), sends and
// receives outside selects, mutex Lock/Unlock calls (with "defer"), go statements, every if
// condition that mentions len(...) of a queue / list or a channel, and return statements that
// come before the last mutex/channel operation (early exits).
func syncSkeleton(fd *ast.FuncDecl) []string {
	var r []string
	if fd == nil || fd.Body == nil {
		return r
	}
	var walk func(n ast.Node)
	commText := func(c *ast.CommClause) string {
		switch x := c.Comm.(type) {
		case nil:
			return "default"
		case *ast.SendStmt:
			return "send " + text(x.Chan)
		case *ast.ExprStmt:
			if u, ok := x.X.(*ast.UnaryExpr); ok {
				return "recv " + text(u.X)
			}
		case *ast.AssignStmt:
			if len(x.Rhs) == 1 {
				if u, ok := x.Rhs[0].(*ast.UnaryExpr); ok {
					return "recv " + text(u.X)
				}
			}
		}
		return "unknown"
	}
	walk = func(n ast.Node) {
		ast.Inspect(n, func(m ast.Node) bool {
			switch x := m.(type) {
			case *ast.FuncLit:
				return false
			case *ast.SelectStmt:
				var cs []string
				for _, c := range x.Body.List {
					cs = append(cs, commText(c.(*ast.CommClause)))
				}
				r = append(r, "select{"+strings.Join(cs, "|")+"}")
				for _, c := range x.Body.List {
					for _, st := range c.(*ast.CommClause).Body {
						walk(st)
					}
				}
				return false
			case *ast.SendStmt:
				r = append(r, "send "+text(x.Chan))
			case *ast.UnaryExpr:
				if x.Op == token.ARROW {
					r = append(r, "recv "+text(x.X))
				}
			case *ast.GoStmt:
				r = append(r, "go")
			case *ast.DeferStmt:
				name := callName(x.Call)
				if strings.HasSuffix(name, ".Lock") || strings.HasSuffix(name, ".Unlock") || strings.HasSuffix(name, ".RLock") || strings.HasSuffix(name, ".RUnlock") {
					r = append(r, "defer "+name)
					return false
				}
			case *ast.CallExpr:
				name := callName(x)
				if strings.HasSuffix(name, ".Lock") || strings.HasSuffix(name, ".Unlock") || strings.HasSuffix(name, ".RLock") || strings.HasSuffix(name, ".RUnlock") {
					r = append(r, name)
				}
			case *ast.IfStmt:
				c := text(x.Cond)
				if x.Init != nil {
					c = text(x.Init) + "; " + c
				}
				if strings.Contains(c, "len(") {
					r = append(r, "if "+c)
				}
			case *ast.ReturnStmt:
				r = append(r, "return")
			}
			return true
		})
	}
	walk(fd.Body)
	// a trailing plain return carries no information about exits before the last operation
	return r
}

// templateScope: "function" when template.New is called outside every function literal of fd,
// "closure" when it is only called inside one, "unknown" otherwise.
func templateScope(fd *ast.FuncDecl) string {
	if fd == nil || fd.Body == nil {
		return "unknown"
	}
	outer, inner := 0, 0
	var walk func(n ast.Node, depth int)
	walk = func(n ast.Node, depth int) {
		ast.Inspect(n, func(m ast.Node) bool {
			switch x := m.(type) {
			case *ast.FuncLit:
				walk(x.Body, depth+1)
				return false
			case *ast.CallExpr:
				if callName(x) == "template.New" {
					if depth == 0 {
						outer++
					} else {
						inner++
					}
				}
			}
			return true
		})
	}
	walk(fd.Body, 0)
	switch {
	case outer > 0 && inner == 0:
		return "function"
	case outer == 0 && inner > 0:
		return "closure"
	}
	return "unknown"
}
