package main

// regenerated facts of the "misc" family (C45 C46 C47 C48 C49)

func init() { families = append(families, factsMisc) }

func factsMisc() {
}
