#!/usr/bin/env python3
"""Runs the repository's pinned suite with the hook guard OFF (MANIFEST.hooks.baseline_off_cmd) and compares with
/root/.vp/BASELINE.json: every stable_pass test must still pass.   usage: baseline_check.py [pkg-pattern ...]"""
import json, subprocess, sys, os
base = json.load(open("/root/.vp/BASELINE.json"))
stable = set(base["stable_pass"])
pkgs = sys.argv[1:] or ["./..."]
env = dict(os.environ, GOFLAGS="-mod=mod", GOPROXY="off")
p = subprocess.Popen(["go", "test", "-mod=mod", "-json", "-vet=off", "-count=1", "-timeout", "25m"] + pkgs, cwd="/repo", env=env,
                     stdout=subprocess.PIPE, stderr=subprocess.DEVNULL, text=True)
res = {}
for line in p.stdout:
    try:
        e = json.loads(line)
    except Exception:
        continue
    if e.get("Test") and e.get("Action") in ("pass", "fail", "skip"):
        res["%s::%s" % (e["Package"], e["Test"])] = e["Action"]
p.wait()
seen_pkgs = {k.split("::")[0] for k in res}
want = {t for t in stable if t.split("::")[0] in seen_pkgs} if sys.argv[1:] else stable
bad = sorted(t for t in want if res.get(t) != "pass")
print("stable_pass tests in scope: %d, passing now: %d, not passing: %d" % (len(want), len(want) - len(bad), len(bad)))
for t in bad[:60]:
    print("  ", res.get(t, "missing"), t)
sys.exit(1 if bad else 0)
