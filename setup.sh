#!/bin/sh
# MANIFEST.setup_cmd: build the whole framework offline from files on disk.
#  - Lean: every model, lemma and property module, every model driver executable
#  - Go: the fact extractor and every family harness (this also warms the Go build cache)
set -e
cd "$(dirname "$0")"
export GOFLAGS=-mod=mod GOPROXY=off GOWORK=off
unset GOSUMDB GOTOOLCHAIN || true
mkdir -p .build/main evidence replays
(cd extract && GOFLAGS= go build -o ../.build/main/extract .)
.build/main/extract /repo > lean/Thanos/Generated/Facts.lean.tmp && mv lean/Thanos/Generated/Facts.lean.tmp lean/Thanos/Generated/Facts.lean
python3 - <<'PY'
import re
gomod = open('/repo/go.mod').read()
gomod = re.sub(r'^module .*$', 'module github.com/thanos-io/thanos/verifharness', gomod, count=1, flags=re.M)
gomod += '\nrequire github.com/thanos-io/thanos v0.0.0\n\nreplace github.com/thanos-io/thanos => /repo\n'
open('harness/go.mod', 'w').write(gomod)
open('harness/go.sum', 'w').write(open('/repo/go.sum').read())
PY
(cd lean && lake build)
fams=$(python3 -c "import json,glob;print(' '.join(sorted({json.load(open(f))['family'] for f in glob.glob('registry/*.json')})))")
for f in $fams; do
  (cd lean && lake build model_$f)
  (cd harness && go build -tags slicelabels,verif -o ../.build/main/h_$f ./cmd/$f)
done
echo setup done
